"""C01 Simulations are reproducible: same program twice, with ASLR on (different environment sizes, so the stack moves)
and with ASLR off (setarch -R); see checks/kernel_diff.py and DESIGN.md section 4 (C01)."""
import kernel_diff
LEVEL = "exploration"
META = {"text": "Differential, with TLC as comparator and conformance checker: for each generated program the first run is the "
                "specification of the others (SgKernelTraceEq: every line of run B must be consumable by the reference semantics "
                "SgKernel and equal to run A's next line, clocks and values included); runs differ by address-space layout "
                "(ASLR on with shifted stacks, ASLR off).",
        "note": "A relation between two implementation runs cannot be quantified by TLC; the check explores generated programs "
                "(exploration level). Trusted: kdrv + hook H1 log everything observable (call/return values, clocks, kernel order).",
        "technique": "TLC trace equivalence (run A as spec of run B) conjoined with SgKernel trace validation"}


def run(ctx):
    pad = "x" * (1 + (ctx.seed * 37 + 4001) % 5000)
    ref = ("aslr-on", [], {}, [])
    variants = [("aslr-on-shifted-stack", [], {"VERIF_PAD": pad}, []),
                ("aslr-off", [], {"VERIF_PAD": pad[: len(pad) // 3]}, ["setarch", "x86_64", "-R"])]
    kernel_diff.run(ctx, variants, ref, 120, 500, "C01: variants = ASLR on with a padded environment, ASLR off (setarch -R).")
