"""C02 Outcome independent of context factory / worker threads / synchro: reference = (thread, 1 worker); see
checks/kernel_diff.py and DESIGN.md section 4 (C02)."""
import kernel_diff
LEVEL = "exploration"
META = {"text": "Differential, with TLC as comparator and conformance checker: each generated program is run under "
                "contexts/factory x contexts/nthreads x contexts/synchro and every run must equal the (thread, 1) run stream by "
                "stream (maestro stream totally ordered; actor-side streams per actor, because actor slices are concurrent under "
                "nthreads > 1) while being a behaviour of SgKernel. Parmap.tla (C49) is the model-checked design argument for "
                "the parallel sub-round.",
        "note": "Exploration over generated programs and the 27 configurations; trusted: kdrv + hook H1 logging.",
        "technique": "TLC trace equivalence (run A as spec of run B) conjoined with SgKernel trace validation"}


def run(ctx):
    ref = ("thread/1", ["--cfg=contexts/factory:thread", "--cfg=contexts/nthreads:1"], {}, [])
    variants = []
    for fac in ("thread", "raw", "boost"):
        for nt in (1, 2, 4):
            for syn in ("futex", "posix", "busy_wait"):
                if nt == 1 and syn != "futex":
                    continue  # the synchro mode is only used by the parallel sub-round
                if fac == "thread" and nt == 1:
                    continue
                variants.append(("%s/%d/%s" % (fac, nt, syn),
                                 ["--cfg=contexts/factory:" + fac, "--cfg=contexts/nthreads:%d" % nt,
                                  "--cfg=contexts/synchro:" + syn], {}, []))
    if ctx.quick:
        # every factory and every synchro mode appears; the seed rotates the rest
        k = ctx.seed % 3
        variants = [v for j, v in enumerate(variants) if v[0].endswith("/1/futex") or j % 3 == k]
    kernel_diff.run(ctx, variants, ref, 40, 120, "C02: variants = contexts/factory x nthreads x synchro.")
