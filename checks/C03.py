"""C03 Simulated time is monotone and events happen exactly at their date: see DESIGN.md section 4 (C03),
checks/kernel_sync.py. Every return is logged with the clock in ticks; the trace specification requires each return at the
specification's current date, each time advance to be exactly the next pending date, never backwards."""
import kernel_sync
import kernel_common as K
LEVEL = "model_checking"
META = {"text": "TLC checks ClockMonotone and the no-pending-date-in-the-past invariant on SgKernel over programs mixing sleeps, timed "
                "acquires / condition waits, executions, communications and timed waits with coinciding dates; every trace of the "
                "real kernel is validated: each on_time_advance must jump exactly to the next pending date, each call must return "
                "at exactly the specification's date (bit-exact on the dyadic tick grid).",
        "note": "Trusted: TLC, hook H1, driver kdrv. Sub-precision durations and kill times are not generated yet (kill times: C11).",
        "technique": "TLC model checking of SgKernel + TLC trace validation of real runs (kdrv, hook H1)"}


def run(ctx):
    def gen(rng, quick):
        r = rng.random()
        if r < 0.5:
            return K.gen_timed_prog(rng, max_actors=3, max_ops=3 if quick else 4)
        if r < 0.75:
            return K.gen_sync_prog(rng, "all", max_actors=3 if quick else 4, max_ops=5)
        return K.gen_comm_prog(rng, max_actors=3, max_ops=4, timed=True)
    kernel_sync.run(ctx, "time", 150, 800, gen=gen)
