"""C04: see DESIGN.md section 4 (C04) and checks/kernel_sync.py."""
import kernel_sync
LEVEL = "model_checking"
META = {"text": 'TLC explores every interleaving of every generated lock/try_lock/unlock program under the reference semantics SgKernel (ownership, exclusion, FIFO hand-off, recursion depth as invariants and action properties) and validates every trace recorded from the real kernel (hook H1 + Mutex::get_owner() sampled after each call) as a behaviour of that semantics; small scope (2 actors x 3 ops, recursive and not) is complete.',
        "note": 'Trusted: TLC; hook H1 and the driver kdrv emit issue/handle/answer/ret lines in program order; conformance holds for the executions run (bounded programs), exhaustiveness only for the specification within the stated program sizes.',
        "technique": 'TLC model checking of SgKernel + TLC trace validation of real runs (kdrv, hook H1)'}


def run(ctx):
    kernel_sync.run(ctx, "mutex", 150, 600)
