"""C05: see DESIGN.md section 4 (C05) and checks/kernel_sync.py."""
import kernel_sync
LEVEL = "model_checking"
META = {"text": 'Same pipeline on acquire/acquire_timeout/release programs: token conservation (value = capacity + releases - grants), FIFO grants, timeouts that consume nothing; Semaphore::get_capacity() is compared with the specification state after every call; grant/timeout ties at one date are left open.',
        "note": 'Trusted: TLC; hook H1 and the driver kdrv emit issue/handle/answer/ret lines in program order; conformance holds for the executions run (bounded programs), exhaustiveness only for the specification within the stated program sizes.',
        "technique": 'TLC model checking of SgKernel + TLC trace validation of real runs (kdrv, hook H1)'}


def run(ctx):
    kernel_sync.run(ctx, "sem", 150, 600)
