"""C06: see DESIGN.md section 4 (C06) and checks/kernel_sync.py."""
import kernel_sync
LEVEL = "model_checking"
META = {"text": 'Same pipeline on wait/wait_for/notify_one/notify_all programs with one mutex per condition variable: oldest waiter woken, lost signals, broadcast wakes exactly the present waiters, return only after re-acquiring the mutex (owner sampled at return), timeout iff not notified by the deadline.',
        "note": 'Trusted: TLC; hook H1 and the driver kdrv emit issue/handle/answer/ret lines in program order; conformance holds for the executions run (bounded programs), exhaustiveness only for the specification within the stated program sizes.',
        "technique": 'TLC model checking of SgKernel + TLC trace validation of real runs (kdrv, hook H1)'}


def run(ctx):
    kernel_sync.run(ctx, "cv", 150, 600)
