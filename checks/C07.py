"""C07: see DESIGN.md section 4 (C07) and checks/kernel_sync.py."""
import kernel_sync
LEVEL = "model_checking"
META = {"text": 'Same pipeline on barrier programs (sizes 1..6, repeated use, more actors than the size): waiters are released only in complete groups in arrival order; leftover waiters must end in the deadlock report.',
        "note": 'Trusted: TLC; hook H1 and the driver kdrv emit issue/handle/answer/ret lines in program order; conformance holds for the executions run (bounded programs), exhaustiveness only for the specification within the stated program sizes.',
        "technique": 'TLC model checking of SgKernel + TLC trace validation of real runs (kdrv, hook H1)'}


def run(ctx):
    kernel_sync.run(ctx, "bar", 100, 400)
