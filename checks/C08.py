"""C08 Mailbox communications are exactly-once, FIFO and intact: see DESIGN.md section 4 (C08), checks/kernel_sync.py.
Programs mix put / put_async / put_init+detach / get / get_async / wait / test, mailboxes with a permanent receiver,
timed (exact durations) and untimed (shared link, arbitrary sizes) platforms. The payload identity received (sender,
operation number, size, checksum) is compared with the communication the specification matched."""
import kernel_sync
import kernel_common as K
from kernel_common import op, new_prog
LEVEL = "model_checking"
META = {"text": "TLC explores every interleaving of every generated mailbox program under SgKernel (matching = oldest queued "
                "entry of the opposite kind, permanent receivers served from their started sends first, exactly-once and FIFO as "
                "invariants / action properties) and validates the traces of the real kernel: each received payload identity "
                "must be the one of the communication the specification matched, completion order and dates included on the "
                "timed platform.",
        "note": "Trusted: TLC, hook H1, driver kdrv. Match filters (set_match_fun) and wait_any are not generated yet; "
                "untimed programs leave completion dates free.",
        "technique": "TLC model checking of SgKernel + TLC trace validation of real runs (kdrv, hook H1)"}

EXTRA = [
    # match filters: a filtered receive is pending, a send it rejects is queued behind it, then unfiltered traffic
    new_prog(perm=[0], actors=[[op("recvf", 1, 1)], [op("sleep", 0, 0, 1), op("puta", 1, 0, 2), op("sleep", 0, 0, 2), op("puta", 1, 0, 2), op("wait", 1), op("wait", 2)],
                               [op("sleep", 0, 0, 2), op("get", 1), op("sleep", 0, 0, 4), op("get", 1)], [op("sleep", 0, 0, 5), op("sendt", 1, 1, 2)]]),
    new_prog(perm=[0], actors=[[op("sendt", 1, 2, 1)], [op("sleep", 0, 0, 1), op("sendt", 1, 1, 1)], [op("sleep", 0, 0, 2), op("recvf", 1, 1), op("recvf", 1, 2)]]),
    # an actor ends with an un-waited asynchronous receive / send queued in the middle of the mailbox: the others keep their order
    new_prog(perm=[0], actors=[[op("geta", 1), op("sleep", 0, 0, 3)], [op("sleep", 0, 0, 1), op("geta", 1), op("wait", 1)],
                               [op("sleep", 0, 0, 2), op("geta", 1), op("wait", 1)], [op("sleep", 0, 0, 4), op("put", 1, 0, 1), op("put", 1, 0, 1)]]),
    new_prog(perm=[0], actors=[[op("sleep", 0, 0, 1), op("puta", 1, 0, 2), op("sleep", 0, 0, 20)], [op("puta", 1, 0, 2), op("sleep", 0, 0, 3)],
                               [op("sleep", 0, 0, 2), op("puta", 1, 0, 2), op("sleep", 0, 0, 20)],
                               [op("sleep", 0, 0, 3), op("puta", 1, 0, 2), op("sleep", 0, 0, 20)],
                               [op("sleep", 0, 0, 4), op("get", 1), op("get", 1), op("get", 1)]]),
    new_prog(perm=[0], actors=[[op("put", 1, 0, 5), op("put", 1, 0, 3)], [op("get", 1), op("get", 1)]]),
    new_prog(perm=[0], actors=[[op("puta", 1, 0, 5), op("puta", 1, 0, 3), op("wait", 2), op("wait", 1)],
                               [op("sleep", 0, 0, 2), op("geta", 1), op("get", 1), op("wait", 1)]]),
    new_prog(perm=[2], actors=[[op("put", 1, 0, 5), op("putd", 1, 0, 3)], [op("sleep", 0, 0, 20), op("get", 1), op("get", 1)]]),
    new_prog(perm=[0], actors=[[op("geta", 1), op("waitfor", 1, 0, 4), op("test", 1)], [op("sleep", 0, 0, 3), op("put", 1, 0, 6)]]),
]


def run(ctx):
    kernel_sync.run(ctx, "comm", 100, 400, extra=EXTRA,
                    gen=lambda rng, quick: K.gen_comm_prog(rng, max_actors=3 if quick else 4, max_ops=4))
