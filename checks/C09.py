"""C09 Message queues are exactly-once and FIFO: see DESIGN.md section 4 (C09), checks/kernel_sync.py."""
import kernel_sync
import kernel_common as K
from kernel_common import op, new_prog
LEVEL = "model_checking"
META = {"text": "Same pipeline as C08 on MessageQueue put / put_async / get / get_async / wait / test programs: a matched message is "
                "done at once, queues are strictly FIFO (action property MessFifo), every payload is received exactly once; the "
                "traces of the real kernel are validated against SgKernel with the payload identities compared.",
        "note": "Trusted: TLC, hook H1, driver kdrv.",
        "technique": "TLC model checking of SgKernel + TLC trace validation of real runs (kdrv, hook H1)"}
EXTRA = [new_prog(nmq=1, actors=[[op("mput", 1), op("mputa", 1), op("wait", 1)], [op("mget", 1), op("sleep", 0, 0, 2), op("mget", 1)]]),
         # an actor ends with an un-waited get_async / put_async in the middle of the queue: its entry is cancelled, the order of
         # the others must be kept
         new_prog(nmq=1, actors=[[op("mgeta", 1), op("sleep", 0, 0, 3)], [op("sleep", 0, 0, 1), op("mgeta", 1), op("wait", 1)],
                                 [op("sleep", 0, 0, 2), op("mgeta", 1), op("wait", 1)], [op("sleep", 0, 0, 4), op("mput", 1), op("mput", 1)]]),
         new_prog(nmq=1, actors=[[op("sleep", 0, 0, 1), op("mgeta", 1), op("sleep", 0, 0, 3)], [op("mgeta", 1), op("wait", 1)],
                                 [op("sleep", 0, 0, 2), op("mgeta", 1), op("wait", 1)], [op("sleep", 0, 0, 3), op("mgeta", 1), op("wait", 1)],
                                 [op("sleep", 0, 0, 5), op("mput", 1), op("mput", 1), op("mput", 1)]]),
         new_prog(nmq=1, actors=[[op("mputa", 1), op("sleep", 0, 0, 3)], [op("sleep", 0, 0, 1), op("mputa", 1), op("sleep", 0, 0, 9)],
                                 [op("sleep", 0, 0, 2), op("mputa", 1), op("sleep", 0, 0, 9)],
                                 [op("sleep", 0, 0, 4), op("mget", 1), op("mget", 1)]])]


def run(ctx):
    kernel_sync.run(ctx, "mess", 150, 400, extra=EXTRA,
                    gen=lambda rng, quick: K.gen_comm_prog(rng, max_actors=3 if quick else 4, max_ops=4, mess=True))
