"""C10 Resource failures are reported to every live participant: fault enumeration (DESIGN.md section 4, C10).
For each generated communicating program the fault-free run gives the distinct event dates; then one variant per
(resource, date, position): an injector actor (first or last actor of the program, i.e. scheduled just before / just after the
others at that date) turns the resource off (Host::turn_off of one actor's host, or Link::turn_off) at that date, plus seeded
pairs of faults. Every variant is explored exhaustively by TLC under SgKernel (invariant FailureReported: nobody stays blocked on
a failed activity, no communication runs from/to a dead host) and run on the real kernel; every trace must be a behaviour of
SgKernel: exceptions caught, on_exit(failed) flags, deadlock report."""
import json
import vlib
import kernel_common as K
import kernel_sync
from kernel_common import op, new_prog
LEVEL = "fault_enumeration"
META = {"text": "Fault enumeration on the implementation driven by the specification: every single failure (each host, the link) "
                "injected at every distinct event date of the fault-free run, scheduled before and after the other actors of that "
                "date, and seeded pairs of failures; TLC model-checks each faulty program (FailureReported, Lifecycle invariants) "
                "and validates each real trace: which survivor gets NetworkFailureException, which actor dies with "
                "on_exit(failed=true), and that the run ends without anybody blocked on a failed activity.",
        "note": "One host per actor, one link shared by all communications; failures by API (turn_off), not by state profiles; "
                "turn_on / restart after reboot are not enumerated. Trusted: TLC, hook H1, driver kdrv.",
        "technique": "TLC model checking of SgKernel with failure actions + TLC trace validation of fault-injected real runs"}


def base_prog(rng, quick):
    p = K.gen_comm_prog(rng, max_actors=3, max_ops=3 if quick else 4, timed=True)
    p["lat"] = rng.choice([0, 2, 3])          # a failure may hit a communication during its latency phase
    p["perm"] = [0] * len(p["perm"])          # an eager send towards a dead permanent receiver is an assertion, out of scope
    for a in p["actors"]:
        if rng.random() < 0.5:
            a.insert(0, op("onexit", 7))
        if rng.random() < 0.3:
            a.append(op("exec", 0, 0, rng.randint(1, 3)))
    return p


def with_injector(p, faults, first):
    """faults: list of (date, kind, target). The injector is one more actor (its own host), first or last."""
    q = json.loads(json.dumps(p))
    ops, now = [], 0
    for d, kind, tgt in sorted(faults):
        if d > now:
            ops.append(op("sleep", 0, 0, d - now))
            now = d
        ops.append(op(kind, tgt))
    if first:
        def sh(o):
            o = dict(o)
            if o["op"] in ("hostoff", "kill", "join", "create"):
                o["o"] += 1
            return o
        q["actors"] = [[sh(o) for o in ops]] + q["actors"]
        q["spawn"] = [False] + q["spawn"]
    else:
        q["actors"] = q["actors"] + [ops]
        q["spawn"] = q["spawn"] + [False]
    q["hosts"] = len(q["actors"])
    return q


def run(ctx):
    quick = ctx.quick
    nbase = 8 if quick else 30
    bases = [base_prog(ctx.rng, quick) for _ in range(nbase)]
    base_tr = K.run_many(ctx, bases)
    rej = K.validate_traces(ctx, bases, base_tr, tag="base")
    if rej:
        x = rej[0]
        ctx.violation("fault-free run rejected by SgKernel at %s" % json.dumps(x["record"]),
                      files={"program.json": json.dumps(bases[x["prog"]])}, signature="C10:base:" + vlib.canon_hash(bases[x["prog"]]))
    variants, meta = [], []
    for bi, (p, tr) in enumerate(zip(bases, base_tr)):
        dates = sorted({r["clk"] for r in tr if r.get("e") in ("ret", "adv") and isinstance(r.get("clk"), int) and r["clk"] >= 0} | {0})
        na = len(p["actors"])
        faults = [("hostoff", h + 1) for h in range(na)] + [("linkoff", 0)]
        for d in dates:
            for kind, tgt in faults:
                for first in (False, True):
                    variants.append(with_injector(p, [(d, kind, tgt)], first))
                    meta.append((bi, [(d, kind, tgt)], first))
        # pairs of failures (seeded)
        for _ in range(4 if quick else 20):
            f2 = [(ctx.rng.choice(dates), ) + ctx.rng.choice(faults) for _ in range(2)]
            if f2[0][1:] == f2[1][1:]:
                continue
            variants.append(with_injector(p, f2, False))
            meta.append((bi, f2, False))
    ctx.cov["base_programs"] = nbase
    ctx.cov["fault_points"] = len(variants)
    for v, m in zip(variants, meta):
        ctx.count({"p": v}, nontrivial=True)
    for v, m in list(zip(variants, meta))[:3]:
        ctx.sample({"faults": m[1], "injector_first": m[2], "program": K.prog_brief(v)})
    ctx.cov["rule"] = ("%d base programs (seeded) x every (host | link) x every distinct event date of the fault-free run x injector "
                       "scheduled first/last, plus seeded pairs; all non-trivial (a failure is injected); distinct by JSON hash" % nbase)
    # M: exhaustive exploration of each faulty program
    r, outs = K.mc_explore(ctx, variants, timeout=900 if quick else 3000)
    ctx.add_tlc(r)
    ctx.cov["mc"] = {"status": r.status, "distinct": r.distinct, "generated": r.generated, "wall_s": round(r.wall, 1)}
    if not r.ok:
        raise vlib.InfraError("the specification itself fails on the faulty programs (%s %s)\n%s" % (r.status, r.what[:200], r.out[-3000:]))
    ctx.cov["exhaustive"] = True
    # T: fault injection on the implementation
    traces = K.run_many(ctx, variants)
    rej = K.validate_traces(ctx, variants, traces, tag="flt")
    for x in rej:
        i = x["prog"]
        t2 = K.run_kdrv(ctx, 900000 + i, variants[i])
        if not K.validate_traces(ctx, variants, [(i, t2)], tag="re"):
            ctx.cov["unconfirmed_rejections"] = ctx.cov.get("unconfirmed_rejections", 0) + 1
            continue
        ctx.violation("fault-injected run rejected by SgKernel at record %s: %s (faults %s)" % (json.dumps(x["record"]), x["reason"], meta[i][1]),
                      files={"program.json": json.dumps(variants[i]), "program.txt": K.prog_to_txt(variants[i]),
                             "trace.ndjson": "\n".join(json.dumps(r) for r in t2) + "\n"},
                      signature="C10:%s" % vlib.canon_hash(variants[i]), detail=json.dumps(K.prog_brief(variants[i])))
    # no run may hang (an actor blocked for ever on a failed resource ends in the deadlock report, accepted only if the spec agrees)
    ctx.cov["runs_ending_in_deadlock_report"] = sum(1 for t in traces if any(r.get("e") == "end" and r.get("how") == "deadlock" for r in t))
    ctx.assumptions += ["failures are injected through the API by an injector actor; the order inside one date is explored by placing it first and last",
                        "TLC explores the specification; the binding is the trace validation of every fault-injected run"]
