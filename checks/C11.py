"""C11 Actor lifecycle semantics: see DESIGN.md section 4 (C11), checks/kernel_sync.py. Programs combine create, on_exit callbacks,
join with and without timeout, kill, kill_all, daemonize, set_kill_time with sleeps, executions and semaphore waits; a second family
(K.gen_susp_prog) has actors suspend and resume each other or themselves while they sleep, join, or wait on semaphores and mutexes;
a third one (K.gen_restart_prog) has actors ask for auto-restart and a controller turn their hosts off and on again: every
incarnation must run the inherited callbacks (and those it registers itself) exactly once, in reverse order.

Found by this check and repaired (fix: resuming an actor whose simcall is not handled yet ...): an actor suspended and resumed in the
scheduling round in which it issued a simcall was run before that simcall was answered (its sleep / join / lock returned at once);
an actor answered and resumed in the same round ran twice."""
import kernel_sync
import kernel_common as K
from kernel_common import op, new_prog
LEVEL = "model_checking"
META = {"text": "TLC explores SgKernel on lifecycle programs (invariant Lifecycle: on_exit callbacks run exactly once in reverse "
                "registration order whatever the cause of death, nobody stays joined on a dead actor, daemons do not outlive the last "
                "regular actor) and validates the traces of the real kernel: each on_exit line must be the next callback in reverse "
                "order, join returns exactly at min(end of target, t0+t), a kill time fires exactly at its date, killed actors "
                "observe nothing further, a suspended actor observes nothing (no operation returns, no callback runs) until it is resumed "
                "or killed (action property SuspendedNoProgress in the exploration; guard of the ret line in trace validation).",
        "note": "Trusted: TLC, hook H1, driver kdrv. Left undefined by the specification (not examined): suspension of an actor that takes "
                "part in a communication or an execution, a reboot while the previous incarnation is still dying, arming a second kill "
                "time; the value of "
                "the failed flag is only checked for normal termination (false). Outcome sets are not compared (a kill can land between "
                "an answer and its observation); conformance is by trace validation.",
        "technique": "TLC model checking of SgKernel + TLC trace validation of real runs (kdrv, hook H1)"}
EXTRA = [
    new_prog(actors=[[op("onexit", 11), op("onexit", 12), op("sleep", 0, 0, 3)], [op("join", 1, 0, -1), op("onexit", 21)],
                     [op("join", 1, 0, 1), op("sleep", 0, 0, 1)]]),
    new_prog(actors=[[op("sleep", 0, 0, 5), op("sleep", 0, 0, 5)], [op("sleep", 0, 0, 2), op("kill", 1), op("join", 1, 0, -1)],
                     [op("daemon"), op("onexit", 31), op("sleep", 0, 0, 60)]]),
    new_prog(actors=[[op("create", 2), op("join", 2, 0, -1)], [op("killtime", 0, 0, 3), op("onexit", 21), op("sleep", 0, 0, 10)]],
             spawn=[False, True]),
    # kill of an actor created in the same round (it never runs): used to hang and end on a bogus deadlock report
    new_prog(actors=[[op("onexit", 11), op("create", 3), op("sleep", 0, 0, 5)], [op("sleep", 0, 0, 2)], [op("join", 1, 0, 1)],
                     [op("yield"), op("killall"), op("onexit", 41)]], spawn=[False, False, True, False]),
    # suspend + resume of an actor in the very round in which it issues its sleep: it used to return from the sleep at once
    new_prog(actors=[[op("yield"), op("suspend", 3)], [op("yield"), op("resume", 3)], [op("yield"), op("sleep", 0, 0, 5), op("onexit", 31)]]),
    # a suspended actor answered (semaphore) and resumed in the same round used to be scheduled twice
    new_prog(cap=[0], actors=[[op("suspend", 3), op("rel", 1)], [op("yield"), op("resume", 3)], [op("acq", 1), op("sleep", 0, 0, 3), op("onexit", 31)]]),
    # the sleep ends while its actor is suspended; self-suspension; a joiner suspended when its target dies
    new_prog(actors=[[op("suspend", 2), op("sleep", 0, 0, 4), op("resume", 2), op("resume", 3)], [op("sleep", 0, 0, 2), op("sleep", 0, 0, 1)],
                     [op("suspend", 3), op("join", 1, 0, -1)]]),
    new_prog(actors=[[op("sleep", 0, 0, 2)], [op("join", 1, 0, 5), op("onexit", 21)], [op("suspend", 2), op("sleep", 0, 0, 3), op("resume", 2)]]),
    # auto-restart: two reboots; the callbacks registered before and after set_auto_restart are inherited by every incarnation
    new_prog(actors=[[op("sleep", 0, 0, 1), op("hostoff", 2), op("sleep", 0, 0, 1), op("hoston", 2), op("sleep", 0, 0, 3), op("hostoff", 2),
                      op("sleep", 0, 0, 1), op("hoston", 2)],
                     [op("onexit", 21), op("autorestart"), op("onexit", 22), op("sleep", 0, 0, 2)], [op("join", 2, 0, -1), op("sleep", 0, 0, 2), op("join", 2, 0, -1)]]),
    # the actor had ended normally before its host failed: it is restarted all the same; a daemon stays a daemon
    new_prog(actors=[[op("sleep", 0, 0, 2), op("hostoff", 2), op("sleep", 0, 0, 1), op("hoston", 2), op("sleep", 0, 0, 1)],
                     [op("onexit", 21), op("daemon"), op("autorestart"), op("sleep", 0, 0, 1)], [op("sleep", 0, 0, 4), op("kill", 2)]]),
]


def _gen(rng, quick):
    x = rng.random()
    if x < 0.3:
        return K.gen_susp_prog(rng, max_actors=4, max_ops=5 if quick else 6)
    if x < 0.55:
        return K.gen_restart_prog(rng, max_actors=4, max_ops=4 if quick else 5)
    return K.gen_life_prog(rng, max_actors=4, max_ops=5 if quick else 6)


def run(ctx):
    kernel_sync.run(ctx, "life", 300, 2000, extra=EXTRA, compare_outcomes=False,
                    nontrivial=lambda p: any(o["op"] in ("kill", "killall", "join", "create", "killtime", "daemon", "suspend", "autorestart")
                                             for a in p["actors"] for o in a),
                    rule_note="the program kills, joins, creates, daemonizes, suspends or sets a kill time",
                    gen=lambda rng, quick: _gen(rng, quick))
