"""C11 Actor lifecycle semantics: see DESIGN.md section 4 (C11), checks/kernel_sync.py. Programs combine create, on_exit callbacks,
join with and without timeout, kill, kill_all, daemonize, set_kill_time with sleeps, executions and semaphore waits."""
import kernel_sync
import kernel_common as K
from kernel_common import op, new_prog
LEVEL = "model_checking"
META = {"text": "TLC explores SgKernel on lifecycle programs (invariant Lifecycle: on_exit callbacks run exactly once in reverse "
                "registration order whatever the cause of death, nobody stays joined on a dead actor, daemons do not outlive the last "
                "regular actor) and validates the traces of the real kernel: each on_exit line must be the next callback in reverse "
                "order, join returns exactly at min(end of target, t0+t), a kill time fires exactly at its date, killed actors "
                "observe nothing further.",
        "note": "Trusted: TLC, hook H1, driver kdrv. suspend/resume and auto-restart after reboot are not generated yet; the value of "
                "the failed flag is only checked for normal termination (false). Outcome sets are not compared (a kill can land between "
                "an answer and its observation); conformance is by trace validation.",
        "technique": "TLC model checking of SgKernel + TLC trace validation of real runs (kdrv, hook H1)"}
EXTRA = [
    new_prog(actors=[[op("onexit", 11), op("onexit", 12), op("sleep", 0, 0, 3)], [op("join", 1, 0, -1), op("onexit", 21)],
                     [op("join", 1, 0, 1), op("sleep", 0, 0, 1)]]),
    new_prog(actors=[[op("sleep", 0, 0, 5), op("sleep", 0, 0, 5)], [op("sleep", 0, 0, 2), op("kill", 1), op("join", 1, 0, -1)],
                     [op("daemon"), op("onexit", 31), op("sleep", 0, 0, 60)]]),
    new_prog(actors=[[op("create", 2), op("join", 2, 0, -1)], [op("killtime", 0, 0, 3), op("onexit", 21), op("sleep", 0, 0, 10)]],
             spawn=[False, True]),
    # kill of an actor created in the same round (it never runs): used to hang and end on a bogus deadlock report
    new_prog(actors=[[op("onexit", 11), op("create", 3), op("sleep", 0, 0, 5)], [op("sleep", 0, 0, 2)], [op("join", 1, 0, 1)],
                     [op("yield"), op("killall"), op("onexit", 41)]], spawn=[False, False, True, False]),
]


def run(ctx):
    kernel_sync.run(ctx, "life", 200, 1000, extra=EXTRA, compare_outcomes=False,
                    nontrivial=lambda p: any(o["op"] in ("kill", "killall", "join", "create", "killtime", "daemon") for a in p["actors"] for o in a),
                    rule_note="the program kills, joins, creates, daemonizes or sets a kill time",
                    gen=lambda rng, quick: K.gen_life_prog(rng, max_actors=4, max_ops=5 if quick else 6))
