"""C12 Timed waits are exact: see DESIGN.md section 4 (C12), checks/kernel_sync.py. Programs start asynchronous executions and
communications whose completion date is exact on the timed platform and wait for them with a timeout placed before / at /
after that date; the specification fires a timeout only if the activity is not due to complete by then."""
import kernel_sync
import kernel_common as K
LEVEL = "model_checking"
META = {"text": "TLC explores SgKernel on programs whose activities have exact completion dates (dedicated resources, dyadic "
                "durations) and timeouts placed before, at and after them: wait_for ends at exactly t0+t with a timeout iff the "
                "activity has not completed by then (CanFire: a completion due at the deadline goes first); the traces of the "
                "real kernel (TimeoutException or completion, with the clock) are validated against it.",
        "note": "Trusted: TLC, hook H1, driver kdrv; exact dates rely on the timed platform (FATPIPE link, CM02, powers of two). "
                "wait_for_or_cancel and ActivitySet::wait_any_for are not generated yet.",
        "technique": "TLC model checking of SgKernel + TLC trace validation of real runs (kdrv, hook H1)"}


def run(ctx):
    kernel_sync.run(ctx, "timed", 150, 800, gen=lambda rng, quick: K.gen_timed_prog(rng, max_actors=3, max_ops=3 if quick else 4))
