"""C13 Workflow dependencies are respected (s4u::Activity dependencies / vetoes, Exec / Comm / Io assignment, DAG loaders).
See DESIGN.md section 4 (C13).

M  spec/lib/Dag.tla (functional core: StartCall, Request, AssignPart, AddSucc, Finish) explored by DagMC.tla over every order
   of assignment calls, explicit start() calls, completions and clock ticks: all DAGs <= 3 activities (every kind
   pattern exec/comm, declared up front or edge by edge), and DAGs of 4..6 activities where every activity is start()ed
   at date 0 (what the loaders do) and the assignment / completion orders are exhaustive.  Invariants: started =>
   assigned and every predecessor finished before; start date = max(finish of predecessors, assignment, explicit
   start() when nothing starts it implicitly); everything finishes once everything is assigned and the sources are
   started; dates and states never go back.
T  harness/dag_driver.cpp builds random workflows of <= 30 execs / comms / I/Os through the API (from maestro, with
   run_until between the calls, with dag-simple-like lazy assignment, or from a controller actor that waits for the
   activities) and through create_DAG_from_json / create_DAG_from_DAX (files generated here); API calls are logged
   before they are made, on_veto / on_start / on_completion when they fire; Dag_trace.tla replays each log with the
   operators of Dag (dates -> ranks; finish dates come from the trace).
   Two signal-order facts of the code are accepted because the property speaks of dates, not of signal order: a Comm run
   by maestro releases its successors before its on_completion signal fires (same date; TSilentDone / TOwedDone), and a
   host-to-host Comm fires on_start twice for one start.

Mutations tried in a scratch worktree (tools/mutbuild.sh, VERIF_REPO / VERIF_BUILD), T part of the quick tier:
  * s4u_Exec.cpp Exec::set_host on a STARTING exec calls do_start() instead of start() (starts although dependencies are
    unsolved): CAUGHT (on_start lines of activities the model has not started; 8+ scenarios, api / lazy / json / dax)
  * Activity.hpp Activity::complete releases the successors before firing on_completion: CAUGHT (start / veto lines of
    the successors precede the done line of the predecessor; 8+ scenarios)
"""
import json, os
import vlib, drivers
import lib2_common as L

LEVEL = "model_checking"
META = {"text": "TLC explores module Dag (start() / veto, assignment calls of Exec, Comm and Io, add_successor, completion and "
                "release of the successors) over every order of assignments, explicit starts, completions and clock ticks for "
                "all DAGs of at most 3 activities and for sampled DAGs of 4 to 6 activities, with the invariants 'started => "
                "assigned and all predecessors finished before', 'start date = latest of (finish of predecessors, assignment, "
                "explicit start when needed)' and 'everything finishes once everything is assigned'; the API calls and the "
                "on_veto / on_start / on_completion signals recorded from real workflows of up to 30 execs, comms and I/Os "
                "(API from maestro and from an actor, lazy scheduling, JSON and DAX loaders) are replayed by TLC with the same "
                "operators, every invariant being evaluated after every recorded event.",
        "note": "Trusted: TLC; the driver logs API calls immediately before making them and signals when they fire; dates are "
                "compared through their ranks; finish dates are those of the recorded on_completion signals (durations are not "
                "predicted); no failure, cancellation or cyclic graph is exercised; DOT loader not built here (no graphviz).",
        "technique": "TLC model checking of Dag / DagMC + TLC trace validation of real workflow runs (Dag_trace.tla)"}
DRIVERS = {"dag_driver": (["dag_driver.cpp"], "s4u", [])}
drivers.register(DRIVERS)


# ------------------------------------------------------------------------------------------------- M
def small_dags(nmax, kinds=("exec", "comm")):
    import itertools
    out = []
    for n in range(1, nmax + 1):
        pairs = [(a, b) for a in range(1, n + 1) for b in range(a + 1, n + 1)]
        for mask in range(1 << len(pairs)):
            ed = [list(p) for i, p in enumerate(pairs) if mask >> i & 1]
            for ks in itertools.product(kinds, repeat=n):
                out.append({"n": n, "kind": list(ks), "edges": ed, "dyn": False, "reqinit": False})
    return out


def random_dag(rng, n, density=None):
    density = density if density is not None else rng.choice([0.2, 0.35, 0.5])
    ed = [[a, b] for a in range(1, n + 1) for b in range(a + 1, n + 1) if rng.random() < density]
    return {"n": n, "kind": [rng.choice(["exec", "exec", "comm", "io"]) for _ in range(n)], "edges": ed, "dyn": False,
            "reqinit": True}


def run_mc(ctx):
    rng = ctx.rng
    fams = []
    sd = small_dags(3)
    if ctx.quick:
        fams.append(("all-dags-le3", sd, 1, 1))
        dyn = [dict(g, dyn=True) for g in sd if g["n"] == 3 and len(g["edges"]) >= 2][::3]
        fams.append(("edge-by-edge-3", dyn, 1, 1))
        fams.append(("assign-orders-4to6", [random_dag(rng, n) for n in (4, 4, 5, 5, 5, 6, 6, 6) for _ in range(5)], 1, 1))
    else:
        fams.append(("all-dags-le3", sd, 2, 2))
        fams.append(("edge-by-edge-le3", [dict(g, dyn=True) for g in sd if g["edges"]], 2, 1))
        fams.append(("full-interleaving-4", [dict(random_dag(rng, 4), reqinit=False) for _ in range(12)], 1, 1))
        for part in range(4):
            fams.append(("assign-orders-4to6-%d" % part,
                         [random_dag(rng, n) for n in (4, 5, 5, 6, 6, 6) for _ in range(12)], 2, 1))

    def one(f):
        name, dags, maxt, maxreq = f
        df = os.path.join(ctx.scratch, name + ".json")
        json.dump(dags, open(df, "w"))
        cfg = os.path.join(ctx.scratch, name + ".cfg")
        L.write_cfg(cfg, {"MaxT": maxt, "MaxReq": maxreq}, invariants=["Inv", "LiveInv"], properties=["Monotone"],
                    deadlock=False, extra=["VIEW View"])
        r = vlib.tlc(os.path.join(L.LSPEC, "DagMC.tla"), cfg=cfg, env={"DAGS": df}, workers=4, coverage=True,
                     timeout=1500 if ctx.quick else 3000, xmx="6g")
        return name, len(dags), r

    summary = {}
    taken = set()
    for name, nd, r in vlib.parallel_map(one, fams, nproc=4):
        summary[name] = {"dags": nd, "status": r.status, "distinct": r.distinct, "generated": r.generated,
                         "diameter": r.diameter, "wall_s": round(r.wall, 1)}
        ctx.add_tlc(r)
        if not r.ok:
            raise vlib.InfraError("Dag.tla fails on its own in family %s (%s %s): fix the specification\n%s" %
                                  (name, r.status, r.what[:200], r.out[-4000:]))
        taken |= {a for a, (d, g) in r.coverage.items() if g > 0}
        # disjuncts of Next quantified over a state-dependent set are reported as "Next (line col line col)"
        import re
        src = open(os.path.join(L.LSPEC, "DagMC.tla")).read().splitlines()
        for m in re.finditer(r"^<Next line \d+, col \d+ to line \d+, col \d+ of module DagMC \((\d+) \d+ \d+ \d+\)>: (\d+):(\d+)", r.out, re.M):
            mm = re.search(r"(M\w+)\(", src[int(m.group(1)) - 1])
            if mm and int(m.group(3)) > 0:
                taken.add(mm.group(1))
    ctx.cov["mc"] = summary
    ctx.cov["mc_actions_taken"] = sorted(taken)
    missing = {"MAddSucc", "MAssign", "MRequest", "MFinish", "Tick"} - taken
    if missing:
        raise vlib.InfraError("actions of DagMC never taken: %s" % sorted(missing))
    ctx.cov["exhaustive"] = True


# ------------------------------------------------------------------------------------------------- T: scenario generation
DATES = [0.25, 0.5, 1, 1.5, 2, 3, 5, 8]


def gen_graph(rng, nmax):
    n = rng.randint(2, nmax)
    shape = rng.choice(["random", "random", "layers", "chain", "forkjoin"])
    edges = set()
    if shape == "random":
        dens = rng.choice([0.05, 0.1, 0.2, 0.4])
        for a in range(n):
            for b in range(a + 1, n):
                if rng.random() < dens:
                    edges.add((a, b))
    elif shape == "layers":
        w = rng.randint(2, 5)
        for b in range(w, n):
            layer = b // w
            for a in range((layer - 1) * w, layer * w):
                if rng.random() < 0.6:
                    edges.add((a, b))
    elif shape == "chain":
        for a in range(n - 1):
            edges.add((a, a + 1))
        for _ in range(n // 4):
            a = rng.randrange(n - 1)
            edges.add((a, rng.randrange(a + 1, n)))
    else:
        for a in range(1, n - 1):
            edges.add((0, a))
            edges.add((a, n - 1))
    kinds = [rng.choice(["exec", "exec", "exec", "comm", "comm", "io"]) for _ in range(n)]
    amount = {"exec": lambda: rng.choice([1e8, 5e8, 1e9, 2e9, 3e9]), "comm": lambda: rng.choice([1e5, 1e6, 1e7, 5e7]),
              "io": lambda: rng.choice([1e5, 1e6, 5e6])}
    return n, kinds, [amount[k]() for k in kinds], sorted(edges)


def gen_api(rng, nmax, actor=False):
    """scenario text + meta for an API-built workflow"""
    n, kinds, amounts, edges = gen_graph(rng, nmax)
    names = ["a%d" % (i + 1) for i in range(n)]
    preds = {b: [a for a, x in edges if x == b] for b in range(n)}
    lazy = (not actor) and rng.random() < 0.25
    full = actor or rng.random() < 0.8
    lines = ["HOSTS %d" % rng.randint(1, 4), "ACTOR %d" % (1 if actor else 0)]
    if lazy:
        lines.append("LAZY")
    for i in range(n):
        lines.append("A %s %s %g" % (names[i], kinds[i], amounts[i]))
    # when is each activity assigned: "pre" (date 0, before the start() calls), "post" (date 0, after them), a later date,
    # "lazy" (left to the LAZY loop), "never"
    when = []
    for i in range(n):
        if lazy:
            when.append(rng.choice(["pre", "post", "lazy", "lazy"]))
        elif actor:
            when.append(rng.choice(["pre", "post", "post"]))
        else:
            w = rng.choice(["pre", "post", "post", "late", "late"])
            if not full and rng.random() < 0.15:
                w = "never"
            when.append(w)
    late_date = {i: rng.choice(DATES) for i in range(n) if when[i] == "late"}
    # edges declared late: only between activities that are both assigned later than the edge (hence not started)
    late_edges = {}
    for (a, b) in edges:
        if when[a] == "late" and when[b] == "late" and kinds[b] != "comm" and rng.random() < 0.3:
            d = min(late_date[a], late_date[b])
            cands = [x for x in [0.1, 0.2] + DATES if x < d]
            if cands:
                late_edges[(a, b)] = rng.choice(cands)
    ops = {}     # date -> list of op lines

    def add(date, text):
        ops.setdefault(date, []).append(text)

    def assign_ops(i, date):
        h = rng.randrange(8)
        if kinds[i] == "comm":
            two = ["CS %s %d" % (names[i], h), "CD %s %d" % (names[i], h + 1 + rng.randrange(3))]
            rng.shuffle(two)
            add(date, two[0])
            # the second half of a Comm assignment may come later
            d2 = date if (rng.random() < 0.7 or lazy or actor) else rng.choice([x for x in DATES if x >= date] or [date])
            add(d2, two[1])
        else:
            add(date, "H %s %d" % (names[i], h))

    order0 = []
    for (a, b) in edges:
        if (a, b) not in late_edges:
            order0.append("S %s %s" % (names[a], names[b]))
    rng.shuffle(order0)
    pre = [i for i in range(n) if when[i] == "pre"]
    rng.shuffle(pre)
    for t in order0:
        add(0, t)
    for i in pre:
        assign_ops(i, 0)
    # explicit start(): every source (unless the scenario is deliberately incomplete), some of the others
    reqs = []
    for i in range(n):
        root = not preds[i]
        if kinds[i] == "comm" and when[i] == "pre":
            continue        # both halves assigned: the Comm has been started by set_source / set_destination already
        if root and (full or rng.random() < 0.7):
            reqs.append(i)
        elif not root and rng.random() < 0.3:
            reqs.append(i)
    rng.shuffle(reqs)
    for i in reqs:
        late_req = (not actor) and (not lazy) and rng.random() < 0.2 and all((p, i) not in late_edges for p in preds[i])
        # a late explicit start() is only legal while the activity has not started: keep it before anything can start it
        if late_req and when[i] == "late" and late_date[i] > 0.25:
            add(rng.choice([x for x in [0.1, 0.2] + DATES if x < late_date[i]]), "R %s" % names[i])
        else:
            add(0, "R %s" % names[i])
    for i in range(n):
        if when[i] == "post":
            assign_ops(i, 0)
        elif when[i] == "late":
            assign_ops(i, late_date[i])
    for (a, b), d in late_edges.items():
        ops.setdefault(d, []).insert(0, "S %s %s" % (names[a], names[b]))
    for d in sorted(ops):
        lines.append("T %g" % d)
        lines += ops[d]
    if actor:
        # wait for everything, in a random topological order
        done, order = set(), []
        while len(order) < n:
            ready = [i for i in range(n) if i not in done and all(p in done for p in preds[i])]
            i = rng.choice(ready)
            done.add(i)
            order.append(i)
        lines += ["W %s" % names[i] for i in order]
    return {"mode": "actor" if actor else ("lazy" if lazy else "api"), "n": n, "edges": len(edges), "text": "\n".join(lines) + "\n",
            "files": {}}


def gen_json(rng, nmax):
    n = rng.randint(2, nmax)
    hosts = rng.randint(1, 4)
    tasks, computes, ops = [], [], []
    names = []
    for i in range(n):
        name = "t%d" % (i + 1)
        is_transfer = computes and rng.random() < 0.35
        if is_transfer:
            # a transfer has exactly one parent, a compute task placed on a machine (the loader takes its host as source)
            p = rng.choice(computes)
            t = {"name": name, "type": "transfer", "parents": [p], "writtenBytes": rng.choice([1e5, 1e6, 1e7, 5e7])}
            if rng.random() < 0.7:
                t["machine"] = "h%d" % rng.randrange(hosts)
            else:
                ops.append("CD %s %d" % (name, rng.randrange(hosts)))
        else:
            k = rng.choice([0, 0, 1, 1, 2, 3])
            parents = rng.sample(names, min(k, len(names)))
            t = {"name": name, "type": "compute", "parents": parents, "runtimeInSeconds": rng.choice([1e8, 5e8, 1e9, 2e9]),
                 "machine": "h%d" % rng.randrange(hosts)}
            computes.append(name)
        tasks.append(t)
        names.append(name)
    doc = {"name": "generated", "schemaVersion": "1.4", "workflow": {"makespanInSeconds": 0, "executedAt": "2023-03-09T00:00:00-00:00",
                                                                       "tasks": tasks, "machines": [{"nodeName": "h%d" % i} for i in range(hosts)]}}
    lines = ["HOSTS %d" % hosts, "ACTOR 0", "LOAD json @FILE@"]
    rng.shuffle(ops)
    cut = rng.randint(0, len(ops))
    lines += ["T 0"] + ops[:cut]
    if ops[cut:]:
        lines += ["T %g" % rng.choice(DATES)] + ops[cut:]
    return {"mode": "json", "n": n, "edges": sum(len(t["parents"]) for t in tasks), "text": "\n".join(lines) + "\n",
            "files": {"wf.json": json.dumps(doc, indent=1)}}


def gen_dax(rng, nmax):
    nj = rng.randint(1, max(1, min(10, nmax // 3)))
    hosts = rng.randint(1, 4)
    jobs = [{"id": "ID%05d" % i, "name": "job%d" % i, "runtime": rng.choice([0.05, 0.1, 0.5, 1, 2]), "in": [], "out": []} for i in range(nj)]
    nfiles = rng.randint(0, max(1, nmax // 3))
    files = {}
    budget = nmax - nj - 2
    comms = []          # (producer name or root, file, consumer name or end)
    for f in range(nfiles):
        fname = "f%d" % f
        size = rng.choice([1000, 100000, 1000000, 10000000])
        kind = rng.choice(["in", "out", "pipe", "pipe"])
        prod, cons = [], []
        if kind in ("out", "pipe"):
            prod = [rng.randrange(nj)]
        if kind in ("in", "pipe"):
            cands = [j for j in range(nj) if not prod or j > prod[0]]
            if not cands:
                if not prod:
                    continue
            else:
                cons = rng.sample(cands, rng.randint(1, min(2, len(cands))))
        if not prod and not cons:
            continue
        new = []
        pn = lambda j: "%s@%s" % (jobs[j]["id"], jobs[j]["name"])
        if not prod:
            new = [("root", fname, pn(c)) for c in cons]
        elif not cons:
            new = [(pn(p), fname, "end") for p in prod]
        else:
            new = [(pn(p), fname, pn(c)) for p in prod for c in cons]
        if len(comms) + len(new) > budget:
            break
        comms += new
        for p in prod:
            jobs[p]["out"].append((fname, size))
        for c in cons:
            jobs[c]["in"].append((fname, size))
    ctrl = set()
    for _ in range(rng.randint(0, nj)):
        a, b = rng.randrange(nj), rng.randrange(nj)
        if a < b:
            ctrl.add((a, b))
    x = ['<?xml version="1.0" encoding="UTF-8"?>',
         '<adag xmlns="http://pegasus.isi.edu/schema/DAX" xmlns:xsi="http://www.w3.org/2001/XMLSchema-instance" '
         'xsi:schemaLocation="http://pegasus.isi.edu/schema/DAX http://pegasus.isi.edu/schema/dax-2.1.xsd" version="2.1" '
         'count="1" index="0" name="gen" jobCount="%d" fileCount="%d" childCount="%d">' % (nj, nfiles, len({b for a, b in ctrl}))]
    for j in jobs:
        x.append('  <job id="%s" namespace="SG" name="%s" version="1.0" runtime="%g">' % (j["id"], j["name"], j["runtime"]))
        for link, lst in (("input", j["in"]), ("output", j["out"])):
            for fname, size in lst:
                x.append('    <uses file="%s" link="%s" register="true" transfer="true" optional="false" type="data" size="%d"/>'
                         % (fname, link, size))
        x.append('  </job>')
    for b in sorted({b for a, b in ctrl}):
        x.append('  <child ref="%s">' % jobs[b]["id"])
        for a in sorted(a for a, bb in ctrl if bb == b):
            x.append('    <parent ref="%s"/>' % jobs[a]["id"])
        x.append('  </child>')
    x.append('</adag>')
    ops = ["H root %d" % rng.randrange(hosts), "H end %d" % rng.randrange(hosts)]
    for j in jobs:
        ops.append("H %s@%s %d" % (j["id"], j["name"], rng.randrange(hosts)))
    for p, f, c in comms:
        name = "%s_%s_%s" % (p, f, c)
        ops.append("CS %s %d" % (name, rng.randrange(hosts)))
        ops.append("CD %s %d" % (name, rng.randrange(hosts)))
    if rng.random() < 0.2 and len(ops) > 3:
        ops.pop(rng.randrange(len(ops)))        # an incomplete schedule: something never starts
    rng.shuffle(ops)
    lines = ["HOSTS %d" % hosts, "ACTOR 0", "LOAD dax @FILE@"]
    k = rng.choice([1, 1, 2, 3])
    cuts = sorted(rng.randint(0, len(ops)) for _ in range(k - 1))
    dates = [0] + sorted(rng.sample(DATES, k - 1))
    prev = 0
    for d, c in zip(dates, cuts + [len(ops)]):
        lines += ["T %g" % d] + ops[prev:c]
        prev = c
    return {"mode": "dax", "n": nj + 2 + len(comms), "edges": 2 * len(comms) + len(ctrl), "text": "\n".join(lines) + "\n",
            "files": {"wf.xml": "\n".join(x) + "\n"}}


# ------------------------------------------------------------------------------------------------- T: running / converting
def run_scenario(ctx, idx, sc, tag="s"):
    drv = drivers.get("dag_driver")
    d = os.path.join(ctx.scratch, "%s%d" % (tag, idx))
    os.makedirs(d, exist_ok=True)
    text = sc["text"]
    for fn, content in sc["files"].items():
        open(os.path.join(d, fn), "w").write(content)
        text = text.replace("@FILE@", os.path.join(d, fn))
    open(os.path.join(d, "scenario.txt"), "w").write(text)
    of = os.path.join(d, "out.ndjson")
    rc, out, err = vlib.sh([drv, os.path.join(d, "scenario.txt"), of, "--log=root.thres:critical", "--cfg=debug/stacktrace:none"],
                           timeout=60, env=vlib.sg_env())
    recs = []
    if os.path.exists(of):
        for line in open(of):
            line = line.strip()
            if line:
                try:
                    recs.append(json.loads(line))
                except ValueError:
                    recs.append({"e": "garbled", "a": 0, "clk": "0"})
    if not recs or recs[-1].get("e") != "end":
        recs.append({"e": "crash", "a": 0, "clk": recs[-1]["clk"] if recs else "0", "rc": rc, "stderr": err[-300:]})
    import shutil
    shutil.rmtree(d, ignore_errors=True)
    return recs


def to_unit(recs):
    """dates -> ranks among the distinct values of the run; reset line built from the create lines"""
    vals = sorted({float(r.get("clk", "0")) for r in recs})
    rank = {v: i for i, v in enumerate(vals)}
    creates = [r for r in recs if r.get("e") == "create"]
    unit = [{"e": "reset", "n": len(creates), "kinds": [r["kind"] for r in sorted(creates, key=lambda r: r["a"])]}]
    for r in recs:
        x = {k: v for k, v in r.items() if k not in ("clk", "name", "stderr")}
        x["t"] = rank[float(r.get("clk", "0"))]
        x.setdefault("b", 0)
        x.setdefault("kind", "")
        x.setdefault("state", "")
        unit.append(x)
    return unit


def stats(recs):
    succs = {}
    for r in recs:
        if r["e"] == "succ":
            succs.setdefault(r["b"], set()).add(r["a"])
    dep_started = len({r["a"] for r in recs if r["e"] == "start" and succs.get(r["a"])})
    return {"vetoes": sum(1 for r in recs if r["e"] == "veto"), "starts_with_preds": dep_started,
            "done": sum(1 for r in recs if r["e"] == "done"), "acts": sum(1 for r in recs if r["e"] == "create")}


def run_traces(ctx):
    rng = ctx.rng
    total = 260 if ctx.quick else 6000
    scs = []
    for i in range(total):
        x = rng.random()
        nmax = rng.choice([4, 8, 16, 30, 30])
        if x < 0.55:
            scs.append(gen_api(rng, nmax))
        elif x < 0.70:
            scs.append(gen_api(rng, min(nmax, 16), actor=True))
        elif x < 0.85:
            scs.append(gen_json(rng, nmax))
        else:
            scs.append(gen_dax(rng, nmax))
    runs = vlib.parallel_map(lambda ix: run_scenario(ctx, ix[0], ix[1]), list(enumerate(scs)), nproc=12)
    units = [to_unit(r) for r in runs]
    modes = {}
    agg = {"vetoes": 0, "starts_with_preds": 0, "done": 0, "acts": 0}
    for sc, recs in zip(scs, runs):
        st = stats(recs)
        for k in agg:
            agg[k] += st[k]
        modes[sc["mode"]] = modes.get(sc["mode"], 0) + 1
        ctx.count([sc["text"], sc["files"]], nontrivial=st["starts_with_preds"] > 0 and st["vetoes"] > 0)
    for sc, recs in list(zip(scs, runs))[:4]:
        ctx.sample({"mode": sc["mode"], "activities": sc["n"], "edges": sc["edges"], **stats(recs)})
    ctx.cov["scenarios_by_mode"] = modes
    ctx.cov["signals"] = agg
    ctx.cov["duplicate_on_start_signals"] = sum(
        max(0, sum(1 for r in recs if r["e"] == "start" and r["a"] == a) - 1) for recs in runs
        for a in {r["a"] for r in recs if r["e"] == "start"})
    rej = L.validate_units(ctx, "Dag_trace.tla", units, "dt", chunk_lines=20000)
    for x in rej:
        i = x["unit"]
        recs2 = run_scenario(ctx, i, scs[i], tag="re")
        r2 = L.validate_units(ctx, "Dag_trace.tla", [to_unit(recs2)], "re%d" % i)
        if not r2:
            ctx.cov["unconfirmed_rejections"] = ctx.cov.get("unconfirmed_rejections", 0) + 1
            continue
        y = r2[0]
        raw = recs2[y["line"] - 1] if 0 < y["line"] <= len(recs2) else None
        what = (y["record"] or {}).get("e")
        files = {"scenario.txt": scs[i]["text"], "trace.ndjson": "\n".join(json.dumps(r) for r in recs2) + "\n",
                 "unit.ndjson": "\n".join(json.dumps(r) for r in to_unit(recs2)) + "\n",
                 "howto.txt": ".build/harness/dag_driver scenario.txt out.ndjson (replace @FILE@ by the workflow file); the check "
                              "turns clk into ranks (unit.ndjson) and validates with spec/lib/Dag_trace.tla\n"}
        files.update(scs[i]["files"])
        ctx.violation("workflow run (%s, %d activities) is not a behaviour of Dag: record %s: %s" %
                      (scs[i]["mode"], scs[i]["n"], json.dumps(raw), y["reason"]),
                      files=files, signature="C13:%s:%s:%s" % (scs[i]["mode"], what, vlib.canon_hash([scs[i]["text"], scs[i]["files"]])),
                      detail="first unconsumed record #%d\n%s" % (y["line"], y["tlc_tail"]))


def run(ctx):
    ctx.cov["rule"] = ("cases = generated workflow scenarios (random graph shapes <= 30 activities of kinds exec/comm/io; assignment "
                       "before / after the start() calls / at later dates / lazily / never; API from maestro, API from an actor, "
                       "JSON loader, DAX loader), drawn from VERIF_SEED; non-trivial = at least one activity with predecessors "
                       "started and at least one veto was signalled; distinct by hash of scenario + workflow file")
    run_mc(ctx)
    run_traces(ctx)
    ctx.assumptions += [
        "finish dates are the dates of the on_completion signals of the trace (durations are not predicted)",
        "a repeated on_start signal for the same start (host-to-host Comm) is accepted as a stuttering step",
        "dependencies declared towards an already started activity, or from a finished one, are outside the property",
        "API calls are logged by the driver immediately before they are made; signals when they fire"]
