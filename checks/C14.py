"""C14: see DESIGN.md section 4 (C14) and checks/kernel_sync.py."""
import kernel_sync
LEVEL = "model_checking"
META = {"text": 'For mixed synchronisation programs TLC computes the full set of terminal outcomes of the reference semantics; each real run (several context factories) must be a behaviour of the semantics and end in one of these outcomes; a deadlock report is accepted only in a state the semantics calls deadlocked.',
        "note": 'Trusted: TLC; hook H1 and the driver kdrv emit issue/handle/answer/ret lines in program order; conformance holds for the executions run (bounded programs), exhaustiveness only for the specification within the stated program sizes.',
        "technique": 'TLC outcome sets of SgKernel + TLC trace validation of real runs'}


def run(ctx):
    kernel_sync.run(ctx, "all", 250, 1000)
