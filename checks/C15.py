"""C15: Sharing solvers never exceed capacities.  See DESIGN.md section 4 (C15), checks/lmm_check.py (pipeline) and checks/lmm_common.py.

What is decided: after every solve of every replayed history, TLC evaluates Lmm!FeasibleI on the values of the real systems
(MaxMin selective, MaxMin full, a fresh MaxMin system rebuilt from the current activities, BMF, FairBottleneck): weighted sum <=
capacity on SHARED constraints, each weighted rate <= capacity on FATPIPE constraints, disabled / suspended / staged variables
at 0, 0 <= rate <= bound, up to precision/work-amount.  A solver that aborts (other than the explicit error of BMF) or does not
terminate (2 s of CPU time) is a rejection too.  M: Lmm!FeasibleR holds for the reference allocation MaxMin(sys) in every state
of the small-scope exploration of Lmm.tla.

Mutations tried (scratch worktree, VERIF_REPO/VERIF_BUILD, quick tier with VERIF_LMM_SCALE=0.4):
  M3  maxmin_solve ignores the bound of a variable (`if (false && var.bound_ > 0 ...)`)        caught (Feasible on mmsel, mmfull; exit 1)
  M4+M5+M6 together (FATPIPE rule forgotten / staging off by one / update_constraint_bound forgets the modified set): run
      interrupted for lack of machine time; M6 is expected to be caught (stale rates above a decreased capacity), M4 is not
      (it under-allocates: feasible).
With the seven proposed fixes applied (proposed/fix-C1[5-8]-*.diff) the check reports no rejection except one BMF bound excess
that the proposed BMF patch (a test in is_bmf) still lets through.
"""
import lmm_check, lmm_common
LEVEL = "model_checking"
META = {"text": "TLC generates histories of lmm::System API operations from the specification spec/lmm/Lmm.tla (regression cases, seeded -simulate histories, every 2-operation extension of base systems), the driver replays them on real MaxMin (selective and full), fresh, BMF and FairBottleneck systems, and TLC evaluates the capacity / bound / zero-rate predicate Feasible of the specification on the implementation's values after every solve; the reference allocation is model-checked feasible at small scope. Model checking of the specification plus conformance of replayed behaviours, hence model_checking.",
        "note": 'Trusted: TLC; the driver harness/lmm_driver.cpp (replays the operations through the public API of lmm::System, reads values back with get_value / get_penalty / get_concurrency_slack, scales doubles by 1e5 and rounds); tolerance = 1e5 * precision/work-amount per unit of magnitude + rounding. Conformance holds for the histories replayed (<= 3 constraints x 7 variables x 26 operations in the quick tier, <= 5 x 10 x 60 in the thorough tier; not the 12 x 20 systems of the statement), exhaustiveness only for Lmm.tla within the stated scope and for the 2-operation extensions of the base systems. In-situ dumps of simulations (hook H2) are not used. TLC -coverage cannot be used on these modules (it runs out of memory building its cost model): vacuity is guarded by measured operation counts. Rejections in the situations recorded in KNOWN_FINDINGS.jsonl (cause tags computed by TLC on the abstract system that follows the implementation) are reported as known findings; a mutation that only shows in those situations would be masked.',
        "technique": 'TLC model checking of spec/lmm/Lmm.tla (LmmGen, small scope) + TLC-generated histories replayed into the real lmm::System classes (harness/lmm_driver.cpp) + TLC evaluation of the predicates on the logged values (LmmTrace.tla)'}
DRIVERS = lmm_common.DRIVERS


def run(ctx):
    lmm_check.run(ctx, "C15")
