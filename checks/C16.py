"""C16: Max-min and BMF allocations are fair. See DESIGN.md section 4 (C16), checks/lmm_check.py and checks/lmm_common.py."""
import lmm_check, lmm_common
LEVEL = "model_checking"
DRIVERS = lmm_common.DRIVERS


def run(ctx):
    lmm_check.run(ctx, "C16")
