"""C16: Max-min and BMF allocations are fair.  See DESIGN.md section 4 (C16), checks/lmm_check.py (pipeline) and checks/lmm_common.py.

What is decided: after every solve TLC evaluates, on the values of the real systems, Lmm!MaxMinFairI (maxmin kinds: every
consuming variable below its bound has a saturated constraint on which value * penalty is maximal), Lmm!BmfFairI (bmf: same with
the share max_weight * penalty * value, as BmfSolver::is_bmf defines it; the explicit error of the solver is accepted and counted)
and, where no FATPIPE constraint is consumed (unique allocation) and the implementation made the generator's staging choices,
equality with the exact rational allocation MaxMin(sys) printed by the generator (maxmin selective, full, fresh).
M: Lmm!MaxMinFairR holds for MaxMin(sys) in every state of the small-scope exploration of Lmm.tla.

Mutations tried (scratch worktree, quick tier with VERIF_LMM_SCALE=0.4):
  M3  maxmin_solve ignores the bound of a variable                                             caught (Exact on mmsel, mmfull, fresh; exit 1)
  M4  the FATPIPE max rule forgotten when the usage of a constraint is initialised (under-allocation, still feasible)
                                                                                               caught (MaxMinFair on mmsel, mmfull; exit 1)
With the seven proposed fixes applied the check reports no rejection at all.
"""
import lmm_check, lmm_common
LEVEL = "model_checking"
META = {"text": 'Same histories and runs as C15; TLC evaluates the max-min fairness characterisation (MaxMinFair), the BMF characterisation (BmfFair, explicit solver error accepted) and, where the allocation is unique, equality with the exact rational weighted progressive filling MaxMin(sys) of the specification; MaxMin(sys) itself is model-checked max-min fair at small scope.',
        "note": 'Trusted: TLC; the driver harness/lmm_driver.cpp (replays the operations through the public API of lmm::System, reads values back with get_value / get_penalty / get_concurrency_slack, scales doubles by 1e5 and rounds); tolerance = 1e5 * precision/work-amount per unit of magnitude + rounding. Conformance holds for the histories replayed (<= 3 constraints x 7 variables x 26 operations in the quick tier, <= 5 x 10 x 60 in the thorough tier; not the 12 x 20 systems of the statement), exhaustiveness only for Lmm.tla within the stated scope and for the 2-operation extensions of the base systems. In-situ dumps of simulations (hook H2) are not used. TLC -coverage cannot be used on these modules (it runs out of memory building its cost model): vacuity is guarded by measured operation counts. Rejections in the situations recorded in KNOWN_FINDINGS.jsonl (cause tags computed by TLC on the abstract system that follows the implementation) are reported as known findings; a mutation that only shows in those situations would be masked.',
        "technique": 'TLC model checking of spec/lmm/Lmm.tla (LmmGen, small scope) + TLC-generated histories replayed into the real lmm::System classes (harness/lmm_driver.cpp) + TLC evaluation of the predicates on the logged values (LmmTrace.tla)'}
DRIVERS = lmm_common.DRIVERS


def run(ctx):
    lmm_check.run(ctx, "C16")
