"""C17: Selective (lazy) solving equals full recomputation.  See DESIGN.md section 4 (C17), checks/lmm_check.py (pipeline) and checks/lmm_common.py.

What is decided: after every solve TLC compares (Lmm!SameI, on every consuming variable, within precision) the values of the
selective MaxMin system with those of the non-selective one (SelFull) and with those of a fresh system rebuilt by the driver from
the current activities and solved from scratch (SelFresh); C16's Exact adds equality with the exact allocation.  Families:
regression, random, exhaustive 2-operation extensions, a `wrap` family in which the driver's seam (-fno-access-control, no hook
in /repo needed) presets System::visited_counter_ next to UINT_MAX (operation ff), and the counter-example TLC finds in the mirror
of the modified-set bookkeeping (LmmMC_mirror.cfg, invariant ModifiedSetComplete), replayed on the real code.
M: Visited.tla model-checks the visit-stamp protocol with the counter modulo 3 (quick) / 4 (thorough), exhaustively: the rule of
the code violates StampSound at the wrap-around, the proposed rule does not.

Mutations tried (scratch worktree, quick tier with VERIF_LMM_SCALE=0.4):
  M1  update_variable_bound does not call update_modified_cnst_set                              caught (SelFresh / SelFull, cause=none; exit 1)
  M6  update_constraint_bound does not call update_modified_cnst_set (with M4, M5)              caught (SelFresh / SelFull, cause=none; exit 1)
With the seven proposed fixes applied the check reports no rejection at all (the mirror still predicts the defect of the pinned
bookkeeping; the fixed code passes the replayed counter-example).
"""
import lmm_check, lmm_common
LEVEL = "model_checking"
META = {"text": "TLC-generated histories (random, exhaustive 2-operation extensions, wrap-around family through a driver seam, TLC's counter-example of the bookkeeping mirror) are replayed on a selective MaxMin system, a non-selective one and a fresh system rebuilt after every solve; TLC compares the three allocations (and the exact one where unique). Visited.tla model-checks the visit-stamp protocol exhaustively with the counter modulo 3-4, including the wrap-around.",
        "note": 'Trusted: TLC; the driver harness/lmm_driver.cpp (replays the operations through the public API of lmm::System, reads values back with get_value / get_penalty / get_concurrency_slack, scales doubles by 1e5 and rounds); tolerance = 1e5 * precision/work-amount per unit of magnitude + rounding. Conformance holds for the histories replayed (<= 3 constraints x 7 variables x 26 operations in the quick tier, <= 5 x 10 x 60 in the thorough tier; not the 12 x 20 systems of the statement), exhaustiveness only for Lmm.tla within the stated scope and for the 2-operation extensions of the base systems. In-situ dumps of simulations (hook H2) are not used. TLC -coverage cannot be used on these modules (it runs out of memory building its cost model): vacuity is guarded by measured operation counts. Rejections in the situations recorded in KNOWN_FINDINGS.jsonl (cause tags computed by TLC on the abstract system that follows the implementation) are reported as known findings; a mutation that only shows in those situations would be masked.',
        "technique": 'TLC model checking of spec/lmm/Lmm.tla (LmmGen, small scope) + TLC-generated histories replayed into the real lmm::System classes (harness/lmm_driver.cpp) + TLC evaluation of the predicates on the logged values (LmmTrace.tla) + TLC model checking of Visited.tla'}
DRIVERS = lmm_common.DRIVERS


def run(ctx):
    lmm_check.run(ctx, "C17")
