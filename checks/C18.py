"""C18: Concurrency limits are enforced without starvation.  See DESIGN.md section 4 (C18), checks/lmm_check.py (pipeline) and checks/lmm_common.py.

What is decided: after every operation of every replayed history the driver logs the projected state of every system
(get_concurrency_slack of every constraint, sharing and staged penalty of every variable) and TLC checks, on the abstract system
that follows the implementation: TransOk (the change is one Lmm!Post allows: which staged variable takes a freed slot is left
open), ConcOk (slack = limit - number of enabled variables of weight >= 1, never negative), NoStarv (a staged variable is disabled
and uses a constraint without free slot).  M: ConcurrencyOk and NoStarvation are invariants of the abstract staging semantics
in every state of the small-scope exploration of Lmm.tla.

Mutations tried (scratch worktree, quick tier with VERIF_LMM_SCALE=0.4):
  M2  disable_var forgets elem.decrease_concurrency()                                          caught (ConcOk, NoStarv, TransOk; exit 1)
  M5  expand stages only when the slack is < -1 instead of < 0                                 caught (ConcOk, TransOk; exit 1)
With the seven proposed fixes applied the check reports no rejection at all.
"""
import lmm_check, lmm_common
LEVEL = "model_checking"
META = {"text": 'TLC-generated histories on constraints with concurrency limits 1..4 are replayed on real systems; after every operation the projected concurrency state is checked by TLC against the abstract staging semantics of Lmm.tla (allowed transition, counter = number of enabled counted elements <= limit, no staged variable while all its constraints have room); the same invariants are model-checked on the specification at small scope.',
        "note": 'Trusted: TLC; the driver harness/lmm_driver.cpp (replays the operations through the public API of lmm::System, reads values back with get_value / get_penalty / get_concurrency_slack, scales doubles by 1e5 and rounds); tolerance = 1e5 * precision/work-amount per unit of magnitude + rounding. Conformance holds for the histories replayed (<= 3 constraints x 7 variables x 26 operations in the quick tier, <= 5 x 10 x 60 in the thorough tier; not the 12 x 20 systems of the statement), exhaustiveness only for Lmm.tla within the stated scope and for the 2-operation extensions of the base systems. In-situ dumps of simulations (hook H2) are not used. TLC -coverage cannot be used on these modules (it runs out of memory building its cost model): vacuity is guarded by measured operation counts. Rejections in the situations recorded in KNOWN_FINDINGS.jsonl (cause tags computed by TLC on the abstract system that follows the implementation) are reported as known findings; a mutation that only shows in those situations would be masked.',
        "technique": 'TLC model checking of spec/lmm/Lmm.tla (LmmGen, small scope) + TLC-generated histories replayed into the real lmm::System classes (harness/lmm_driver.cpp) + TLC evaluation of the predicates on the logged values (LmmTrace.tla)'}
DRIVERS = lmm_common.DRIVERS


def run(ctx):
    lmm_check.run(ctx, "C18")
