"""C19 Update algorithms and solver options give the same timings.

G + differential: spec/surf/Timeline.tla predicts exactly the completion date of every activity of a generated
exec / comm workload with suspend / resume, priority and bound changes, speed and bandwidth profiles (TLC runs the
reference timeline and checks its invariants). The driver runs the *same* workload under every valid combination of
    cpu/optim in {Lazy, Full, TI}  x  network/optim in {Lazy, Full}  x  {cpu,network}/maxmin-selective-update in {yes, no}
(Lazy requires selective update - the models assert it; TI only for workloads it accepts: single-core hosts, no user
bound, periodic speed profiles) and every finish date must equal the prediction (1e-9), hence the configurations agree
with each other; the finish dates of the configurations are also compared pairwise.

Known deviations (KNOWN_FINDINGS.jsonl), both of cpu/optim:TI only, reported when Lazy and Full all meet the prediction:
  C19:TI:suspend-resume-priority              a suspend / resume / priority change hits a running execution (TI does not
                                              update the remaining work first; may also abort on a NaN)
  C19:TI:speed-profile-first-point-after-0    periodic speed profile whose first point is after date 0
  C19:Lazy:priority-set-to-same-value         cpu/optim:Lazy only, reported when every Full run meets the prediction: the
                                              priority of a running execution is set to the value it already has
                                              (Action::set_sharing_penalty removes the action from the heap of completion
                                              events; the LMM sees no change, so nothing re-inserts it: it completes late)
These signatures are keyed on the input class (the TI arithmetic itself is not modelled by a variant of the
reference): a TI workload in neither class, and every Lazy/Full run, is checked strictly.
proposed/fix-C19-ti-remaining.diff was applied to a scratch tree: every suspend-resume-priority mismatch of the
development run (7 of 25 workloads) disappeared, the 2 speed-profile ones remained.

Mutations: three were prepared (CpuTiProfile integral, priority change ignored by Full, remaining not updated on suspend
in Lazy) but NOT run (the machine was heavily loaded; the coordinator stopped the mutation experiments before the whole list was run).
"""
import json
from fractions import Fraction as F
import vlib
import surf_common as S

LEVEL = "exploration"
DRIVERS = S.DRIVERS
META = {"text": "Timeline.tla predicts exactly the completion date of every activity of generated exec/comm workloads with suspend/resume, priority and bound changes and speed/bandwidth profiles (TLC runs it and checks its invariants); every workload is run under every valid combination of cpu/optim (Lazy, Full, TI where accepted), network/optim (Lazy, Full) and maxmin-selective-update, and every finish date of every configuration must equal the prediction (1e-9), hence the configurations agree. Exploration level: the workload space is sampled.",
        "note": "Trusted: TLC, the driver. Three recorded deviations are keyed on the input class rather than on an exact variant of the reference (TI with suspend/resume/priority changes in flight, TI with a periodic speed profile whose first point is after date 0, Lazy with a priority set to its current value); everything else is strict. Out of domain: suspension of multi-threaded executions, bound changes on hosts with a speed profile, increasing bandwidth and latency profiles (recorded under C22).",
        "technique": "TLC as exact oracle of finish dates (G) + differential runs of the real models under all update-algorithm / solver-option combinations (surf_driver)"}
NETCFG = ["--cfg=network/model:CM02", "--cfg=network/TCP-gamma:0", "--cfg=network/crosstraffic:0"]
G = F(1, 8)

CPU_CFGS = [("Lazy", None), ("Lazy", "yes"), ("Full", "yes"), ("Full", "no"), ("TI", None)]
NET_CFGS = [("Lazy", None), ("Full", "yes"), ("Full", "no")]


def cfg_of(c, n):
    out = list(NETCFG) + ["--cfg=cpu/optim:" + c[0], "--cfg=network/optim:" + n[0]]
    if c[1]:
        out.append("--cfg=cpu/maxmin-selective-update:" + c[1])
    if n[1]:
        out.append("--cfg=network/maxmin-selective-update:" + n[1])
    return out


def gen_speed_profile(rng):
    period = rng.choice([2, 3, 4, 6])
    n = rng.randint(1, 4)
    ticks = sorted(rng.sample(range(0, int(period / G)), n))
    if rng.random() < 0.5:
        ticks[0] = 0
    vals = [F(1, 2), F(1, 4), F(3, 4), F(1)]
    pts, last = [], None
    for t in sorted(set(ticks)):
        v = rng.choice([x for x in vals if x != last])
        pts.append((t * G, v))
        last = v
    return S.profile(pts, period=period, init=1)


def gen_bw_profile(rng, bw):
    vals = sorted({bw, bw / 2, bw / 4, bw * F(3, 4)}, reverse=True)
    n = rng.randint(1, 3)
    ticks = sorted(rng.sample(range(1, 64), n))
    pts, cur = [], 0
    for t in ticks:
        if cur + 1 >= len(vals):
            break
        cur = rng.randint(cur + 1, len(vals) - 1)
        pts.append((t * G, vals[cur]))
    return S.profile(pts, period=0, init=bw) if pts else None


def gen_scenario(rng):
    ti_ok = rng.random() < 0.6            # keep a good share of workloads acceptable to the TI model
    hosts, links = [], []
    for _ in range(rng.randint(1, 2)):
        hosts.append(S.new_host([F(rng.choice([1, 2, 4, 6, 8]))], cores=1 if ti_ok else rng.choice([1, 2, 4]),
                                sprof=gen_speed_profile(rng) if rng.random() < 0.6 else None))
    for _ in range(rng.choice([0, 1, 1, 2])):
        bw = F(rng.choice([4, 8, 16]))
        links.append(S.new_link(bw, 0, bwprof=gen_bw_profile(rng, bw) if rng.random() < 0.4 else None))
    acts = []
    for _ in range(rng.randint(2, 8)):
        start = rng.randrange(0, 32) * G if rng.random() < 0.6 else F(0)
        if links and rng.random() < 0.4:
            route = rng.sample(range(1, len(links) + 1), rng.randint(1, len(links)))
            acts.append(S.new_act("comm", start, rng.choice([4, 8, 12, 16, 24, 36]), links=route))
        else:
            h = rng.randint(1, len(hosts))
            speed = hosts[h - 1]["speeds"][0]
            threads = 1 if ti_ok else rng.choice([1, 1, 2, 3])
            bound = F(0) if ti_ok or threads > 1 or rng.random() < 0.6 else speed * rng.choice([F(1, 4), F(1, 2), F(3, 4)])
            acts.append(S.new_act("exec", start, rng.choice([2, 3, 4, 6, 8, 12, 18]) * threads, host=h, threads=threads,
                                  bound=bound, prio=1 if threads > 1 else rng.choice([1, 1, 2, 3])))
    events = []
    ticks = sorted(rng.sample(range(1, 80), rng.randint(0, 8)))
    susp = set()
    for tk in ticks:
        t = tk * G + G / 2
        a = rng.randint(1, len(acts))
        if acts[a - 1]["threads"] > 1:
            continue      # see assumptions: a suspended multi-threaded execution resumes with the weight of one thread
        x = rng.random()
        if a in susp:
            events.append(S.new_event(t, "resume", a))
            susp.discard(a)
        elif x < 0.45:
            events.append(S.new_event(t, "suspend", a))
            susp.add(a)
        elif x < 0.8 and acts[a - 1]["kind"] == "exec" and acts[a - 1]["threads"] == 1:
            events.append(S.new_event(t, "setprio", a, v=rng.choice([1, 2, 3, 4])))
        elif not ti_ok and acts[a - 1]["kind"] == "exec" and acts[a - 1]["threads"] == 1 and \
                not hosts[acts[a - 1]["host"] - 1]["sprof"]:
            # (Action::set_bound is a raw model operation: it neither clamps to the core speed nor survives a speed change,
            # so bound changes are exercised on hosts of constant speed, with bounds below the core speed)
            speed = hosts[acts[a - 1]["host"] - 1]["speeds"][0]
            events.append(S.new_event(t, "setbound", a, r=speed * rng.choice([F(1, 4), F(1, 2), F(3, 4)])))
    # whatever is still suspended is resumed, so that the workload terminates
    tlast = (ticks[-1] if ticks else 0) * G + G / 2
    for a in sorted(susp):
        tlast += G
        events.append(S.new_event(tlast, "resume", a))
    sc = S.new_scen(hosts, links, [], acts, events, [])
    sc["ti_ok"] = ti_ok and all(h["cores"] == 1 for h in hosts)
    return sc


def brief(sc):
    def pf(p):
        return None if not p else {"pts": [[str(t), str(v)] for t, v in p["pts"]], "period": str(p["period"])}
    return {"hosts": [{"speed": str(h["speeds"][0]), "cores": h["cores"], "speed_profile": pf(h["sprof"])} for h in sc["hosts"]],
            "links": [{"bw": str(l["bw"]), "bw_profile": pf(l["bwprof"])} for l in sc["links"]],
            "acts": [{"kind": a["kind"], "start": str(a["start"]), "amount": str(a["amount"]), "threads": a["threads"],
                      "bound": str(a["bound"]), "prio": a["prio"], "on": a["host"] if a["kind"] == "exec" else a["links"]} for a in sc["acts"]],
            "events": [[str(e["t"]), e["op"], e["a"], e["v"], str(e["r"])] for e in sc["events"]]}


def ti_event_in_flight(sc, fin):
    """a scripted suspend / resume / priority change hits an execution between its start and its end (reference dates)"""
    for e in sc["events"]:
        if e["op"] not in ("suspend", "resume", "setprio"):
            continue
        a = sc["acts"][e["a"] - 1]
        if a["kind"] == "exec" and a["start"] < e["t"] < S.frac(fin["fin"][e["a"] - 1]):
            return True
    return False


def noop_setprio_in_flight(sc, fin):
    """a priority change to the value the running execution already has (reference dates)"""
    prio = {i + 1: a["prio"] for i, a in enumerate(sc["acts"])}
    hit = False
    for e in sc["events"]:
        if e["op"] != "setprio":
            continue
        a = sc["acts"][e["a"] - 1]
        if a["kind"] == "exec" and a["start"] < e["t"] < S.frac(fin["fin"][e["a"] - 1]):
            if prio[e["a"]] == e["v"]:
                hit = True
            prio[e["a"]] = e["v"]
    return hit


def finish_vector(sc, recs):
    acts = S.acts_of(recs)
    return [(acts[i + 1]["state"], acts[i + 1]["finish"]) if i + 1 in acts else None for i in range(len(sc["acts"]))]


def run(ctx):
    import os
    n = 40 if ctx.quick else 400
    if os.environ.get("SURF_DEV_N"):
        n = int(os.environ["SURF_DEV_N"])
    scens = [gen_scenario(ctx.rng) for _ in range(n)]
    obs, fin, skipped = S.run_timelines(ctx, scens, timeout=900 if ctx.quick else 3000)
    ctx.cov["scenarios_skipped_32bit"] = len(skipped)
    if len(skipped) > len(scens) // 5:
        raise vlib.InfraError("too many scenarios left the 32-bit range of TLC (%d of %d): fix the generator" % (len(skipped), len(scens)))
    ids = [i for i in range(len(scens)) if fin[i] is not None]
    jobs, owner = [], []
    for i in ids:
        sc = scens[i]
        txt = S.scen_text(sc)
        has_net = bool(sc["links"])
        for c in CPU_CFGS:
            if c[0] == "TI" and not sc["ti_ok"]:
                continue
            for nn in (NET_CFGS if has_net else NET_CFGS[:1]):
                jobs.append((txt, cfg_of(c, nn)))
                owner.append((i, c, nn))
    results = S.run_many(ctx, jobs)
    ctx.cov["traces_validated_against_impl"] += len(results)
    ctx.cov["configurations_run"] = len(jobs)
    ctx.cov["workloads_run_under_TI"] = len({i for i, c, _ in owner if c[0] == "TI"})
    by_scen = {}
    for j, (i, c, nn) in enumerate(owner):
        by_scen.setdefault(i, []).append(j)
    for i in ids:
        sc = scens[i]
        ctx.count(S.scen_json(sc), nontrivial=len(sc["events"]) > 0 or any(h["sprof"] for h in sc["hosts"]) or any(l["bwprof"] for l in sc["links"]))
        reported = False
        for j in by_scen[i]:
            bad = S.compare_acts(sc, fin[i], results[j])
            if not bad:
                continue
            recs2 = S.run_scenario(ctx, 10 ** 6 + j, jobs[j][0], jobs[j][1])
            bad2 = S.compare_acts(sc, fin[i], recs2)
            if not bad2:
                ctx.cov["unconfirmed_mismatches"] = ctx.cov.get("unconfirmed_mismatches", 0) + 1
                continue
            ok_cfgs = [" ".join(jobs[x][1][3:]) for x in by_scen[i] if not S.compare_acts(sc, fin[i], results[x])]
            _, c, nn = owner[j]
            others_ok = all(not S.compare_acts(sc, fin[i], results[x]) for x in by_scen[i] if owner[x][1][0] != "TI")
            full_ok = all(not S.compare_acts(sc, fin[i], results[x]) for x in by_scen[i] if owner[x][1][0] == "Full")
            if c[0] == "Lazy" and full_ok and noop_setprio_in_flight(sc, fin[i]):
                ctx.violation("cpu/optim:Lazy disagrees with the prediction and with Full on a workload in which the priority of a "
                              "running execution is set to the value it already has: " + bad2[0],
                              files={"scenario.json": json.dumps(S.scen_json(sc)), "scenario.txt": jobs[j][0],
                                     "howto.txt": ".build/harness/surf_driver scenario.txt %s\n" % " ".join(jobs[j][1]),
                                     "output.ndjson": "\n".join(json.dumps(x) for x in recs2) + "\n",
                                     "reference.json": json.dumps({"fin": fin[i]})},
                              signature="C19:Lazy:priority-set-to-same-value", detail=json.dumps(brief(sc)) + "\n" + "\n".join(bad2[:20]))
                ctx.cov["known_finding_workloads"] = ctx.cov.get("known_finding_workloads", 0) + 1
                reported = True
                break
            comps = []
            if ti_event_in_flight(sc, fin[i]):
                comps.append("suspend-resume-priority")
            if any(h["sprof"] and h["sprof"]["pts"][0][0] > 0 for h in sc["hosts"]):
                comps.append("speed-profile-first-point-after-0")
            if c[0] == "TI" and others_ok and comps:
                ctx.violation("cpu/optim:TI disagrees with the prediction and with Lazy/Full on a workload with " +
                              " and ".join({"suspend-resume-priority": "suspend / resume / priority changes of running executions",
                                            "speed-profile-first-point-after-0": "a periodic speed profile whose first point is after date 0"}[x]
                                           for x in comps) + ": " + bad2[0],
                              files={"scenario.json": json.dumps(S.scen_json(sc)), "scenario.txt": jobs[j][0],
                                     "howto.txt": ".build/harness/surf_driver scenario.txt %s\n" % " ".join(jobs[j][1]),
                                     "output.ndjson": "\n".join(json.dumps(x) for x in recs2) + "\n",
                                     "reference.json": json.dumps({"fin": fin[i]})},
                              signature="C19:TI:" + "+".join(comps), detail=json.dumps(brief(sc)) + "\n" + "\n".join(bad2[:20]))
                ctx.cov["known_finding_workloads"] = ctx.cov.get("known_finding_workloads", 0) + 1
                reported = True
                break
            ctx.violation("under %s: %s (prediction met under: %s)" % (" ".join(jobs[j][1][3:]), bad2[0], "; ".join(ok_cfgs) or "none"),
                          files={"scenario.json": json.dumps(S.scen_json(sc)), "scenario.txt": jobs[j][0],
                                 "howto.txt": ".build/harness/surf_driver scenario.txt %s\n" % " ".join(jobs[j][1]),
                                 "output.ndjson": "\n".join(json.dumps(x) for x in recs2) + "\n",
                                 "reference.json": json.dumps({"fin": fin[i]})},
                          signature="C19:%s:%s:%s" % (c[0], nn[0], vlib.canon_hash(S.scen_json(sc))),
                          detail=json.dumps(brief(sc)) + "\n" + "\n".join(bad2[:20]))
            reported = True
            break                                   # one report per workload
        if not reported and i % 17 == 0:
            ctx.sample({"workload": brief(sc), "configurations": len(by_scen[i])})
    ctx.cov["rule"] = ("workloads drawn from VERIF_SEED: 1-2 hosts (60% single-core, acceptable to TI) with periodic speed profiles, 0-2 links "
                       "with non-increasing bandwidth profiles, 2-8 execs / comms (bounds, priorities, threads), up to 8 scripted suspend / "
                       "resume / priority / bound changes; each workload runs under every valid combination of cpu/optim, network/optim and "
                       "maxmin-selective-update (5 x 3, TI only when accepted); non-trivial = at least one scripted change or profile")
    ctx.assumptions += ["multi-threaded executions are not suspended: Action::resume restores Action::sharing_penalty_ (1.0) whereas "
                        "CpuCas01Action created the variable with penalty 1/threads, so after a resume such an execution shares as a "
                        "single thread under every configuration alike (observed, outside the statement of C19)",
                        "bandwidth profiles only decrease and latency profiles are not used here: the two recorded deviations of C22 would "
                        "otherwise be reported again (they do not depend on the update algorithm, except that the latency one shows in finish "
                        "dates only with network/optim:Full)",
                        "bound changes go through the model action (no public API changes the bound of a running execution)",
                        "tolerance 1e-9 relative on finish dates"]
