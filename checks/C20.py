"""C20 Isolated activities follow the documented formulas.

G: spec/surf/Models.tla states the formulas over exact rationals; spec/surf/C20Gen.tla enumerates the core grid
(network model x cross-traffic x TCP gamma x route length x sharing policy x latency x size x magnitude; execs with
cores/threads/bound/priority; sleeps; disk reads/writes; pure-computation parallel tasks) and evaluates the seeded
random layer, printing every case with its exact expected duration. harness/surf_driver.cpp builds the platform with
the C++ API, runs the single activity on the real models and logs finish - start. Python renders numbers and compares.

Known deviation (KNOWN_FINDINGS.jsonl, signature C20:gamma-limited:bandwidth-factor): network_cm02.cpp applies the
bandwidth factor to min(bandwidth, gamma/(2 lat)) instead of to the bandwidth only; LV08/SMPI cases in which the TCP
window term takes part in the minimum differ from the property's formula (they must then match the other reading,
Models!CommRateFactorOnWindow, exactly; anything else is a plain violation).

Mutations tried (tools/mutbuild.sh):
  * network_cm02.cpp: cross-traffic weight .05 -> .5: CAUGHT by the full quick tier (exit 1; every cross-traffic case of
    every model, e.g. raw: measured 640.015625 s, documented 448.015625 s)
  prepared but NOT run (the machine was heavily loaded; the coordinator stopped the mutation experiments before the whole list was run):
  * network_cm02.cpp: latency factor not applied; cpu_cas01.cpp: bound of a multi-threaded execution = speed of one
    core; disk_s19.cpp: writes expanded on the read constraint
"""
import json, os
from fractions import Fraction
import vlib
import surf_common as S
from surf_common import dy, tok, dec, frac

LEVEL = "exploration"
DRIVERS = S.DRIVERS
META = {"text": "Every formula of the statement is an operator of spec/surf/Models.tla over exact rationals (parameters from Models.rst / Configuring_SimGrid.rst); TLC evaluates it on an exhaustive core grid (about 4 700 cases) and a seeded random layer and the real models must reproduce each expected duration to 1e-9 relative; exploration level because the domain (real-valued sizes, speeds, latencies) is sampled on a dyadic grid, not exhausted.",
        "note": "Trusted: TLC's evaluation of Models.tla, the driver's platform construction through the public C++ API, binary64 rendering of the dyadic parameters (exact). Sizes equal to an SMPI factor boundary and WIFI links are outside the domain. The LV08/SMPI window-limited deviation is a recorded known finding, still compared with the exact alternative reading.",
        "technique": "TLC as exact oracle over a generated case grid (G) + replay on the real models (surf_driver) + exact rational/double comparison"}
MANT = [1, 3, 5, 7]
POLICIES = ["SHARED", "FATPIPE", "SPLITDUPLEX"]
MODELS = ["raw", "CM02", "LV08", "SMPI"]


# ------------------------------------------------------------------------------------------------ random layer

def gen_comm(rng):
    model = rng.choice(MODELS)
    smpi = model == "SMPI"
    n = rng.choice([1, 1, 2, 2, 3, 4, 5, 6, 7, 8])
    nolat = rng.random() < 0.12
    gamma_on = (not nolat) and rng.random() < 0.7
    el0 = rng.randint(6, 14 if smpi else 19)
    links = []
    slow = rng.randrange(n)
    pol_mode = rng.choice(["same", "mixed"])
    pol0 = rng.choice(POLICIES)
    for i in range(n):
        ml = 0 if nolat or rng.random() < 0.15 else rng.choice(MANT)
        el = el0 if smpi else max(0, el0 - rng.randint(0, 6))
        links.append({"mb": rng.choice(MANT), "eb": 0 if i == slow else rng.choice([0, 0, 1, 2, 3, 5, 8, 12]),
                      "ml": ml, "el": el if ml else 0, "pol": pol0 if pol_mode == "same" else rng.choice(POLICIES)})
    has_lat = any(l["ml"] for l in links)
    if smpi:
        x = rng.randint(0, 20)                      # actual size m * 2^x spans the nine factor classes
        j = rng.randint(-2, 2) if (gamma_on and has_lat) else rng.randint(-8, 8)
        k = x - j
        if k < 0:
            k, j = 0, min(x, 8)
    else:
        k = rng.randint(0, 40)
        j = rng.randint(max(-9, -k), 9)
    g = -1
    if gamma_on and has_lat:
        elmax = max(l["el"] for l in links if l["ml"])
        # gamma/(2 lat) = 2^E / L (L = numerator of the latency sum over 2^elmax); E >= 0 is the domain of C20Gen!Valid;
        # 2^E / L is drawn on both sides of the bottleneck bandwidth (1..7 in unshifted units)
        L = int(sum(dy(l["ml"], -l["el"]) for l in links) * 2 ** elmax)
        E = rng.randint(0, L.bit_length() + 6)
        g = E + k + 1 - elmax
        if rng.random() < 0.15:
            g = 22
        if not (0 <= g <= 62 and -30 <= g - k <= 30 and 0 <= g - k + elmax - 1 <= 30):
            g = -1
    ct = rng.choice([0, 1])
    if rng.random() < 0.05:
        ct = -1
    return {"kind": "comm", "model": model, "ct": ct, "g": g, "k": k, "size": [rng.choice(MANT), j], "links": links}


def gen_exec(rng):
    k = rng.randint(0, 40)
    threads = rng.choice([1, 1, 1, 2, 3, 4, 6, 12])
    return {"kind": "exec", "k": k, "flops": [rng.choice(MANT), rng.randint(max(-12, -k), 12)],
            "speed": [rng.choice(MANT), rng.randint(0, 4)], "cores": rng.choice([1, 1, 2, 4, 8]), "threads": threads,
            "prio": rng.randint(1, 4),
            "bound": [0, 0] if threads > 1 or rng.random() < 0.4 else [rng.choice(MANT), rng.randint(-6, 6)]}


def gen_io(rng):
    k = rng.randint(0, 40)
    return {"kind": "io", "op": rng.choice(["read", "write"]), "k": k,
            "size": [rng.choice(MANT), rng.randint(max(-12, -k), 12)],
            "rbw": [rng.choice(MANT), rng.randint(0, 6)], "wbw": [rng.choice(MANT), rng.randint(0, 6)]}


def gen_ptask(rng):
    k = rng.randint(0, 40)
    n = rng.randint(1, 4)
    fl = [[rng.choice([0] + MANT), rng.randint(max(-10, -k), 10)] for _ in range(n)]
    if all(f[0] == 0 for f in fl):
        fl[0][0] = 3
    return {"kind": "ptask", "k": k, "flops": fl, "speeds": [[rng.choice(MANT), rng.randint(0, 4)] for _ in range(n)]}


def gen_case(rng):
    x = rng.random()
    if x < 0.72:
        return gen_comm(rng)
    if x < 0.86:
        return gen_exec(rng)
    if x < 0.90:
        return {"kind": "sleep", "d": [rng.choice(MANT), rng.randint(-20, 12)]}
    if x < 0.96:
        return gen_io(rng)
    return gen_ptask(rng)


# ------------------------------------------------------------------------------------------------ scenario of a case

def scenario(c):
    """(scenario text, cfg list) of a case record (rendering only: every number is m * 2^e of the record)"""
    kind = c["kind"]
    cfg = []
    if kind == "comm":
        k = c["k"]
        out = ["host A 1 1 0x1p0", "host B 1 1 0x1p0"]
        for i, l in enumerate(c["links"]):
            out.append("link l%d %s %s %s" % (i, tok(dy(l["mb"], l["eb"] + k)), tok(dy(l["ml"], -l["el"])), l["pol"]))
        out.append("route 0 1 %d %s" % (len(c["links"]), " ".join(str(i) for i in range(len(c["links"])))))
        out += ["actor 0", "comm 1 0 1 %s" % tok(dy(c["size"][0], c["size"][1] + k))]
        cfg.append("--cfg=network/model:" + c["model"])
        if c["ct"] >= 0:
            cfg.append("--cfg=network/crosstraffic:%d" % c["ct"])
        if c["g"] == -1:
            cfg.append("--cfg=network/TCP-gamma:0")
        elif c["g"] >= 0:
            cfg.append("--cfg=network/TCP-gamma:" + dec(dy(1, c["g"])))
    elif kind == "exec":
        k = c["k"]
        out = ["host A %d 1 %s" % (c["cores"], tok(dy(c["speed"][0], c["speed"][1] + k))), "actor 0",
               "exec 1 %s %s %d %d" % (tok(dy(c["flops"][0], c["flops"][1] + k)),
                                       tok(dy(c["bound"][0], c["bound"][1] + k)) if c["bound"][0] else "0",
                                       c["prio"], c["threads"])]
    elif kind == "sleep":
        out = ["host A 1 1 0x1p0", "actor 0", "sample s0", "sleep %s" % tok(dy(c["d"][0], c["d"][1])), "sample s1"]
    elif kind == "io":
        k = c["k"]
        out = ["host A 1 1 0x1p0", "disk 0 d0 %s %s" % (tok(dy(c["rbw"][0], c["rbw"][1] + k)), tok(dy(c["wbw"][0], c["wbw"][1] + k))),
               "actor 0", "io 1 0 %s %s" % (c["op"], tok(dy(c["size"][0], c["size"][1] + k)))]
    elif kind == "ptask":
        k = c["k"]
        n = len(c["flops"])
        out = ["host H%d 1 1 %s" % (i, tok(dy(s[0], s[1] + k))) for i, s in enumerate(c["speeds"])]
        out += ["link l0 0x1p20 0 SHARED"]
        for i in range(n):
            for j in range(i + 1, n):
                out.append("route %d %d 1 0" % (i, j))
        out += ["actor 0", "ptask 1 %d %s %s" % (n, " ".join(str(i) for i in range(n)),
                                                 " ".join(tok(dy(f[0], f[1] + k)) if f[0] else "0" for f in c["flops"]))]
        cfg.append("--cfg=host/model:ptask_L07")
    else:
        raise vlib.InfraError("unknown case kind %r" % kind)
    return "\n".join(out) + "\n", cfg


def measured_duration(c, recs):
    end = S.end_of(recs)
    if end.get("how") != "normal":
        return None, "run ended with %s" % json.dumps(end)
    if c["kind"] == "sleep":
        s = [r for r in recs if r.get("e") == "sample"]
        if len(s) != 2:
            return None, "missing samples"
        return Fraction(s[1]["t"]) - Fraction(s[0]["t"]), None
    a = S.acts_of(recs).get(1)
    if a is None or a["state"] != "done":
        return None, "activity did not complete: %s" % json.dumps(a)
    return Fraction(a["finish"]) - Fraction(a["start"]), None


def nontrivial(ev):
    c = ev["c"]
    if c["kind"] == "comm":
        return len(c["links"]) > 1 or c["model"] in ("LV08", "SMPI") or c["g"] >= 0 or c["ct"] != 0
    if c["kind"] == "exec":
        return c["threads"] > 1 or c["bound"][0] != 0 or c["cores"] > 1
    return True


def brief(ev, meas):
    c = ev["c"]
    exp = sum(frac(t) for t in ev["terms"])
    return {"case": c, "expected": "%s = %.12g" % (exp, float(exp)), "measured": None if meas is None else float(meas)}


def run(ctx):
    quick = ctx.quick
    n_rand = 1000 if quick else 30000
    dev = int(os.environ.get("SURF_DEV_N", "0"))        # development / mutation experiments only: thinned case set
    if dev:
        n_rand = dev
    rand = [gen_case(ctx.rng) for _ in range(n_rand)]
    cases_file = S.write_json(ctx, "c20_cases.json", rand)
    r, lines = S.tlc_lines(ctx, "C20Gen", {"CASES": cases_file}, tags=("CASE", "DONE"), timeout=900 if quick else 3000)
    evs = []
    for v in lines["CASE"]:
        ev = json.loads(v[3])
        ev["_src"] = v[1]
        evs.append(ev)
    done = lines["DONE"]
    if not done or done[0][1] + done[0][2] != len(evs) or done[0][2] != n_rand:
        raise vlib.InfraError("C20Gen printed %d cases, announced %s, %d random cases were passed" % (len(evs), done, n_rand))
    ctx.cov["core_cases"] = done[0][1]
    ctx.cov["random_cases"] = done[0][2]
    ctx.cov["tlc_wall_s"] = round(r.wall, 1)

    if dev:
        evs = [ev for k, ev in enumerate(evs) if ev["_src"] == "rand" or k % 6 == 0]
    jobs = [scenario(ev["c"]) for ev in evs]
    results = S.run_many(ctx, jobs)
    ctx.cov["traces_validated_against_impl"] += len(results)

    kinds = {}
    worst = 0.0
    n_known = 0
    n_window = 0
    for i, (ev, recs) in enumerate(zip(evs, results)):
        c = ev["c"]
        ctx.count(c, nontrivial=nontrivial(ev))
        key = c["kind"] + (":" + c["model"] if c["kind"] == "comm" else "")
        kinds[key] = kinds.get(key, 0) + 1
        exp = sum(frac(t) for t in ev["terms"])
        meas, why = measured_duration(c, recs)
        ok = meas is not None and S.close(meas, exp)
        if ok:
            worst = max(worst, S.relerr(meas, exp))
            if i % 997 == 0:
                ctx.sample(brief(ev, meas))
            continue
        # mismatch: confirm by re-running the same case
        recs2 = S.run_scenario(ctx, 10 ** 6 + i, jobs[i][0], jobs[i][1])
        meas2, why2 = measured_duration(c, recs2)
        if meas2 is not None and S.close(meas2, exp):
            ctx.cov["unconfirmed_mismatches"] = ctx.cov.get("unconfirmed_mismatches", 0) + 1
            continue
        files = {"case.json": json.dumps(ev, indent=1), "scenario.txt": jobs[i][0],
                 "howto.txt": ".build/harness/surf_driver scenario.txt %s\n" % " ".join(jobs[i][1]),
                 "output.ndjson": "\n".join(json.dumps(x) for x in recs2) + "\n"}
        if c["kind"] == "comm" and ev.get("window"):
            n_window += 1
            alt = sum(frac(t) for t in ev["alt"])
            if meas2 is not None and S.close(meas2, alt):
                n_known += 1
                ctx.violation("window-limited %s communication takes %.12g s = latency term + size/(bandwidth_factor*min(bw, gamma/(2 lat))); "
                              "the documented formula gives %.12g s" % (c["model"], float(meas2), float(exp)),
                              files=files, signature="C20:gamma-limited:bandwidth-factor", detail=json.dumps(brief(ev, meas2)))
                continue
        ctx.violation("%s: measured duration %s, documented formula gives %s (%s)" %
                      (key, None if meas2 is None else "%.17g" % float(meas2), "%.17g" % float(exp), why2 or "mismatch"),
                      files=files, signature="C20:formula:%s:%s" % (key, vlib.canon_hash(c)), detail=json.dumps(brief(ev, meas2)))
    ctx.cov["cases_by_kind"] = kinds
    ctx.cov["worst_relative_error_accepted"] = worst
    ctx.cov["window_term_cases_deviating"] = n_window
    ctx.cov["known_finding_cases"] = n_known
    ctx.cov["exhaustive"] = False
    ctx.cov["rule"] = ("cases = core grid enumerated by TLC from C20Gen!CoreGrid (always the same) + %d random cases drawn from "
                       "VERIF_SEED inside the domain C20Gen!Valid; each case is one activity alone on a platform built for it; "
                       "non-trivial = a communication with several links, correction factors, TCP window or cross-traffic, an "
                       "execution with several cores/threads or a bound, any sleep / I/O / parallel task; distinct by hash of the "
                       "case record" % n_rand)
    ctx.assumptions += ["expected durations are computed by TLC on unshifted numbers; homogeneity of the formulas in (amounts, rates, "
                        "gamma) is the lemma C20Gen!Homogeneous (checked by TLC on a sample)",
                        "comparison tolerance: relative 1e-9 on finish - start (binary64 arithmetic of the engine)",
                        "SMPI message sizes equal to a factor boundary are excluded (documentation and code disagree, C20 is silent)"]
