"""C21 Work is conserved and capacity is respected over time.

G+T: spec/surf/Timeline.tla is the reference timeline of a generated concurrent workload (execs with bounds, priorities
and several threads on multi-core hosts, comms sharing links over multi-link routes, I/Os sharing disks). The capacity of
a host is the *current* one, cores * peak speed of the current pstate * availability scale of the current date
(Timeline!HostCap): a third of the scenarios run on hosts with a speed profile (Host::set_speed_profile with a profile
built by ProfileBuilder::from_string, one-shot or periodic, in half of the cases a scale < 1 from date 0 on) and / or
scripted Host::set_pstate calls, with more concurrent single-core execs than cores most of the time; every change date
is a step of the timeline at which the running execs are shared again. TLC runs every scenario and checks on the
specification itself (TimelineRun): Conservation (received + remaining = amount, remaining >= 0, done iff remaining =
0), Feasible (rates within bounds and current capacities), EqualExecs (k equal single-thread execs on an n-core host of
current speed S progress at S*min(1, n/k)), Mono (remaining never increases) and LoadWithin (the loads of an elapsed
interval within the capacities in force during that interval), and prints the exact state after every step. The driver
logs, at every Engine::on_time_advance, the remaining work of every activity in progress (model action remains, i.e.
Activity::get_remaining), Host::get_load, Link::get_load, and the current peak speed, availability and capacity of every
host (also before the run and after each set_pstate, so that the capacity in force during every interval is known).
Python checks on the observed run: remaining never increases, is positive before and exactly zero at the completion
date, equals the reference remaining at every date (1e-9); loads equal the reference loads and never exceed the capacity
of the elapsed interval (the one the implementation reported and the one of the reference); availability and capacity
read at every date equal the reference ones; finish dates equal the reference.

Host::get_load read when the clock has just moved (and by any actor at that date) is the load of the interval that just
ended: SimGrid recomputes the shares at the next solve only. At a date where the scale drops it is therefore larger than
cores * get_speed() * get_available_speed() read at the same moment; the check holds it against the capacity of the
interval it belongs to.

Disk I/Os: the disk model rounds the progress of every step to whole bytes; the reference flags (Timeline!whole) the
first step that does not move whole bytes; up to there the comparison is exact, after it the I/Os of that scenario are
compared within the bound derived from the rounding (io_slack). (Before, the generator was only believed to keep every
step integral: seed 2 of the extended generator drew a two-disk scenario that does not, 3e-7 s off at 132 s.)

Mutations tried (quick tier):
  * CpuImpl.cpp: capacity of a multi-core host = (cores + 1) * speed: CAUGHT (exit 1)
  * Model.cpp (next_occurring_event_lazy): remaining work not brought up to date when the share of an action changes:
    MISSED by the first version of this check, which read the remaining work at every clock advance - reading it
    (Action::get_remains) itself updates a lazy action, which hides the defect. The check now reads it at every third
    advance only in half of the runs; that version could not be re-run against the mutation (the machine was heavily loaded; the coordinator stopped the mutation experiments before the whole list was run).
  * cpu_cas01.cpp (CpuCas01::on_speed_change): constraint bound recomputed as cores * get_speed(1.0), i.e. without the
    availability scale of the speed profile (/tmp/seed/C21/patch.diff): MISSED before hosts with speed profiles were
    generated; CAUGHT now (exit 1, 20 scenarios of seed 0: execs finish too early, load above the capacity)
  * cpu_cas01.cpp (CpuCas01::on_speed_change): bound of the running execs recomputed as threads * peak speed (without the
    availability scale): CAUGHT (exit 1)
  * cpu_cas01.cpp (CpuCas01::execution_start): bound of a new exec = peak speed (without the availability scale): CAUGHT
    (exit 1)
"""
import json
from fractions import Fraction as F
import vlib
import surf_common as S

LEVEL = "model_checking"
DRIVERS = S.DRIVERS
META = {"text": "Timeline.tla is the reference timeline of generated concurrent workloads, a third of them on hosts whose capacity cores x peak speed(pstate) x availability(t) changes over time (speed profiles, one-shot or periodic, with a scale < 1 from date 0 or changing while execs run; scripted set_pstate; more single-core execs than cores); TLC checks on it, in every state of every scenario, work conservation, feasibility of the rates against the current capacities, the k-equal-execs-on-n-cores rule at the current speed, monotonicity of the remaining work and loads within the capacity of every elapsed interval, and prints the exact state after every step; the real models, observed at every Engine::on_time_advance (remaining work, host and link loads, peak speed, availability, capacity), must never show an increasing remaining work, a positive one before completion or a non-zero one at completion, a load above the capacity of the interval it belongs to, and must match the reference remaining work, loads, availabilities, capacities and finish dates (1e-9).",
        "note": "Trusted: TLC, the driver (model action remains = Activity::get_remaining, Host::get_load, Link::get_load), the documented weighted max-min sharing rule used by the reference (the solver itself is decided by C15-C18). Reading the remaining work updates a lazily updated action: half of the runs read it at every third clock advance only. Host::get_load read at a date is the load of the interval that just ended (shares are recomputed by the next solve): it is held against the capacity of that interval. Disk workloads use parameters for which the whole-byte rounding of disk_s19.cpp is mostly exact; the reference flags the first step that is not, from which on the I/Os of that scenario are compared within a bound derived from the rounding; disk loads are not observable. Availability scales are dyadic (1/8..1), never 0; state profiles (host failures) belong to C22.",
        "technique": "TLC runs the reference timeline with invariants (M) and prints exact states (G) + observation of the real models at every time advance (T, surf_driver) + exact rational/double comparison"}
NETCFG = ["--cfg=network/model:CM02", "--cfg=network/TCP-gamma:0", "--cfg=network/crosstraffic:0"]
G = F(1, 8)
CAP_TOL = F(1, 10 ** 9)


SCALES = [F(1, 2), F(1, 2), F(3, 4), F(1, 4), F(1), F(1, 8)]      # availability scales (dyadic: exact doubles)


def gen_speed_profile(rng, horizon=12):
    """Availability (speed) profile of a host: 1-4 points on the 1/8 s grid; in half of the cases the first point is at
    date 0 with a scale < 1 (the host is slowed down from the start); one-shot or periodic (period 1-4 s)."""
    periodic = rng.random() < 0.5
    span = rng.choice([1, 2, 3, 4]) if periodic else horizon
    slots = int(span / G)
    npts = rng.randint(1, 4) if periodic or rng.random() < 0.7 else 1
    ticks = set()
    if rng.random() < 0.5:
        ticks.add(0)
    while len(ticks) < npts:
        ticks.add(rng.randrange(0 if rng.random() < 0.1 else 1, min(slots, 4 * 8 if not periodic and rng.random() < 0.7 else slots)))
    pts, last = [], F(1)
    for t in sorted(ticks):
        v = rng.choice([x for x in SCALES if x != last and (t > 0 or x < 1)])
        pts.append((t * G, v))
        last = v
    return S.profile(pts, period=span if periodic else 0, init=1)


def gen_avail(rng, equal):
    """Workloads on hosts whose capacity cores * peak(pstate) * scale(t) changes over time: speed profiles and / or
    scripted pstate changes, with more concurrent single-core execs than cores most of the time."""
    hosts, acts, events = [], [], []
    nh = 1 if equal else rng.randint(1, 2)
    for _ in range(nh):
        base = rng.choice([4, 8, 12, 16])
        nps = rng.choice([1, 1, 2, 3])
        speeds = [F(base)] + [F(base) / d for d in rng.sample([2, 4, F(4, 3)], nps - 1)]
        x = rng.random()
        sprof = gen_speed_profile(rng) if (x < 0.8 or nps == 1) else None
        hosts.append(S.new_host(speeds, cores=rng.choice([1, 2, 2, 3, 4]), sprof=sprof))
    for h in range(1, nh + 1):
        nps = len(hosts[h - 1]["speeds"])
        if nps > 1:
            for _ in range(rng.randint(1, 3)):
                events.append(S.new_event(rng.randrange(0 if rng.random() < 0.2 else 1, 6 * 16) * G / 2, "pstate", h, v=rng.randint(1, nps)))
    if equal:
        # the special case of the statement on a host of changing speed: k equal single-core execs, k > n most of the time
        n = hosts[0]["cores"]
        k = rng.randint(n + 1, n + 4) if rng.random() < 0.8 else rng.randint(1, n)
        amount = rng.choice([8, 12, 24, 48])
        start = 0 if rng.random() < 0.5 else G * rng.randint(1, 8)
        for _ in range(k):
            acts.append(S.new_act("exec", start if rng.random() < 0.8 else G * rng.randint(0, 12), amount, host=1))
        return S.new_scen(hosts, [], [], acts, events, [])
    for h in range(1, nh + 1):
        cores = hosts[h - 1]["cores"]
        speed = hosts[h - 1]["speeds"][0]
        for _ in range(rng.randint(cores, cores + 3) if nh == 1 else rng.randint(1, min(cores + 2, 4))):
            start = rng.randrange(0, 24) * G if rng.random() < 0.5 else F(0)
            plain = rng.random() < 0.7          # single core, no bound, priority 1
            threads = 1 if plain else rng.choice([1, 1, 2, 3])
            bound = F(0) if plain or threads > 1 or rng.random() < 0.5 else speed * rng.choice([F(1, 4), F(1, 2), F(3, 4)])
            acts.append(S.new_act("exec", start, rng.choice([4, 6, 8, 12, 18, 24, 36]) * threads, host=h, threads=threads,
                                  bound=bound, prio=1 if plain or threads > 1 else rng.choice([1, 2, 3])))
    return S.new_scen(hosts, [], [], acts, events, [])


def varying(sc):
    """the capacity of a host changes during the scenario"""
    return bool(sc["events"]) or any(h["sprof"] for h in sc["hosts"])


def steps_bound(sc):
    """crude upper bound of the number of profile change dates met while the workload runs (shapes the generator only:
    a slow host with a short period makes a timeline of hundreds of steps)"""
    worst = 0
    for hi, h in enumerate(sc["hosts"]):
        mine = [a for a in sc["acts"] if a["kind"] == "exec" and a["host"] == hi + 1]
        if not mine or not h["sprof"]:
            continue
        low = min(h["speeds"]) * min([v for _, v in h["sprof"]["pts"]] + [F(1)])
        length = max(a["start"] for a in mine) + sum(a["amount"] for a in mine) / low
        p = h["sprof"]
        worst += len(p["pts"]) * (length / p["period"] + 1 if p["period"] > 0 else 1)
    return worst


def gen_scenario(rng):
    flavour = rng.choice(["cpu", "cpu", "net", "mixed", "disk", "equal", "avail", "avail", "eqavail"])
    if flavour in ("avail", "eqavail"):
        while True:
            sc = gen_avail(rng, flavour == "eqavail")
            if steps_bound(sc) <= 60:
                return sc
    hosts, links, disks, acts = [], [], [], []
    if flavour in ("cpu", "mixed", "equal"):
        for _ in range(rng.randint(1, 2)):
            hosts.append(S.new_host([F(rng.choice([1, 2, 4, 6, 8, 12]))], cores=rng.choice([1, 2, 3, 4])))
    if flavour in ("net", "mixed"):
        for _ in range(rng.randint(1, 3)):
            links.append(S.new_link(rng.choice([2, 4, 6, 8, 12, 16]), 0))
    if flavour == "disk":
        for _ in range(rng.randint(1, 2)):
            bw = 3 * 2 ** rng.randint(20, 24)
            disks.append({"rbw": F(bw), "wbw": F(bw)})
    if flavour == "equal":
        # k equal single-thread execs on one host (the special case of the statement), started together or in two waves
        h = 1
        k = rng.randint(1, 7)
        amount = rng.choice([4, 6, 12, 24])
        for i in range(k):
            acts.append(S.new_act("exec", 0 if rng.random() < 0.7 else G * rng.randint(1, 8), amount, host=h))
        return S.new_scen(hosts[:1], [], [], acts, [], [])
    n = rng.randint(2, 7)
    per_disk = {}
    for _ in range(n):
        start = rng.randrange(0, 24) * G if rng.random() < 0.6 else F(0)
        kinds = (["exec"] if hosts else []) + (["comm"] if links else []) + (["io"] if disks else [])
        kind = rng.choice(kinds)
        if kind == "exec":
            h = rng.randint(1, len(hosts))
            threads = rng.choice([1, 1, 1, 2, 3])
            speed = hosts[h - 1]["speeds"][0]
            bound = F(0) if threads > 1 or rng.random() < 0.6 else speed * rng.choice([F(1, 4), F(1, 2), F(3, 4), F(2)])
            acts.append(S.new_act("exec", start, rng.choice([2, 3, 4, 6, 8, 12, 18, 24]) * threads, host=h, threads=threads,
                                  bound=bound, prio=1 if threads > 1 else rng.choice([1, 1, 2, 3])))
        elif kind == "comm":
            ln = rng.randint(1, len(links))
            route = rng.sample(range(1, len(links) + 1), ln)
            acts.append(S.new_act("comm", start, rng.choice([4, 8, 12, 16, 24, 36, 48]), links=route))
        else:
            d = rng.randint(1, len(disks))
            if per_disk.get(d, 0) >= 4:
                continue
            per_disk[d] = per_disk.get(d, 0) + 1
            acts.append(S.new_act("io", start, 3 * 2 ** rng.randint(20, 25) * rng.choice([1, 2, 3, 5]), disk=d,
                                  op=rng.choice(["read", "write"])))
    if not acts:
        acts.append(S.new_act("exec", 0, 4, host=1))
    return S.new_scen(hosts, links, disks, acts, [], [])


def brief(sc):
    def pf(p):
        return None if not p else {"pts": [[str(t), str(v)] for t, v in p["pts"]], "period": str(p["period"])}
    return {"hosts": [dict({"speed": str(h["speeds"][0]), "cores": h["cores"]},
                           **({"pstates": [str(x) for x in h["speeds"]], "speed_profile": pf(h["sprof"])} if varying(sc) else {}))
                      for h in sc["hosts"]],
            "events": [[str(e["t"]), e["op"], e["a"], e["v"]] for e in sc["events"]],
            "links": [str(l["bw"]) for l in sc["links"]], "disks": [str(d["rbw"]) for d in sc["disks"]],
            "acts": [{"kind": a["kind"], "start": str(a["start"]), "amount": str(a["amount"]), "threads": a["threads"],
                      "bound": str(a["bound"]), "prio": a["prio"],
                      "on": a["host"] if a["kind"] == "exec" else (a["links"] if a["kind"] == "comm" else [a["disk"], a["op"]])}
                     for a in sc["acts"]]}


def io_slack(sc, obs, fin):
    """The reference is a fluid timeline; the disk model rounds the progress of every step and I/O to whole bytes
    (disk_s19.cpp). The reference itself tells (OBS.whole) up to which date every step moves whole bytes, i.e. up to which
    date the two coincide exactly. Returns (t0, nbytes(k), seconds(i)): t0 = date of the first step that is not whole
    (None: the whole scenario is exact); from t0 on, nbytes(k) bounds |remaining - reference| of an I/O after k steps and
    seconds(i) the shift of the finish date of I/O i (0-based): half a byte per step and I/O (a completion that the
    rounding splits in two makes one more step: at most one per activity), at most doubled by each completion of
    another I/O of the same disk (a completion shifted by e / rate lets the m - 1 others progress by e / (m - 1) more or
    less), divided by the smallest rate an I/O of that disk can have."""
    t0 = None
    for o in obs:
        if o.get("_kind") == "OBS" and not o.get("whole", True):
            t0 = S.frac(o["t"])
            break
    if t0 is None:
        return None, None, None
    steps = max(o["k"] for o in obs if o.get("_kind") == "OBS")
    nio = {}
    for a in sc["acts"]:
        if a["kind"] == "io":
            nio[a["disk"]] = nio.get(a["disk"], 0) + 1

    def nbytes(k):
        return F(k + len(sc["acts"]) + 1, 2) * 2 ** max(nio.values())

    def seconds(i):
        a = sc["acts"][i]
        if a["kind"] != "io" or S.frac(fin["fin"][i]) < t0:
            return 0
        d = sc["disks"][a["disk"] - 1]
        return nbytes(steps) / (min(d["rbw"], d["wbw"]) / nio[a["disk"]])
    return t0, nbytes, seconds


def mismatches(sc, obs, fin, recs):
    t0, io_bytes, io_seconds = io_slack(sc, obs, fin)
    bad = S.compare_acts(sc, fin, recs, date_tol=io_seconds)
    nh, nl = len(sc["hosts"]), len(sc["links"])
    last = {}
    finish = {a["id"]: a for a in recs if a.get("e") == "act"}
    n = 0
    during = None       # capacities (as the implementation reports them) in force since the last clock advance
    for r in recs:
        if r.get("e") in ("cap0", "capchg"):
            during = r["cap"]
            continue
        if r.get("e") != "adv":
            continue
        t = r["t"]
        for sid, rem in r["rem"].items():
            aid = int(sid)
            if aid in last and rem > last[aid]:
                bad.append("t=%.17g activity %d: remaining work increased from %.17g to %.17g" % (t, aid, last[aid], rem))
            last[aid] = rem
            fa = finish.get(aid)
            if fa is not None and fa["state"] == "done":
                if S.near(t, F(fa["finish"])):
                    # (a residue of double rounding, 1e-14 of the amount, is left by cpu/optim:Full: zero within the 1e-9 used everywhere)
                    if abs(rem) > 1e-9 * max(1.0, abs(float(F(sc["acts"][aid - 1]["amount"])))):
                        bad.append("t=%.17g activity %d completes with remaining work %.17g" % (t, aid, rem))
                elif t < fa["finish"] and rem <= 0:
                    bad.append("t=%.17g activity %d: remaining work %.17g before its completion at %.17g" % (t, aid, rem, fa["finish"]))
        # the load read when the clock has just moved is that of the elapsed interval: it is held against the capacity
        # the implementation itself reported for that interval (the one read at this very moment already includes the
        # profile points of the new date)
        if during is None:
            bad.append("t=%.17g: no capacity record before the first clock advance" % t)
            during = r["cap"]
        for h in range(nh):
            if F(r["hload"][h + 1]) > F(during[h + 1]) * (1 + CAP_TOL):
                bad.append("t=%.17g host %d: load %.17g exceeds the capacity %.17g of the elapsed interval" %
                           (t, h + 1, r["hload"][h + 1], during[h + 1]))
            if not S.close(r["cap"][h + 1], F(r["peak"][h + 1]) * F(r["avail"][h + 1]) * sc["hosts"][h]["cores"]):
                bad.append("t=%.17g host %d: garbled capacity record" % (t, h + 1))
        during = r["cap"]
        o = S.find_obs(obs, t)
        if o is None or o.get("_kind") != "OBS":
            continue            # a date at which the reference has no step (nothing observable changes there)
        # two clock advances a rounding error apart (3.999999999999999 then 4: completions, then the profile point) are one step
        # of the exact reference: only the first one is compared with it
        if o.get("_seen"):
            continue
        o["_seen"] = True
        n += 1
        for sid, rem in r["rem"].items():
            aid = int(sid)
            a = sc["acts"][aid - 1]
            # (I/Os, from the first step of the reference that does not move whole bytes on: see io_slack)
            tol = io_bytes(o["k"]) if t0 is not None and a["kind"] == "io" and S.frac(o["t"]) >= t0 else F(0)
            tol = max(tol, F(1, 10 ** 9))       # (residues of double rounding at a completion: 1e-14)
            if not S.close(rem, S.frac(o["rem"][aid - 1]), absolute=tol) and o["was"][aid - 1] in ("run", "susp", "lat"):
                bad.append("t=%.17g activity %d (%s): remaining %.17g, reference %s = %.17g" %
                           (t, aid, a["kind"], rem, S.frac(o["rem"][aid - 1]), float(S.frac(o["rem"][aid - 1]))))
        for h in range(nh):
            if not S.close(r["hload"][h + 1], S.frac(o["hload"][h]), absolute=F(1, 10 ** 12)):
                bad.append("t=%.17g host %d: load %.17g, reference %s" % (t, h + 1, r["hload"][h + 1], S.frac(o["hload"][h])))
            if F(r["hload"][h + 1]) > S.frac(o["hcap"][h]) * (1 + CAP_TOL):
                bad.append("t=%.17g host %d: load %.17g exceeds the capacity %s of the elapsed interval (cores x peak speed x availability)" %
                           (t, h + 1, r["hload"][h + 1], S.frac(o["hcap"][h])))
            # current capacity: the availability scale and the capacity read at this date are those of the reference
            # (only at dates the clock reached exactly: a date such as 3.9999999999999991 for 4 is matched with the reference step
            # of the interval it closes, whose profile point may or may not be applied yet)
            if float(S.frac(o["t"])) == float(t) and \
               (not S.close(r["avail"][h + 1], S.frac(o["hscale"][h])) or not S.close(r["cap"][h + 1], S.frac(o["hcapnow"][h]))):
                bad.append("t=%.17g host %d: availability %.17g, capacity %.17g, reference %s and %s" %
                           (t, h + 1, r["avail"][h + 1], r["cap"][h + 1], S.frac(o["hscale"][h]), S.frac(o["hcapnow"][h])))
        for l in range(nl):
            if not S.close(r["lload"][l], S.frac(o["lload"][l]), absolute=F(1, 10 ** 12)):
                bad.append("t=%.17g link %d: load %.17g, reference %s" % (t, l + 1, r["lload"][l], S.frac(o["lload"][l])))
            if F(r["lload"][l]) > S.frac(o["lcap"][l]) * (1 + CAP_TOL):
                bad.append("t=%.17g link %d: load %.17g exceeds the bandwidth %s" % (t, l + 1, r["lload"][l], S.frac(o["lcap"][l])))
    return bad, n


def run(ctx):
    import os
    n = 300 if ctx.quick else 3000
    if os.environ.get("SURF_DEV_N"):
        n = int(os.environ["SURF_DEV_N"])
    scens = [gen_scenario(ctx.rng) for _ in range(n)]
    obs, fin, skipped = S.run_timelines(ctx, scens, timeout=900 if ctx.quick else 3000)
    ctx.cov["scenarios_skipped_32bit"] = len(skipped)
    if len(skipped) > len(scens) // 5:
        raise vlib.InfraError("too many scenarios left the 32-bit range of TLC (%d of %d): fix the generator" % (len(skipped), len(scens)))
    ids = [i for i in range(len(scens)) if fin[i] is not None]
    optims = [("Lazy", "Lazy"), ("Full", "Full"), ("Lazy", "Full"), ("Full", "Lazy")]
    jobs = []
    for k, i in enumerate(ids):
        co, no = optims[(k + ctx.seed) % 4]
        # reading the remaining work brings a lazily updated action up to date: half of the runs read it at every third
        # clock advance only, so that the lazy bookkeeping is exercised over several steps between two observations
        jobs.append((S.scen_text(scens[i], observe=1 if (k // 4) % 2 == 0 else 3),
                     NETCFG + ["--cfg=cpu/optim:" + co, "--cfg=network/optim:" + no]))
    results = S.run_many(ctx, jobs)
    ctx.cov["traces_validated_against_impl"] += len(results)
    ndates = 0
    nvary = nsat = nresh = nfrac = 0
    for k, i in enumerate(ids):
        sc = scens[i]
        ctx.count(S.scen_json(sc), nontrivial=len(sc["acts"]) > 1)
        if any(o.get("_kind") == "OBS" and not o.get("whole", True) for o in obs[i]):
            nfrac += 1
        if varying(sc):
            nvary += 1
            # measured on the reference: steps whose elapsed interval saw a host saturated at a capacity other than the
            # initial one, and steps at which the capacity of a host running something changes (execs re-shared)
            for o in obs[i]:
                if o.get("_kind") != "OBS":
                    continue
                for h, hs in enumerate(sc["hosts"]):
                    if o["hload"][h][0] > 0 and o["hload"][h] == o["hcap"][h] and S.frac(o["hcap"][h]) != hs["speeds"][0] * hs["cores"]:
                        nsat += 1
                    if o["hload"][h][0] > 0 and o["hcapnow"][h] != o["hcap"][h]:
                        nresh += 1
        bad, nd = mismatches(sc, obs[i], fin[i], results[k])
        ndates += nd
        if not bad:
            if k % 53 == 0:
                ctx.sample(brief(sc))
            continue
        recs2 = S.run_scenario(ctx, 10 ** 6 + i, jobs[k][0], jobs[k][1])
        bad2, _ = mismatches(sc, obs[i], fin[i], recs2)
        if not bad2:
            ctx.cov["unconfirmed_mismatches"] = ctx.cov.get("unconfirmed_mismatches", 0) + 1
            continue
        ctx.violation("workload: " + bad2[0],
                      files={"scenario.json": json.dumps(S.scen_json(sc)), "scenario.txt": jobs[k][0],
                             "howto.txt": ".build/harness/surf_driver scenario.txt %s\n" % " ".join(jobs[k][1]),
                             "output.ndjson": "\n".join(json.dumps(x) for x in recs2) + "\n",
                             "reference.json": json.dumps({"obs": obs[i], "fin": fin[i]})},
                      signature="C21:%s" % vlib.canon_hash(S.scen_json(sc)),
                      detail=json.dumps(brief(sc)) + "\n" + " ".join(jobs[k][1]) + "\n" + "\n".join(bad2[:20]))
    ctx.cov["event_dates_compared"] = ndates
    ctx.cov["io_scenarios_leaving_whole_bytes"] = nfrac
    ctx.cov["scenarios_with_changing_capacity"] = nvary
    ctx.cov["steps_saturated_at_changed_capacity"] = nsat
    ctx.cov["steps_capacity_changes_under_load"] = nresh
    ctx.cov["rule"] = ("workloads drawn from VERIF_SEED, eight flavours: cpu (1-2 hosts, 1-4 cores, execs with bounds / priorities / threads), "
                       "net (1-3 links, comms over random multi-link routes), mixed, disk (I/Os sharing 1-2 disks), equal (k = 1..7 equal "
                       "single-thread execs on one n-core host), and - a third of the scenarios - hosts whose capacity changes over time: "
                       "avail (1-2 hosts, 1-4 cores, 1-3 pstates, a speed profile of 1-4 points on the 1/8 s grid with scales 1/8..1, in half "
                       "of the cases < 1 from date 0, one-shot or periodic, and / or 1-3 scripted Host::set_pstate; cores..cores+3 execs (1..4 per host when there are two hosts), "
                       "mostly single-core and unbounded, some with bounds / priorities / threads) and eqavail (k equal single-core execs, "
                       "k > n in 80% of the cases, on such a host); 1-8 activities with start dates on a 1/8 s grid; update algorithms "
                       "alternate over Lazy/Full; observation at every on_time_advance; non-trivial = at least two activities")
    ctx.assumptions += ["disk workloads use equal read/write bandwidths 3*2^k and at most four I/Os per disk: the disk model rounds the progress "
                        "of every step to whole bytes (disk_s19.cpp); these parameters keep most steps integral and the reference itself "
                        "tells (Timeline!whole) up to which step they are: up to there the comparison is exact (1e-9), from there on the "
                        "I/Os of that scenario are compared within the bound derived from the rounding (half a byte per step and I/O, "
                        "doubled by each completion on the same disk; see io_slack); disk loads are not observable through the public API "
                        "and are not compared",
                        "the sharing rule of the reference (weighted max-min) is the documented one; C15-C18 decide the solver itself",
                        "tolerance 1e-9 relative on remaining work, loads and dates",
                        "Host::get_load read when the clock has just moved is the load of the elapsed interval (the rates are recomputed "
                        "by the next solve): it is held against the capacity of that interval, not against the capacity read at the same "
                        "moment, which already includes the profile points of the new date",
                        "profile points of date 0 act on the executions from date 0 on (on platforms built through the C++ API the values "
                        "*read* at date 0 are still the initial ones: recorded deviation C22:date-0, nothing is read at date 0 here)"]
