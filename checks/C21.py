"""C21 Work is conserved and capacity is respected over time.

G+T: spec/surf/Timeline.tla is the reference timeline of a generated concurrent workload (execs with bounds, priorities
and several threads on multi-core hosts, comms sharing links over multi-link routes, I/Os sharing disks). TLC runs every
scenario and checks on the specification itself (TimelineRun): Conservation (received + remaining = amount, remaining
>= 0, done iff remaining = 0), Feasible (rates within bounds and capacities), EqualExecs (k equal single-thread execs
on an n-core host of speed S progress at S*min(1, n/k)) and Mono (remaining never increases), and prints the exact
state after every step. The driver logs, at every Engine::on_time_advance, the remaining work of every activity in
progress (model action remains, i.e. Activity::get_remaining), Host::get_load, Link::get_load and the current
capacities. Python checks on the observed run: remaining never increases, is positive before and exactly zero at the
completion date, equals the reference remaining at every date (1e-9), loads equal the reference loads and never
exceed the capacity, finish dates equal the reference.

Mutations tried (tools/mutbuild.sh, quick tier):
  * CpuImpl.cpp: capacity of a multi-core host = (cores + 1) * speed: CAUGHT (exit 1)
  * Model.cpp (next_occurring_event_lazy): remaining work not brought up to date when the share of an action changes:
    MISSED by the first version of this check, which read the remaining work at every clock advance - reading it
    (Action::get_remains) itself updates a lazy action, which hides the defect. The check now reads it at every third
    advance only in half of the runs; that version could not be re-run against the mutation (the machine was heavily loaded; the coordinator stopped the mutation experiments before the whole list was run).
"""
import json
from fractions import Fraction as F
import vlib
import surf_common as S

LEVEL = "model_checking"
DRIVERS = S.DRIVERS
META = {"text": "Timeline.tla is the reference timeline of generated concurrent workloads; TLC checks on it, in every state of every scenario, work conservation, feasibility of the rates, the k-equal-execs-on-n-cores rule and monotonicity of the remaining work, and prints the exact state after every step; the real models, observed at every Engine::on_time_advance (remaining work, host and link loads, capacities), must never show an increasing remaining work, a positive one before completion or a non-zero one at completion, a load above the capacity, and must match the reference remaining work, loads and finish dates (1e-9).",
        "note": "Trusted: TLC, the driver (model action remains = Activity::get_remaining, Host::get_load, Link::get_load), the documented weighted max-min sharing rule used by the reference (the solver itself is decided by C15-C18). Reading the remaining work updates a lazily updated action: half of the runs read it at every third clock advance only. Disk workloads are restricted to parameters for which the whole-byte rounding of disk_s19.cpp is exact; disk loads are not observable.",
        "technique": "TLC runs the reference timeline with invariants (M) and prints exact states (G) + observation of the real models at every time advance (T, surf_driver) + exact rational/double comparison"}
NETCFG = ["--cfg=network/model:CM02", "--cfg=network/TCP-gamma:0", "--cfg=network/crosstraffic:0"]
G = F(1, 8)
CAP_TOL = F(1, 10 ** 9)


def gen_scenario(rng):
    flavour = rng.choice(["cpu", "cpu", "net", "mixed", "disk", "equal"])
    hosts, links, disks, acts = [], [], [], []
    if flavour in ("cpu", "mixed", "equal"):
        for _ in range(rng.randint(1, 2)):
            hosts.append(S.new_host([F(rng.choice([1, 2, 4, 6, 8, 12]))], cores=rng.choice([1, 2, 3, 4])))
    if flavour in ("net", "mixed"):
        for _ in range(rng.randint(1, 3)):
            links.append(S.new_link(rng.choice([2, 4, 6, 8, 12, 16]), 0))
    if flavour == "disk":
        for _ in range(rng.randint(1, 2)):
            bw = 3 * 2 ** rng.randint(20, 24)
            disks.append({"rbw": F(bw), "wbw": F(bw)})
    if flavour == "equal":
        # k equal single-thread execs on one host (the special case of the statement), started together or in two waves
        h = 1
        k = rng.randint(1, 7)
        amount = rng.choice([4, 6, 12, 24])
        for i in range(k):
            acts.append(S.new_act("exec", 0 if rng.random() < 0.7 else G * rng.randint(1, 8), amount, host=h))
        return S.new_scen(hosts[:1], [], [], acts, [], [])
    n = rng.randint(2, 7)
    per_disk = {}
    for _ in range(n):
        start = rng.randrange(0, 24) * G if rng.random() < 0.6 else F(0)
        kinds = (["exec"] if hosts else []) + (["comm"] if links else []) + (["io"] if disks else [])
        kind = rng.choice(kinds)
        if kind == "exec":
            h = rng.randint(1, len(hosts))
            threads = rng.choice([1, 1, 1, 2, 3])
            speed = hosts[h - 1]["speeds"][0]
            bound = F(0) if threads > 1 or rng.random() < 0.6 else speed * rng.choice([F(1, 4), F(1, 2), F(3, 4), F(2)])
            acts.append(S.new_act("exec", start, rng.choice([2, 3, 4, 6, 8, 12, 18, 24]) * threads, host=h, threads=threads,
                                  bound=bound, prio=1 if threads > 1 else rng.choice([1, 1, 2, 3])))
        elif kind == "comm":
            ln = rng.randint(1, len(links))
            route = rng.sample(range(1, len(links) + 1), ln)
            acts.append(S.new_act("comm", start, rng.choice([4, 8, 12, 16, 24, 36, 48]), links=route))
        else:
            d = rng.randint(1, len(disks))
            if per_disk.get(d, 0) >= 4:
                continue
            per_disk[d] = per_disk.get(d, 0) + 1
            acts.append(S.new_act("io", start, 3 * 2 ** rng.randint(20, 25) * rng.choice([1, 2, 3, 5]), disk=d,
                                  op=rng.choice(["read", "write"])))
    if not acts:
        acts.append(S.new_act("exec", 0, 4, host=1))
    return S.new_scen(hosts, links, disks, acts, [], [])


def brief(sc):
    return {"hosts": [{"speed": str(h["speeds"][0]), "cores": h["cores"]} for h in sc["hosts"]],
            "links": [str(l["bw"]) for l in sc["links"]], "disks": [str(d["rbw"]) for d in sc["disks"]],
            "acts": [{"kind": a["kind"], "start": str(a["start"]), "amount": str(a["amount"]), "threads": a["threads"],
                      "bound": str(a["bound"]), "prio": a["prio"],
                      "on": a["host"] if a["kind"] == "exec" else (a["links"] if a["kind"] == "comm" else [a["disk"], a["op"]])}
                     for a in sc["acts"]]}


def mismatches(sc, obs, fin, recs):
    bad = S.compare_acts(sc, fin, recs)
    nh, nl = len(sc["hosts"]), len(sc["links"])
    last = {}
    finish = {a["id"]: a for a in recs if a.get("e") == "act"}
    n = 0
    for r in recs:
        if r.get("e") != "adv":
            continue
        t = r["t"]
        for sid, rem in r["rem"].items():
            aid = int(sid)
            if aid in last and rem > last[aid]:
                bad.append("t=%.17g activity %d: remaining work increased from %.17g to %.17g" % (t, aid, last[aid], rem))
            last[aid] = rem
            fa = finish.get(aid)
            if fa is not None and fa["state"] == "done":
                if S.near(t, F(fa["finish"])):
                    if rem != 0:
                        bad.append("t=%.17g activity %d completes with remaining work %.17g" % (t, aid, rem))
                elif t < fa["finish"] and rem <= 0:
                    bad.append("t=%.17g activity %d: remaining work %.17g before its completion at %.17g" % (t, aid, rem, fa["finish"]))
        for h in range(nh):
            if F(r["hload"][h + 1]) > F(r["cap"][h + 1]) * (1 + CAP_TOL):
                bad.append("t=%.17g host %d: load %.17g exceeds the capacity %.17g" % (t, h + 1, r["hload"][h + 1], r["cap"][h + 1]))
        o = S.find_obs(obs, t)
        if o is None or o.get("_kind") != "OBS":
            continue            # a date at which the reference has no step (nothing observable changes there)
        n += 1
        for sid, rem in r["rem"].items():
            aid = int(sid)
            a = sc["acts"][aid - 1]
            tol = F(0)
            if not S.close(rem, S.frac(o["rem"][aid - 1]), absolute=tol) and o["was"][aid - 1] in ("run", "susp", "lat"):
                bad.append("t=%.17g activity %d (%s): remaining %.17g, reference %s = %.17g" %
                           (t, aid, a["kind"], rem, S.frac(o["rem"][aid - 1]), float(S.frac(o["rem"][aid - 1]))))
        for h in range(nh):
            if not S.close(r["hload"][h + 1], S.frac(o["hload"][h]), absolute=F(1, 10 ** 12)):
                bad.append("t=%.17g host %d: load %.17g, reference %s" % (t, h + 1, r["hload"][h + 1], S.frac(o["hload"][h])))
        for l in range(nl):
            if not S.close(r["lload"][l], S.frac(o["lload"][l]), absolute=F(1, 10 ** 12)):
                bad.append("t=%.17g link %d: load %.17g, reference %s" % (t, l + 1, r["lload"][l], S.frac(o["lload"][l])))
            if F(r["lload"][l]) > S.frac(o["lcap"][l]) * (1 + CAP_TOL):
                bad.append("t=%.17g link %d: load %.17g exceeds the bandwidth %s" % (t, l + 1, r["lload"][l], S.frac(o["lcap"][l])))
    return bad, n


def run(ctx):
    import os
    n = 200 if ctx.quick else 2000
    if os.environ.get("SURF_DEV_N"):
        n = int(os.environ["SURF_DEV_N"])
    scens = [gen_scenario(ctx.rng) for _ in range(n)]
    obs, fin, skipped = S.run_timelines(ctx, scens, timeout=900 if ctx.quick else 3000)
    ctx.cov["scenarios_skipped_32bit"] = len(skipped)
    if len(skipped) > len(scens) // 5:
        raise vlib.InfraError("too many scenarios left the 32-bit range of TLC (%d of %d): fix the generator" % (len(skipped), len(scens)))
    ids = [i for i in range(len(scens)) if fin[i] is not None]
    optims = [("Lazy", "Lazy"), ("Full", "Full"), ("Lazy", "Full"), ("Full", "Lazy")]
    jobs = []
    for k, i in enumerate(ids):
        co, no = optims[(k + ctx.seed) % 4]
        # reading the remaining work brings a lazily updated action up to date: half of the runs read it at every third
        # clock advance only, so that the lazy bookkeeping is exercised over several steps between two observations
        jobs.append((S.scen_text(scens[i], observe=1 if (k // 4) % 2 == 0 else 3),
                     NETCFG + ["--cfg=cpu/optim:" + co, "--cfg=network/optim:" + no]))
    results = S.run_many(ctx, jobs)
    ctx.cov["traces_validated_against_impl"] += len(results)
    ndates = 0
    for k, i in enumerate(ids):
        sc = scens[i]
        ctx.count(S.scen_json(sc), nontrivial=len(sc["acts"]) > 1)
        bad, nd = mismatches(sc, obs[i], fin[i], results[k])
        ndates += nd
        if not bad:
            if k % 53 == 0:
                ctx.sample(brief(sc))
            continue
        recs2 = S.run_scenario(ctx, 10 ** 6 + i, jobs[k][0], jobs[k][1])
        bad2, _ = mismatches(sc, obs[i], fin[i], recs2)
        if not bad2:
            ctx.cov["unconfirmed_mismatches"] = ctx.cov.get("unconfirmed_mismatches", 0) + 1
            continue
        ctx.violation("workload: " + bad2[0],
                      files={"scenario.json": json.dumps(S.scen_json(sc)), "scenario.txt": jobs[k][0],
                             "howto.txt": ".build/harness/surf_driver scenario.txt %s\n" % " ".join(jobs[k][1]),
                             "output.ndjson": "\n".join(json.dumps(x) for x in recs2) + "\n",
                             "reference.json": json.dumps({"obs": obs[i], "fin": fin[i]})},
                      signature="C21:%s" % vlib.canon_hash(S.scen_json(sc)),
                      detail=json.dumps(brief(sc)) + "\n" + " ".join(jobs[k][1]) + "\n" + "\n".join(bad2[:20]))
    ctx.cov["event_dates_compared"] = ndates
    ctx.cov["rule"] = ("workloads drawn from VERIF_SEED, six flavours: cpu (1-2 hosts, 1-4 cores, execs with bounds / priorities / threads), "
                       "net (1-3 links, comms over random multi-link routes), mixed, disk (I/Os sharing 1-2 disks), equal (k = 1..7 equal "
                       "single-thread execs on one n-core host); 2-7 activities with start dates on a 1/8 s grid; update algorithms alternate "
                       "over Lazy/Full; observation at every on_time_advance; non-trivial = at least two activities")
    ctx.assumptions += ["disk workloads use equal read/write bandwidths 3*2^k and at most four I/Os per disk: the disk model rounds the progress "
                        "of every step to whole bytes (disk_s19.cpp), these parameters keep every step integral so that the exact comparison "
                        "applies; disk loads are not observable through the public API and are not compared",
                        "the sharing rule of the reference (weighted max-min) is the documented one; C15-C18 decide the solver itself",
                        "tolerance 1e-9 relative on remaining work, loads and dates"]
