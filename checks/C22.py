"""C22 Availability profiles are applied exactly.

G+T: spec/surf/Profile.tla gives the value at date t of a piecewise-constant, possibly periodic profile;
spec/surf/Timeline.tla integrates the progress of running execs / comms over the piecewise-constant availability and
fails what uses a resource that goes off. TLC (TimelineRun) runs every generated scenario, checks the timeline
invariants, and prints the exact state at every event date. The driver builds the platform through the C++ API
(Host::set_speed_profile / set_state_profile, Link::set_bandwidth_profile / set_latency_profile / set_state_profile,
ProfileBuilder::from_string), a sampler actor logs get_speed / get_available_speed / is_on / get_bandwidth /
get_latency just before and at every change date, and every activity logs its finish date. Python compares.

Known deviations (KNOWN_FINDINGS.jsonl); a scenario that does not meet the reference is re-evaluated by TLC under the
variants of Timeline.tla that characterise them (alone and combined) and must then match one of them *exactly*,
anything else is a violation:
  C22:bandwidth-increase  NetworkCm02Model bounds the rate of a communication by the smallest bandwidth its route had
                          when it started (comm_action_set_bounds -> set_user_bound): a communication running when a
                          bandwidth profile raises the bandwidth keeps its old rate          (variant Timeline!CapComm)
  C22:latency-event       NetworkCm02Link::set_latency re-enables the LMM variable of a communication that is still
                          paying its latency: a latency point inside the latency phase ends it (variant Timeline!EarlyWake)
  C22:date-0              on a platform built through the C++ API nothing applies the profile points of date 0 before
                          the actors start (the XML loader fires on_platform_created for that): at date 0 the
                          application still sees the initial values                           (variant Timeline!Early)

The proposed fixes proposed/fix-C22-bandwidth-increase.diff and fix-C22-latency-event.diff were applied to a scratch tree:
the quick tier then reports no bandwidth-increase / latency-event finding any more (and no new mismatch).

Mutations tried (tools/mutbuild.sh, quick tier), all CAUGHT (exit 1):
  * ProfileBuilder.cpp: the first point of every later iteration delayed by one more loop delay (repetition one gap late)
  * cpu_cas01.cpp: a speed event changes speed_.scale without updating the constraint and the variable bounds
  * FutureEvtSet.cpp: pop_leq pops events strictly before the date only (the simulation no longer terminates: reported
    as runs that end with `hang`)
"""
import json
from fractions import Fraction as F
import vlib
import surf_common as S

LEVEL = "model_checking"
DRIVERS = S.DRIVERS
META = {"text": "Profile.tla (value of a piecewise-constant, possibly periodic profile at a date) and Timeline.tla (progress of running activities integrated over the current availability, failures when a resource goes off) are run by TLC on every generated scenario, with the timeline invariants checked in every state; the real models, driven through Host/Link::set_*_profile, must show the same sampled speeds / bandwidths / latencies / states just before and at every change date and the same finish dates (1e-9). Model-checking level for the specification; the binding to the code holds for the scenarios run.",
        "note": "Trusted: TLC, the driver (public C++ API), the exact rendering of dyadic numbers. Profile dates are whole ticks of 1/32 s. Ties left open: completion at the very date a resource goes off; two state points at one date are not generated. Three recorded deviations (bandwidth increase not followed by a running communication, latency point ending a latency phase, points of date 0 on C++-built platforms) are re-evaluated under explicit variants of the reference and must match them exactly (the lazy symptom of the latency one is attributed through the Full run of the same scenario).",
        "technique": "TLC runs the reference timeline with invariants (M) and prints exact states (G) + replay on the real models with a sampler actor (surf_driver) + exact rational/double comparison"}

NETCFG = ["--cfg=network/model:CM02", "--cfg=network/TCP-gamma:0", "--cfg=network/crosstraffic:0"]
G = F(1, 16)          # date grid


def gen_profile(rng, values, init, horizon, max_pts=20, dup=True):
    """random profile: up to max_pts points on the grid inside one iteration, optionally periodic"""
    periodic = rng.random() < 0.6
    span = rng.choice([2, 3, 4, 6, 8]) if periodic else horizon
    n = rng.randint(1, min(max_pts, 6 if rng.random() < 0.7 else max_pts))
    ticks = sorted(rng.sample(range(0 if rng.random() < 0.2 else 1, int(span / G) + (1 if rng.random() < 0.15 else 0)), min(n, int(span / G) - 1)))
    pts = []
    last = init
    for t in ticks:
        v = rng.choice([x for x in values if x != last] or values)
        pts.append((t * G, v))
        last = v
    if dup and rng.random() < 0.1 and pts:   # two points at the same date: the last one wins (not for state profiles:
                                             # whether a zero-length outage kills what is running is left open)
        pts.append((pts[-1][0], rng.choice(values)))
    return S.profile(pts, period=span if periodic else 0, init=init)


def change_dates(p, horizon):
    if not p:
        return []
    out = []
    k = 0
    while True:
        base = p["period"] * k
        if base > horizon:
            break
        for t, _ in p["pts"]:
            if base + t <= horizon:
                out.append(base + t)
        if p["period"] == 0:
            break
        k += 1
    return out


def gen_scenario(rng, quick):
    horizon = F(rng.choice([6, 8, 10]))
    nh = rng.randint(1, 2)
    nl = rng.randint(1, 2)
    hosts, links = [], []
    for _ in range(nh):
        speed = F(rng.choice([1, 2, 4, 8]))
        sprof = gen_profile(rng, [F(1, 4), F(1, 2), F(3, 4), F(1), F(1, 8)], F(1), horizon) if rng.random() < 0.8 else None
        stprof = gen_profile(rng, [F(0), F(1)], F(1), horizon, max_pts=4, dup=False) if rng.random() < 0.3 else None
        hosts.append(S.new_host([speed], cores=rng.choice([1, 1, 2, 4]), sprof=sprof, stprof=stprof))
    for _ in range(nl):
        bw = F(rng.choice([2, 4, 8, 16]))
        lat = F(rng.choice([0, 0, 1, 2, 4]), 32)
        bwprof = gen_profile(rng, [F(2), F(4), F(8), F(16), F(3), F(6), F(12)], bw, horizon) if rng.random() < 0.8 else None
        latprof = gen_profile(rng, [F(1, 32), F(1, 16), F(1, 8), F(3, 16)], lat, horizon, max_pts=5) if rng.random() < 0.4 else None
        stprof = gen_profile(rng, [F(0), F(1)], F(1), horizon, max_pts=3, dup=False) if rng.random() < 0.25 else None
        links.append(S.new_link(bw, lat, bwprof=bwprof, latprof=latprof, stprof=stprof))
    acts = []
    for _ in range(rng.randint(1, 4)):
        start = rng.randrange(0, int(horizon / G) // 2) * G
        if rng.random() < 0.5:
            h = rng.randint(1, nh)
            acts.append(S.new_act("exec", start, rng.choice([2, 4, 6, 8, 12, 16, 24]), host=h,
                                  threads=rng.choice([1, 1, 1, 2])))
        else:
            route = [rng.randint(1, nl)] if nl == 1 or rng.random() < 0.7 else [1, 2]
            acts.append(S.new_act("comm", start, rng.choice([4, 8, 12, 16, 24, 32, 48]), links=route))
    # all comms of a scenario use the same route when they share a link (equal RTT weights)
    routes = [a["links"] for a in acts if a["kind"] == "comm"]
    if routes:
        for a in acts:
            if a["kind"] == "comm":
                a["links"] = routes[0]
    samples = set()
    for p in [h["sprof"] for h in hosts] + [h["stprof"] for h in hosts] + \
            [l[k] for l in links for k in ("bwprof", "latprof", "stprof")]:
        for d in change_dates(p, horizon):
            samples.add(d)
            if d >= G / 2:
                samples.add(d - G / 2)
    samples = sorted(samples)
    if len(samples) > 30:
        samples = sorted(rng.sample(samples, 30))
    return S.new_scen(hosts, links, [], acts, [], samples + [horizon + 1])


def has_date0_point(sc):
    profs = [h[k] for h in sc["hosts"] for k in ("sprof", "stprof")] + [l[k] for l in sc["links"] for k in ("bwprof", "latprof", "stprof")]
    return any(p and p["pts"] and p["pts"][0][0] == 0 for p in profs)


def involves_comm_speedup(sc):
    return any(a["kind"] == "comm" for a in sc["acts"]) and any(l["bwprof"] for l in sc["links"])


def brief(sc):
    def pf(p):
        return None if not p else {"pts": [[str(t), str(v)] for t, v in p["pts"]], "period": str(p["period"])}
    return {"hosts": [{"speed": str(h["speeds"][0]), "cores": h["cores"], "speed_profile": pf(h["sprof"]), "state_profile": pf(h["stprof"])} for h in sc["hosts"]],
            "links": [{"bw": str(l["bw"]), "lat": str(l["lat"]), "bw_profile": pf(l["bwprof"]), "lat_profile": pf(l["latprof"]),
                       "state_profile": pf(l["stprof"])} for l in sc["links"]],
            "acts": [{"kind": a["kind"], "start": str(a["start"]), "amount": str(a["amount"]),
                      "on": a["host"] if a["kind"] == "exec" else a["links"], "threads": a["threads"]} for a in sc["acts"]]}


def mismatches(sc, obs, fin, recs):
    bad = S.compare_acts(sc, fin, recs)
    b2, n = S.compare_samples(sc, obs, recs)
    return bad + b2, n


def run(ctx):
    n = 40 if ctx.quick else 400
    import os
    if os.environ.get("SURF_DEV_N"):
        n = int(os.environ["SURF_DEV_N"])
    scens = [gen_scenario(ctx.rng, ctx.quick) for _ in range(n)]
    obs, fin, skipped = S.run_timelines(ctx, scens, timeout=900 if ctx.quick else 3000)
    ctx.cov["scenarios_skipped_32bit"] = len(skipped)
    if len(skipped) > len(scens) // 5:
        raise vlib.InfraError("too many scenarios left the 32-bit range of TLC (%d of %d): fix the generator" % (len(skipped), len(scens)))
    ids = [i for i in range(len(scens)) if fin[i] is not None]
    optims = [("Lazy", "Lazy"), ("Full", "Full"), ("Lazy", "Full"), ("Full", "Lazy")]
    jobs = []
    for k, i in enumerate(ids):
        co, no = optims[(k + ctx.seed) % 4]
        jobs.append((S.scen_text(scens[i]), NETCFG + ["--cfg=cpu/optim:" + co, "--cfg=network/optim:" + no]))
    results = S.run_many(ctx, jobs)
    ctx.cov["traces_validated_against_impl"] += len(results)
    nsamples = 0
    suspects = []
    for k, i in enumerate(ids):
        sc = scens[i]
        nprof = sum(1 for h in sc["hosts"] for key in ("sprof", "stprof") if h[key]) + \
            sum(1 for l in sc["links"] for key in ("bwprof", "latprof", "stprof") if l[key])
        ctx.count(S.scen_json(sc), nontrivial=nprof > 0 and len(sc["acts"]) > 0)
        bad, ns = mismatches(sc, obs[i], fin[i], results[k])
        nsamples += ns
        if bad:
            suspects.append((k, i, bad))
        elif k % 37 == 0:
            ctx.sample(brief(sc))
    ctx.cov["sampled_dates_compared"] = nsamples
    # confirm (re-run), then classify: plain violation, or the recorded deviation (must match the CapComm variant exactly)
    confirmed = []
    for k, i, bad in suspects:
        recs2 = S.run_scenario(ctx, 10 ** 6 + i, jobs[k][0], jobs[k][1])
        bad2, _ = mismatches(scens[i], obs[i], fin[i], recs2)
        if bad2:
            confirmed.append((k, i, bad2, recs2))
        else:
            ctx.cov["unconfirmed_mismatches"] = ctx.cov.get("unconfirmed_mismatches", 0) + 1
    # variants of the reference that characterise the two recorded deviations (never the property itself)
    COMPONENTS = [("bandwidth-increase", "capcomm", "a running communication does not follow a bandwidth increase"),
                  ("latency-event", "latwake", "a latency profile point inside the latency phase of a communication ends that phase at once"),
                  ("date-0", "zerolate", "profile points of date 0 are not in effect at date 0 (platform built through the C++ API)")]
    VARIANTS = []
    for mask in sorted(range(1, 8), key=lambda m: bin(m).count("1")):
        comps = [c for b, c in enumerate(COMPONENTS) if mask >> b & 1]
        VARIANTS.append(("C22:" + "+".join(c[0] for c in comps), {c[1]: True for c in comps}, "; ".join(c[2] for c in comps)))
    todo = []
    for ci, (k, i, bad, recs2) in enumerate(confirmed):
        sc = scens[i]
        comm = any(a["kind"] == "comm" for a in sc["acts"])
        for vi, (sig, flags, _) in enumerate(VARIANTS):
            if not comm and ("capcomm" in flags or "latwake" in flags):
                continue
            if "capcomm" in flags and not any(l["bwprof"] for l in sc["links"]):
                continue
            if "latwake" in flags and not any(l["latprof"] for l in sc["links"]):
                continue
            if "zerolate" in flags and not has_date0_point(sc):
                continue
            v = dict(sc)
            v.update(flags)
            todo.append((ci, vi, v))
    alt = {}
    if todo:
        o2, f2, sk2 = S.run_timelines(ctx, [v for _, _, v in todo], tag="alt")
        for j, (ci, vi, _) in enumerate(todo):
            if f2[j] is not None:
                alt[(ci, vi)] = (o2[j], f2[j])
    nknown = 0
    for ci, (k, i, bad, recs2) in enumerate(confirmed):
        sc = scens[i]
        files = {"scenario.json": json.dumps(S.scen_json(sc)), "scenario.txt": jobs[k][0],
                 "howto.txt": ".build/harness/surf_driver scenario.txt %s\n" % " ".join(jobs[k][1]),
                 "output.ndjson": "\n".join(json.dumps(x) for x in recs2) + "\n",
                 "reference.json": json.dumps({"obs": obs[i], "fin": fin[i]})}
        matched = None
        for vi, (sig, flags, text) in enumerate(VARIANTS):
            if (ci, vi) in alt:
                bad_alt, _ = mismatches(sc, alt[(ci, vi)][0], alt[(ci, vi)][1], recs2)
                if not bad_alt:
                    matched = (sig, text)
                    break
        if not matched and "--cfg=network/optim:Lazy" in jobs[k][1]:
            # With the lazy update algorithm the same defect (a latency point re-enables a flow that is still paying its
            # latency) has another symptom: the progress made between the end of the latency phase and the next change is
            # dropped.  The variants model the Full algorithm; the defect is attributed only if the *same scenario* run with
            # network/optim:Full matches a latency-event variant exactly (which proves that a latency point hit a latency phase).
            cfg_full = [c.replace("network/optim:Lazy", "network/optim:Full") for c in jobs[k][1]]
            recs_full = S.run_scenario(ctx, 2 * 10 ** 6 + i, jobs[k][0], cfg_full)
            for vi, (sig, flags, text) in enumerate(VARIANTS):
                if "latwake" in flags and (ci, vi) in alt:
                    bad_alt, _ = mismatches(sc, alt[(ci, vi)][0], alt[(ci, vi)][1], recs_full)
                    if not bad_alt:
                        matched = (sig + "+lazy", text + " (lazy update: the progress made before the next change is dropped)")
                        break
        if matched:
            nknown += 1
            ctx.violation(matched[1] + ": " + bad[0], files=files, signature=matched[0],
                          detail=json.dumps(brief(sc)) + "\n" + "\n".join(bad[:10]))
            continue
        ctx.violation("profile scenario: " + bad[0], files=files, signature="C22:%s" % vlib.canon_hash(S.scen_json(sc)),
                      detail=json.dumps(brief(sc)) + "\n" + " ".join(jobs[k][1]) + "\n" + "\n".join(bad[:20]))
    ctx.cov["known_finding_scenarios"] = nknown
    ctx.cov["rule"] = ("scenarios drawn from VERIF_SEED: 1-2 hosts and 1-2 links, each with random speed / state / bandwidth / latency "
                       "profiles (1-20 points on a 1/16 s grid, periodic with probability 0.6, sometimes a point at date 0 or two points "
                       "at the same date), 1-4 execs / comms running across the changes, samples just before and at every change date; "
                       "update algorithms alternate over Lazy/Full for cpu and network; non-trivial = at least one profile and one activity")
    ctx.assumptions += ["the reference timeline (Timeline.tla) is checked by TLC itself (TimelineInv, Monotone) on every scenario",
                        "latency profiles are compared through sampled values and through the latency paid by communications started later "
                        "(the statement does not say how a latency change affects a communication in flight; with CM02 and gamma 0 it does not)",
                        "tolerance 1e-9 relative on dates and values; CM02, TCP-gamma 0, no cross-traffic (pure bandwidth sharing)"]
