"""C23 Energy accounting integrates the power model.

G+T: spec/surf/Energy.tla states the power model of the host and link energy plugins (off power when off, Idle when on
and unloaded, Epsilon + load * (AllCores - Epsilon) of the current pstate otherwise, load = used fraction of the cores;
link: Idle + (Busy - Idle) * usage / bandwidth); spec/surf/Timeline.tla integrates it over the reference timeline
(energy += power * elapsed at every step) and TLC checks on every scenario that the energy never decreases
(TimelineRun!Mono) together with the timeline invariants. The driver enables the plugins
(sg_host_energy_plugin_init / sg_link_energy_plugin_init) before building the platform (wattage_per_state, wattage_off,
wattage_range properties), runs the workload (single- and multi-threaded execs, pstate changes, turn off / on, comms) and
a sampler logs sg_host_get_consumed_energy / sg_link_get_consumed_energy at every scripted date. Python compares each
sampled energy with the exact rational of the reference state of the same date, and checks that samples never decrease.

Mutations tried (tools/mutbuild.sh, quick tier), all CAUGHT (exit 1):
  * host_energy.cpp: HostEnergy::update reads the new pstate before integrating the elapsed interval
  * host_energy.cpp: the off power is forgotten (0 W while the host is off)
  * link_energy.cpp: half of the dynamic (load-dependent) power is dropped
"""
import json
from fractions import Fraction as F
import vlib
import surf_common as S

LEVEL = "model_checking"
DRIVERS = S.DRIVERS
META = {"text": "Energy.tla states the power model of the host and link energy plugins and Timeline.tla integrates it exactly over the reference timeline; TLC runs every generated scenario (pstate changes, off/on switches, multi-threaded execs, random integer power profiles, comms on links with a power range), checks that energy never decreases together with the timeline invariants, and the energies reported by sg_host_get_consumed_energy / sg_link_get_consumed_energy at every scripted date must equal the exact rationals (1e-9) and never decrease.",
        "note": "Trusted: TLC, the driver, exact rendering of dyadic numbers. Not covered: speed profiles combined with energy, suspended executions, link energy when the load of a link changes at a date where no communication crossing it starts or ends (the plugin updates a link only at those dates), links with latency.",
        "technique": "TLC runs the reference timeline with energy integration and invariants (M+G) + replay on the real plugins (surf_driver) + exact rational/double comparison"}
NETCFG = ["--cfg=network/model:CM02", "--cfg=network/TCP-gamma:0", "--cfg=network/crosstraffic:0"]
G = F(1, 8)


def gen_scenario(rng):
    horizon = rng.choice([8, 12, 16])
    nh = rng.randint(1, 3)
    hosts = []
    for _ in range(nh):
        nps = rng.randint(1, 3)
        base = rng.choice([2, 4, 8])
        speeds = sorted({F(base) / d for d in rng.sample([1, 2, 4, 8], nps)}, reverse=True)
        watts = []
        for _ in speeds:
            idle = rng.randint(1, 100)
            eps = idle + rng.randint(0, 40)
            watts.append((idle, eps, eps + rng.randint(1, 120)))
        hosts.append(S.new_host(speeds, cores=rng.choice([1, 2, 4]), watts=watts, woff=rng.randint(0, 12)))
    nl = rng.choice([0, 0, 1, 2])
    links = []
    for _ in range(nl):
        idle = rng.randint(1, 60)
        links.append(S.new_link(rng.choice([2, 4, 8, 16]), 0, widle=idle, wbusy=idle + rng.randint(1, 100)))
    acts = []
    starts = set()
    for _ in range(rng.randint(1, 6)):
        start = rng.randrange(0, int(horizon / G) * 2 // 3) * G
        starts.add(start)
        h = rng.randint(1, nh)
        threads = rng.choice([1, 1, 1, 2, 3, 4])
        acts.append(S.new_act("exec", start, rng.choice([2, 3, 4, 6, 8, 12, 16]) * threads, host=h, threads=threads))
    route = list(range(1, nl + 1)) if nl and rng.random() < 0.5 else ([rng.randint(1, nl)] if nl else [])
    if nl:
        for _ in range(rng.randint(1, 3)):
            start = rng.randrange(0, int(horizon / G) // 2) * G
            starts.add(start)
            acts.append(S.new_act("comm", start, rng.choice([4, 8, 16, 24, 32]), links=route))
    events = []
    used = set(starts)
    off = [False] * (nh + 1)
    ticks = sorted(rng.sample(range(1, int(horizon / G)), min(rng.randint(1, 8), int(horizon / G) - 1)))
    for tk in ticks:
        t = tk * G + G / 2                # scripted events fall between the start dates
        h = rng.randint(1, nh)
        x = rng.random()
        if off[h]:
            events.append(S.new_event(t, "on", h))
            off[h] = False
        elif x < 0.65 and len(hosts[h - 1]["speeds"]) > 1:
            events.append(S.new_event(t, "pstate", h, v=rng.randint(1, len(hosts[h - 1]["speeds"]))))
        elif x < 0.85:
            events.append(S.new_event(t, "off", h))
            off[h] = True
    samples = sorted(set([e["t"] for e in events] + list(starts) + [F(horizon), F(horizon) + 4]))
    return S.new_scen(hosts, links, [], acts, events, samples)


def brief(sc):
    return {"hosts": [{"speeds": [str(x) for x in h["speeds"]], "cores": h["cores"], "watts": [[str(x) for x in w] for w in h["watts"]],
                       "off": str(h["woff"])} for h in sc["hosts"]],
            "links": [{"bw": str(l["bw"]), "watts": [str(l["widle"]), str(l["wbusy"])]} for l in sc["links"]],
            "acts": [{"kind": a["kind"], "start": str(a["start"]), "amount": str(a["amount"]), "threads": a["threads"],
                      "on": a["host"] if a["kind"] == "exec" else a["links"]} for a in sc["acts"]],
            "events": [[str(e["t"]), e["op"], e["a"], e["v"]] for e in sc["events"]]}


def mismatches(sc, obs, fin, recs):
    bad = S.compare_acts(sc, fin, recs)
    b2, n = S.compare_samples(sc, obs, recs, energy=True)
    bad += b2
    # reported energy never decreases
    last_h, last_l = None, None
    for r in recs:
        if r.get("e") != "sample":
            continue
        if last_h is not None and any(x < y for x, y in zip(r.get("henergy", []), last_h)):
            bad.append("t=%s: consumed host energy decreased: %s -> %s" % (r["t"], last_h, r["henergy"]))
        if last_l is not None and any(x < y for x, y in zip(r.get("lenergy", []), last_l)):
            bad.append("t=%s: consumed link energy decreased: %s -> %s" % (r["t"], last_l, r["lenergy"]))
        last_h, last_l = r.get("henergy"), r.get("lenergy")
    return bad, n


def run(ctx):
    import os
    n = 150 if ctx.quick else 1500
    if os.environ.get("SURF_DEV_N"):
        n = int(os.environ["SURF_DEV_N"])
    scens = [gen_scenario(ctx.rng) for _ in range(n)]
    obs, fin, skipped = S.run_timelines(ctx, scens, timeout=900 if ctx.quick else 3000)
    ctx.cov["scenarios_skipped_32bit"] = len(skipped)
    if len(skipped) > len(scens) // 5:
        raise vlib.InfraError("too many scenarios left the 32-bit range of TLC (%d of %d): fix the generator" % (len(skipped), len(scens)))
    ids = [i for i in range(len(scens)) if fin[i] is not None]
    jobs = []
    for k, i in enumerate(ids):
        co = ["Lazy", "Full"][(k + ctx.seed) % 2]
        jobs.append((S.scen_text(scens[i], host_energy=True, link_energy=bool(scens[i]["links"])),
                     NETCFG + ["--cfg=cpu/optim:" + co]))
    results = S.run_many(ctx, jobs)
    ctx.cov["traces_validated_against_impl"] += len(results)
    nsamples = 0
    for k, i in enumerate(ids):
        sc = scens[i]
        ctx.count(S.scen_json(sc), nontrivial=len(sc["events"]) > 0 and len(sc["acts"]) > 1)
        bad, ns = mismatches(sc, obs[i], fin[i], results[k])
        nsamples += ns
        if not bad:
            if k % 41 == 0:
                ctx.sample(brief(sc))
            continue
        recs2 = S.run_scenario(ctx, 10 ** 6 + i, jobs[k][0], jobs[k][1])
        bad2, _ = mismatches(sc, obs[i], fin[i], recs2)
        if not bad2:
            ctx.cov["unconfirmed_mismatches"] = ctx.cov.get("unconfirmed_mismatches", 0) + 1
            continue
        ctx.violation("energy scenario: " + bad2[0],
                      files={"scenario.json": json.dumps(S.scen_json(sc)), "scenario.txt": jobs[k][0],
                             "howto.txt": ".build/harness/surf_driver scenario.txt %s\n" % " ".join(jobs[k][1]),
                             "output.ndjson": "\n".join(json.dumps(x) for x in recs2) + "\n",
                             "reference.json": json.dumps({"obs": obs[i], "fin": fin[i]})},
                      signature="C23:%s" % vlib.canon_hash(S.scen_json(sc)),
                      detail=json.dumps(brief(sc)) + "\n" + " ".join(jobs[k][1]) + "\n" + "\n".join(bad2[:20]))
    ctx.cov["energy_samples_compared"] = nsamples
    ctx.cov["rule"] = ("scenarios drawn from VERIF_SEED: 1-3 hosts with 1-3 pstates, 1/2/4 cores and random integer power profiles "
                       "(Idle <= Epsilon < AllCores per pstate, off power), 1-6 single/multi-threaded execs, up to 8 scripted pstate "
                       "changes and off/on switches, optionally 1-2 links with a power range and 1-3 comms over one common route; consumed "
                       "energies sampled at every scripted date and start date; non-trivial = at least one scripted event and two activities")
    ctx.assumptions += ["speed profiles are not combined with energy (the statement defines the load as the used fraction of the cores)",
                        "link energy is exercised with zero-latency links and communications sharing one route (every load change of a link "
                        "coincides with the start or the end of a communication crossing it)",
                        "tolerance 1e-9 relative + 1e-9 J absolute on energies"]
