"""C24 Hierarchical routes are composed correctly: see DESIGN.md section 4 (C24), spec/routing/Hier.tla, checks/routing_common.py.

Generated nested platforms (zones of every kind, <= 3 levels, <= 40 hosts, gateways, bypass routes, symmetrical and
asymmetrical routes, split-duplex links), all host pairs (and the host-to-itself pairs that the documentation defines):
  M  HierMC: every behaviour of the routing machine reaches the destination, no gateway met twice, latency = sum;
  T  HierTrace: the link list returned by Host::route_to must be a behaviour of the machine (up through gateways to the
     lowest common ancestor, the route declared there or a declared bypass, down), the returned latency must be the
     exact sum of the link latencies (+ the Vivaldi coordinate terms).
Permanent cases: the example of the documentation (Platform_routing.rst) and three levels of Star zones with two-link
routes.  Rejections explained by a recorded defect (KNOWN_FINDINGS.jsonl) are decided with TLC too (flags of the expected
behaviours, acceptance by the machine with the known deviation switched on).

Binding demonstrated (scratch worktree of /repo, quick tier, `VERIF_REPO=... VERIF_BUILD=...`):
  * all proposed fixes applied (proposed/fix-C24-interzone-and-bypass.diff, fix-C25-dijkstra.diff, fix-C26-dragonfly.diff):
    3597 routes asked, 3597 accepted, no rejection, no known finding (the specification raises no false alarm);
  * m1 NetZoneImpl::get_global_route_with_netzones drops the segment from the gateway of the destination ancestor down to
    the destination: CAUGHT (exit 1; e.g. nested-stars t1 -> b2 returns lt1 bbT lA1, expected lt1 bbT lA1 bbA lBa xb2 lb2);
  * m2 NetZoneImpl::get_bypass_route never finds a bypass between zones: run started, stopped before it finished (machine
    overloaded): NOT EVALUATED;
  * planned, not run: StarZone gives the gateway of the source as gateway of the destination; FullZone keeps the order of
    the links of a symmetrical route."""
import random
import vlib
import routing_common as R

LEVEL = "model_checking"
META = {'text': 'TLC validates, as behaviours of the forwarding machine spec/routing/Hier.tla (zone tree, per-zone routes with gateways, bypass routes, symmetrical routes; global route = up through gateways to the lowest common ancestor, the route or bypass declared there, down), the link list returned by Host::route_to for all host pairs of generated nested platforms (all zone kinds, <= 3 levels, <= 40 hosts) and gives the latency (exact sum of link latencies + Vivaldi terms) compared with the returned one; TLC also explores every behaviour of every pair on the same platforms (destination reached, no gateway met twice). Model checking level: the oracle is the explicit specification, evaluated by TLC, bound to the code by trace validation of every route asked.', 'note': 'Trusted: TLC, the driver route_driver (platform built through the C++ API from the same description as the JSON given to TLC), the syntactic mapping of link names to link numbers. Conformance holds for the platforms generated (seeded), not for all platforms. Rejections explained by the 7 defects recorded in KNOWN_FINDINGS.jsonl (classified with TLC: flags of the expected behaviours, acceptance by the machine with the recorded deviation) do not fail the check. Whether a bypass applies to end-point/gateway segments is left open.', 'technique': 'TLC model checking of Hier (HierMC) + TLC trace validation of Host::route_to results (HierTrace)'}
DRIVERS = R.DRIVERS


def run(ctx):
    quick = ctx.quick
    n = 14 if quick else 150
    plats = [R.doc_example(), R.nested_star_example()]
    k = 0
    while len(plats) < n + 2:
        k += 1
        rng = random.Random("C24/%d/%s/%d" % (ctx.seed, ctx.tier, k))
        p = R.gen_hier(rng, "g%d" % k, max_hosts=24 if quick else 40) if rng.random() < 0.9 \
            else R.gen_cluster_parent(rng, "k%d" % k)
        if len(p.hosts()) <= 40 and 1 <= len(p.pairs) <= (700 if quick else 1700):
            plats.append(p)
    R.run_check(ctx, plats, chunk=2 if quick else 6,
                nontrivial=lambda plat, s, d: plat.zone_of_host(s) is not plat.zone_of_host(d),
                rule="platforms = the documentation's example + 3 nested Star zones + seeded random nested platforms "
                     "(zone kinds Full, Floyd, Dijkstra, DijkstraCache, Star, Vivaldi, Wifi, Empty, Torus, FatTree, "
                     "Dragonfly; <= 3 levels; gateways directly in their zone or anywhere below it; bypass routes); "
                     "cases = all ordered host pairs (+ defined self pairs); non-trivial = end points in different zones; "
                     "distinct by hash of (platform description, pair)")
    ctx.assumptions += ["TLC explores and validates against the specification Hier; the binding to the code is the validation "
                        "of every route returned by Host::route_to on the generated platforms",
                        "link names are mapped to link numbers syntactically (cluster zones: from the numbers in their names)",
                        "limiter links have a zero latency (as those created by the XML loader); Vivaldi terms are compared "
                        "in binary64 with a relative tolerance of 1e-12, all other latencies exactly (dyadic values)",
                        "whether a bypass route applies to the segments between an end point and a gateway is left open"]
