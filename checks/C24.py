"""C24 Hierarchical routes are composed correctly: see DESIGN.md section 4 (C24), spec/routing/Hier.tla, checks/routing_common.py.

Generated nested platforms (zones of every kind, <= 3 levels, <= 40 hosts, gateways, bypass routes, symmetrical and
asymmetrical routes, split-duplex links), all host pairs (and the host-to-itself pairs that the documentation defines):
  M  HierMC: every behaviour of the routing machine reaches the destination, no gateway met twice, latency = sum;
  T  HierTrace: the link list returned by Host::route_to must be a behaviour of the machine (up through gateways to the
     lowest common ancestor, the route declared there or a declared bypass, down), the returned latency must be the
     exact sum of the link latencies (+ the Vivaldi coordinate terms).
Permanent cases: the example of the documentation (Platform_routing.rst) and three levels of Star zones with two-link
routes.  Rejections explained by a recorded defect (KNOWN_FINDINGS.jsonl) are decided with TLC too (flags of the expected
behaviours, acceptance by the machine with the known deviation switched on).

Bypass lookup (Hier!Expand, R.gen_bypass_depths).  The candidates are: a bypass declared by the lowest common ancestor for
the two end points themselves (documentation: "between any hosts, even if they are not in the same zone"), then every
pair (zone on the path of the source, zone on the path of the destination) below the common ancestor, at whatever depths.
When several apply the specification takes the one NetZoneImpl::get_bypass_route finds first (zones numbered from the end
point upwards, pairs visited (0,0) (0,1) (1,0) (1,1) (0,2) (2,0) (1,2) (2,1) (2,2) ...: Hier!PairRank); the
documentation gives no order.  Deliberate deviations from the code: a bypass keyed by the common ancestor itself (the code
keeps that zone on a path of length 1) and bypasses declared by other zones than the common ancestor are not modelled (not
generated).  Dedicated seeded platforms (4 in the quick tier, 40 in the thorough one; three levels, top zone Full / Floyd
/ Star, children = Star zones with direct hosts and grand-children, or leaf zones): several bypass routes of the top zone
between child <-> child, child <-> grand-child, grand-child <-> grand-child of two different branches, in both
directions, competing for the same hosts, used by hosts at equal and at different depths, + bypass routes between two
hosts of different zones, + bypass routes inside a zone (two hosts, two sub-zones).  They are built so that no recorded
defect is on the way of a route that uses a zone bypass (gateways = routers that are direct members, no Dijkstra /
Dragonfly zone, no zone route taken on the way up to a bypass gateway): such a route is either accepted or an unexplained
VIOLATION.  The evidence counts (coverage.bypass_cases, flags given by TLC) the routes using a bypass: end points at
different depths (source deeper / destination deeper), key zones at different depths, several candidates; the check
fails (infrastructure error) when a run has no different-depth case in both directions.
Finding of this extension (KNOWN_FINDINGS C24:host-bypass-across-zones, proposed/C24-host-bypass-across-zones.txt): a
bypass route between two hosts that are not both direct members of the declaring zone is never used by the code; such a
rejection is tagged only when TLC says both that the expected behaviour uses such a bypass ("hbypx") and that the returned
route is accepted by the machine that ignores it (DEV=known, "hbypskip").
Classification extended at the same time (Hier!SpStep, flag "djkpre"): a Floyd zone crossing a member Dijkstra zone between
two different gateways hands its list under construction to DijkstraZone::get_local_route, which puts its links in front
(recorded defect dijkstra-multilink-route-reversed; the flag used to be raised only after a bypass): the committed check
exited 1 with VERIF_SEED=2 on the unchanged tree for that reason (platform g8, routes through z5 from r2 to h5).

Binding demonstrated (scratch worktree of /repo, quick tier, `VERIF_REPO=... VERIF_BUILD=...`):
  * all proposed fixes applied (proposed/fix-C24-interzone-and-bypass.diff, fix-C25-dijkstra.diff, fix-C26-dragonfly.diff):
    3597 routes asked, 3597 accepted, no rejection, no known finding (the specification raises no false alarm);
  * m1 NetZoneImpl::get_global_route_with_netzones drops the segment from the gateway of the destination ancestor down to
    the destination: CAUGHT (exit 1; e.g. nested-stars t1 -> b2 returns lt1 bbT lA1, expected lt1 bbT lA1 bbA lBa xb2 lb2);
  * m2 NetZoneImpl::get_bypass_route never finds a bypass between zones: run started, stopped before it finished (machine
    overloaded): NOT EVALUATED;
  * m3 NetZoneImpl::get_bypass_route stops its search at std::min(path_src.size(), path_dst.size()) instead of std::max
    (a bypass between zones A and B ignored when the source is in a sub-zone of A and the destination directly in B, and
    the converse): missed before the dedicated platforms existed, now CAUGHT (exit 1, seed 0: 20 VIOLATION lines, e.g.
    platform b3 h1 -> h11, expected flags bypass bypdepth bypskew; 25 different-depth routes rejected, none tagged known);
  * m4 NetZoneImpl::get_bypass_route looks (max, i) up before (i, max): CAUGHT on the dedicated platforms (seed 0: 5
    routes of b3, b5, b8 with two competing bypasses rejected, accepted on the unchanged tree);
  * planned, not run: StarZone gives the gateway of the source as gateway of the destination; FullZone keeps the order of
    the links of a symmetrical route."""
import random
import vlib
import routing_common as R

LEVEL = "model_checking"
META = {'text': 'TLC validates, as behaviours of the forwarding machine spec/routing/Hier.tla (zone tree, per-zone routes with gateways, bypass routes, symmetrical routes; global route = up through gateways to the lowest common ancestor, the route or bypass declared there, down), the link list returned by Host::route_to for all host pairs of generated nested platforms (all zone kinds, <= 3 levels, <= 40 hosts) and gives the latency (exact sum of link latencies + Vivaldi terms) compared with the returned one; TLC also explores every behaviour of every pair on the same platforms (destination reached, no gateway met twice). The bypass lookup is specified completely: a bypass for the two end points themselves, then every pair of zones of the two paths below the common ancestor at whatever depths, in the order of NetZoneImpl::get_bypass_route when several apply; dedicated platforms declare competing bypass routes between zones of different depths of two branches, in both directions, used by hosts at equal and different depths, and bypass routes between hosts of different zones (counted in coverage.bypass_cases from the flags TLC gives to the behaviours). Model checking level: the oracle is the explicit specification, evaluated by TLC, bound to the code by trace validation of every route asked.', 'note': 'Trusted: TLC, the driver route_driver (platform built through the C++ API from the same description as the JSON given to TLC), the syntactic mapping of link names to link numbers. Conformance holds for the platforms generated (seeded), not for all platforms. Rejections explained by the 8 defects recorded in KNOWN_FINDINGS.jsonl (classified with TLC: flags of the expected behaviours, acceptance by the machine with the recorded deviation) do not fail the check; the routes of the dedicated platforms that use a bypass between zones cannot fall in these classes. Whether a bypass applies to end-point/gateway segments is left open; the order among several applicable bypass routes is the one of the code (the documentation gives none); bypass routes keyed by the common ancestor itself or declared by another zone than the common ancestor are not modelled.', 'technique': 'TLC model checking of Hier (HierMC) + TLC trace validation of Host::route_to results (HierTrace)'}
DRIVERS = R.DRIVERS


# the documentation allows a bypass route "between any hosts, even if they are not in the same zone"
# (Platform_routing.rst); the generated platforms declare some (see R.gen_bypass_depths)
CROSS_HOST_BYPASS = True


def run(ctx):
    quick = ctx.quick
    n = 14 if quick else 150
    nb = 4 if quick else 40
    plats = [R.doc_example(), R.nested_star_example()]
    # platforms dedicated to the lookup of the bypass routes: zones / end points at different depths
    for k in range(1, nb + 1):
        plats.append(R.gen_bypass_depths(random.Random("C24b/%d/%s/%d" % (ctx.seed, ctx.tier, k)), "b%d" % k,
                                         cross_host=CROSS_HOST_BYPASS))
    k = 0
    while len(plats) < n + nb + 2:
        k += 1
        rng = random.Random("C24/%d/%s/%d" % (ctx.seed, ctx.tier, k))
        p = R.gen_hier(rng, "g%d" % k, max_hosts=24 if quick else 40) if rng.random() < 0.9 \
            else R.gen_cluster_parent(rng, "k%d" % k)
        if len(p.hosts()) <= 40 and 1 <= len(p.pairs) <= (700 if quick else 1700):
            plats.append(p)
    # the small platforms (the two permanent ones and the dedicated ones) share TLC runs
    small = nb + 2
    csz = 2 if quick else 6
    chunks = [list(range(i, min(small, i + 6))) for i in range(0, small, 6)] + \
             [list(range(i, min(len(plats), i + csz))) for i in range(small, len(plats), csz)]
    allout = R.run_check(ctx, plats, chunk=chunks,
                nontrivial=lambda plat, s, d: plat.zone_of_host(s) is not plat.zone_of_host(d),
                rule="platforms = the documentation's example + 3 nested Star zones + seeded random 3-level platforms "
                     "dedicated to the bypass lookup (several bypass routes between zones of different depths below two "
                     "children of the same zone, in both directions, + bypass routes between hosts of different zones) "
                     "+ seeded random nested platforms "
                     "(zone kinds Full, Floyd, Dijkstra, DijkstraCache, Star, Vivaldi, Wifi, Empty, Torus, FatTree, "
                     "Dragonfly; <= 3 levels; gateways directly in their zone or anywhere below it; bypass routes); "
                     "cases = all ordered host pairs (+ defined self pairs); non-trivial = end points in different zones; "
                     "distinct by hash of (platform description, pair)")
    # ---- what the bypass cases exercised: flags given by TLC to the accepting behaviour (accepted routes) or to the
    # expected behaviours (rejected routes); the depths of the end points are read from the platform description
    bc = {}

    def add(key):
        bc[key] = bc.get(key, 0) + 1

    for o in allout:
        plat = o["plat"]
        for rec in o["res"]["routes"]:
            if rec.get("p", 1) != 1 or rec["s"] == "?":
                continue
            acc = rec.get("acc")
            fl = set(f for a in acc for f in a["fl"]) if acc else set(rec.get("exp_fl", []))
            if "bypass" not in fl:
                continue
            verdict = "accepted" if acc else "rejected"
            add("routes_with_bypass_" + verdict)
            ds = len(R._zpath(plat, plat.np[plat.npi[rec["s"]] - 1]["z"]))
            dd = len(R._zpath(plat, plat.np[plat.npi[rec["d"]] - 1]["z"]))
            if "bypskew" in fl:
                add("zone_bypass_end_points_at_different_depths_%s_%s" % ("src_deeper" if ds > dd else "dst_deeper", verdict))
            if "bypdepth" in fl:
                add("zone_bypass_between_zones_of_different_depths_" + verdict)
            if "bypmany" in fl:
                add("several_bypasses_apply_" + verdict)
            if "hbypx" in fl:
                add("host_bypass_across_zones_" + verdict)
    ctx.cov["bypass_cases"] = bc
    skew = [k for k in bc if k.startswith("zone_bypass_end_points_at_different_depths_")]
    if not any("src_deeper" in k for k in skew) or not any("dst_deeper" in k for k in skew):
        raise vlib.InfraError("the generated platforms have no route using a bypass between zones whose end points are at "
                              "different depths in both directions: %s" % bc)
    ctx.assumptions += ["TLC explores and validates against the specification Hier; the binding to the code is the validation "
                        "of every route returned by Host::route_to on the generated platforms",
                        "link names are mapped to link numbers syntactically (cluster zones: from the numbers in their names)",
                        "limiter links have a zero latency (as those created by the XML loader); Vivaldi terms are compared "
                        "in binary64 with a relative tolerance of 1e-12, all other latencies exactly (dyadic values)",
                        "whether a bypass route applies to the segments between an end point and a gateway is left open",
                        "when several declared bypass routes apply to a pair, the specification takes the one that "
                        "NetZoneImpl::get_bypass_route looks up first (the documentation gives no order); a bypass declared "
                        "for the two end points themselves comes first; only the bypass routes declared by the lowest common "
                        "ancestor zone are considered, and none keyed by that zone itself"]
