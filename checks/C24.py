"""C24 Hierarchical routes are composed correctly: see DESIGN.md section 4 (C24), spec/routing/Hier.tla, checks/routing_common.py.

Generated nested platforms (zones of every kind, <= 3 levels, <= 40 hosts, gateways, bypass routes, symmetrical and
asymmetrical routes, split-duplex links), all host pairs (and the host-to-itself pairs that the documentation defines):
  M  HierMC: every behaviour of the routing machine reaches the destination, no gateway met twice, latency = sum;
  T  HierTrace: the link list returned by Host::route_to must be a behaviour of the machine (up through gateways to the
     lowest common ancestor, the route declared there or a declared bypass, down), the returned latency must be the
     exact sum of the link latencies (+ the Vivaldi coordinate terms).
Permanent cases: the example of the documentation (Platform_routing.rst) and three levels of Star zones with two-link
routes.  Rejections explained by a recorded defect (KNOWN_FINDINGS.jsonl) are decided with TLC too (flags of the expected
behaviours, acceptance by the machine with the known deviation switched on).

Mutations tried (tools/mutbuild.sh, quick tier): see the end of this docstring (filled after the experiments)."""
import random
import vlib
import routing_common as R

LEVEL = "model_checking"
DRIVERS = R.DRIVERS


def run(ctx):
    quick = ctx.quick
    n = 14 if quick else 150
    plats = [R.doc_example(), R.nested_star_example()]
    k = 0
    while len(plats) < n + 2:
        k += 1
        rng = random.Random("C24/%d/%s/%d" % (ctx.seed, ctx.tier, k))
        p = R.gen_hier(rng, "g%d" % k, max_hosts=24 if quick else 40) if rng.random() < 0.9 \
            else R.gen_cluster_parent(rng, "k%d" % k)
        if len(p.hosts()) <= 40 and 1 <= len(p.pairs) <= (700 if quick else 1700):
            plats.append(p)
    R.run_check(ctx, plats, chunk=2 if quick else 6,
                nontrivial=lambda plat, s, d: plat.zone_of_host(s) is not plat.zone_of_host(d),
                rule="platforms = the documentation's example + 3 nested Star zones + seeded random nested platforms "
                     "(zone kinds Full, Floyd, Dijkstra, DijkstraCache, Star, Vivaldi, Wifi, Empty, Torus, FatTree, "
                     "Dragonfly; <= 3 levels; gateways directly in their zone or anywhere below it; bypass routes); "
                     "cases = all ordered host pairs (+ defined self pairs); non-trivial = end points in different zones; "
                     "distinct by hash of (platform description, pair)")
    ctx.assumptions += ["TLC explores and validates against the specification Hier; the binding to the code is the validation "
                        "of every route returned by Host::route_to on the generated platforms",
                        "link names are mapped to link numbers syntactically (cluster zones: from the numbers in their names)",
                        "limiter links have a zero latency (as those created by the XML loader); Vivaldi terms are compared "
                        "in binary64 with a relative tolerance of 1e-12, all other latencies exactly (dyadic values)",
                        "whether a bypass route applies to the segments between an end point and a gateway is left open"]
