"""C25 Shortest-path zones compute minimal routes: see DESIGN.md section 4 (C25), spec/routing/ShortestPath.tla (+ Hier.tla).

Random connected graphs (3..30 nodes, hosts and routers, one-hop routes of 1..3 links, symmetrical or not, split-duplex
links, explicit loopbacks; six graphs out of eight are small (5..9 nodes), dense, with one-hop routes of 1..6 links); the same graph is built as a Floyd, a Dijkstra, a DijkstraCache and a Full zone:
  G  TLC (HierMC) computes the minimal link count of every pair (DIST) and explores every minimal chain (M);
  T  every returned route must be a chain of declared one-hop routes taken on a minimal chain (HierTrace), its number of
     links must be TLC's minimum, the three algorithms must agree, Full must return exactly the declared route;
     DijkstraCache is asked every pair twice, in two different orders (route cache).
Binding demonstrated (scratch worktree of /repo, quick tier):
  * proposed/fix-C25-dijkstra.diff applied: 1666 routes asked, 1666 accepted, no known finding;
  * m4 FloydZone::do_seal relaxes with cost[a][c] < cost[a][b] (second leg of the detour ignored): CAUGHT (exit 1, 216
    routes that are not on a minimal chain / link count above TLC's minimum);
  * m5 DijkstraZone keys its route cache by the destination: CAUGHT (exit 1, 411 routes of the DijkstraCache platforms)."""
import random
import vlib
import routing_common as R

LEVEL = "model_checking"
META = {'text': "For seeded random connected graphs (<= 30 nodes, one-hop routes of 1..3 links, symmetrical or not) built as Floyd, Dijkstra, DijkstraCache and Full zones, TLC computes the minimal link count of every pair (spec/routing/ShortestPath.tla), explores every minimal chain, and validates every route returned by Host::route_to as a chain of declared one-hop routes lying on a minimal chain (Full: exactly the declared route); the harness compares the number of links with TLC's minimum and across the three algorithms; DijkstraCache is asked every pair twice in two orders.", 'note': 'Trusted: TLC, the driver, the mapping of link names. Bounded to the generated graphs. Routes whose only deviation is the recorded DijkstraZone defect (links of a multi-link one-hop route returned in reverse order) are reported as KNOWN-FINDING; their link counts are still compared with the minimum.', 'technique': 'TLC evaluation of ShortestPath!SpDist (G) + TLC model checking and trace validation with Hier (M+T)'}
DRIVERS = R.DRIVERS
KINDS = ["floyd", "dijkstra", "dijkstracache", "full"]


def run(ctx):
    quick = ctx.quick
    ngraphs = 56 if quick else 240
    plats = []
    groups = []
    for k in range(ngraphs):
        rng = random.Random("C25/%d/%s/%d" % (ctx.seed, ctx.tier, k))
        if k % 8 >= 2:
            # small dense graphs whose one-hop routes have 1..6 links: many chains of different hop counts and costs, so that
            # the cost of a node is lowered after it was first reached (the order of expansion of Dijkstra matters)
            g = R.gen_graph(rng, nmax=9, nmin=5, maxlinks=6, dense=True)
        else:
            g = R.gen_graph(rng, nmax=(8, 14, 20, 30)[k % 4] if quick else 30)
        grp = []
        for kind in KINDS:
            plats.append(R.plat_from_graph(kind, g, "g%d-%s" % (k, kind)))
            grp.append(len(plats) - 1)
        groups.append(grp)
    declared = lambda plat, s, d: s != d and not any(
        (r["s"] == plat.npi[s] and r["d"] == plat.npi[d]) or (r["sym"] and r["s"] == plat.npi[d] and r["d"] == plat.npi[s])
        for r in plat.nz[1]["rt"])
    out = R.run_check(ctx, plats, chunk=8,
                      nontrivial=declared,
                      rule="graphs = seeded random connected graphs (3..30 nodes, one-hop routes of 1..3 links, "
                           "symmetrical or one per direction), each built as Floyd, Dijkstra, DijkstraCache and Full zone; "
                           "cases = all ordered host pairs (Full: the declared pairs) + self pairs; non-trivial = no "
                           "one-hop route declared between the two hosts; distinct by hash of (platform description, pair)")
    # ---- G: link counts against TLC's minimum, agreement of the three algorithms
    ncmp = 0
    for grp in groups:
        counts = {}
        for pi in grp[:3]:
            o = out[pi]
            plat = plats[pi]
            dist = o["dist"][(o["pnum"], 2)]
            for rec in o["res"]["routes"]:
                if "links" not in rec or rec["s"] == rec["d"]:
                    continue
                ncmp += 1
                m = dist[plat.npi[rec["s"]]][plat.npi[rec["d"]]]
                counts.setdefault((rec["s"], rec["d"]), set()).add(len(rec["links"]))
                if len(rec["links"]) != m:
                    ctx.violation("%s zone: route %s -> %s has %d links, the minimum over the chains of declared routes is %d" % (
                                      plat.meta["kind"], rec["s"], rec["d"], len(rec["links"]), m),
                                  files={"platform.txt": plat.token_text()},
                                  signature="C25:count:%s" % vlib.canon_hash([plat.token_text(), rec["s"], rec["d"]]),
                                  detail=str(rec["links"]))
        for (s, d), c in counts.items():
            if len(c) > 1:
                ctx.violation("Floyd, Dijkstra and DijkstraCache disagree on the link count of %s -> %s: %s" % (s, d, sorted(c)),
                              files={"platform.txt": plats[grp[0]].token_text()},
                              signature="C25:agree:%s" % vlib.canon_hash([plats[grp[0]].token_text(), s, d]))
    ctx.cov["link_counts_compared_with_tlc_minimum"] = ncmp
    ctx.assumptions += ["the minimal link counts come from TLC (ShortestPath!SpDist); the binding to the code is the validation "
                        "of every returned route on the generated graphs",
                        "which minimal chain is returned is left open"]
