"""C26 Structured topologies follow their routing algorithms: see DESIGN.md section 4 (C26), spec/routing/Torus.tla,
FatTree.tla, Dragonfly.tla, Star.tla (+ Hier.tla for the machine).

Shapes: torus (all ordered shapes <= 5 dimensions / 64 nodes in the thorough tier, a seeded sample in the quick tier),
fat-trees (<= 3 levels, <= 64 leaves), dragonflies (<= 3x3x3x3 with at least as many routers per group as groups), flat <cluster>s
loaded from XML (with/without backbone, loopback, limiter; split-duplex / shared links) and Star zones built through the
C++ API; with/without loopback and limiter links, split-duplex or shared links; all node pairs:
  M  HierMC: every behaviour reaches the destination with the closed-form hop count (torus: sum of min(|d|, n - |d|);
     fat-tree: twice the level of the nearest common ancestors; dragonfly: minimal), every link of the topology exists;
  T  HierTrace: the route of Host::route_to, mapped to hops through the link names, is a behaviour of the topology's
     machine; limiter links exactly once per traversed node, loopback links only from a node to itself.
Binding demonstrated (scratch worktree of /repo, quick tier):
  * proposed/fix-C26-dragonfly.diff applied: 10997 routes asked, 10997 accepted, no known finding;
  * m6 TorusZone::get_local_route direction test negated (the longer way round): CAUGHT (exit 1, 5260 routes);
  * m7 TorusZone forgets the limiter link of the receiver: CAUGHT (exit 1, 2110 routes of the shapes with limiters);
  * planned, not run: FatTreeZone goes one level above the nearest common ancestor; StarZone does not remove repeated links."""
import random
import vlib
import routing_common as R

LEVEL = "model_checking"
META = {'text': "For torus shapes (<= 5 dimensions / 64 nodes), fat-trees (<= 3 levels), dragonflies (<= 3x3x3x3), flat <cluster>s loaded from XML and Star zones, with/without loopback and limiter links and split-duplex or shared links, TLC validates the route of Host::route_to for all node pairs, mapped to hops through the link names, as a behaviour of the topology's forwarding machine (spec/routing/Torus.tla: one dimension at a time along a shorter way round; FatTree.tla: up to a nearest common ancestor then down; Dragonfly.tla: node-router-chassis-group minimal routing; Star.tla: up links then down links without repetition; limiters once per traversed node, loopbacks only to oneself) and model-checks the machines (destination reached with the closed-form hop count).", 'note': 'Trusted: TLC, the driver, the mapping of link names to the topology (numbers in the names, order of creation for parallel cables). Quick tier: a fixed core of shapes + a seeded sample; thorough tier: every torus and dragonfly shape of the quantifier, a sample of 250 fat-trees. Ties (direction at equal distance, order of dimensions, parent/cable choice, green/black order) are left open. Routes hit by the two recorded DragonflyZone defects are reported as KNOWN-FINDING.', 'technique': 'TLC model checking of Torus/FatTree/Dragonfly/Star through Hier (HierMC) + TLC trace validation of Host::route_to results (HierTrace)'}
DRIVERS = R.DRIVERS


def run(ctx):
    quick = ctx.quick
    rng = ctx.rng
    plats = []

    def flags():
        return dict(lat=rng.randint(1, 5), split=rng.random() < 0.6, loop=rng.choice([-1, 3]))

    tshapes = R.torus_shapes()
    if quick:
        core = [[2], [3], [4], [5], [6], [7], [2, 2], [3, 3], [2, 3, 2], [2, 2, 2, 2, 2]]
        big = [s for s in tshapes if 30 < __import__("math").prod(s) <= 49]
        tshapes = core + rng.sample([s for s in tshapes if s not in core and __import__("math").prod(s) <= 30], 6) + rng.sample(big, 1)
    for i, dims in enumerate(tshapes):
        p = R.Plat("torus-" + "x".join(map(str, dims)))
        p.cluster("T", "torus", lim=rng.choice([0, 1]), dims=dims, **flags())
        p.meta = {"kind": "torus", "dims": dims}
        plats.append(p)
    fshapes = R.fattree_shapes()
    fcore = [dict(lv=1, down=[2], up=[1], cnt=[1]), dict(lv=2, down=[4, 4], up=[1, 2], cnt=[1, 2]),
             dict(lv=3, down=[2, 2, 2], up=[2, 2, 2], cnt=[1, 1, 2])]
    if quick:
        fshapes = [sh for sh in fshapes if __import__("math").prod(sh["down"]) <= 27]
    for sh in fcore + rng.sample(fshapes, 5 if quick else 250):
        p = R.Plat("fattree-%d-%s-%s-%s" % (sh["lv"], sh["down"], sh["up"], sh["cnt"]))
        p.cluster("F", "fattree", lim=rng.choice([0, 1, 2]), **sh, **flags())
        p.meta = {"kind": "fattree", **sh}
        plats.append(p)
    dshapes = R.dragonfly_shapes()
    if quick:
        dshapes = [dict(g=2, c=2, b=2, n=2), dict(g=3, c=2, b=3, n=1)] + rng.sample(
            [sh for sh in dshapes if sh["g"] * sh["c"] * sh["b"] * sh["n"] <= 36], 5)
    for sh in dshapes:
        p = R.Plat("dragonfly-%(g)dx%(c)dx%(b)dx%(n)d" % sh)
        p.cluster("D", "dragonfly", lim=rng.choice([0, 1, 2]), gl=rng.randint(1, 2), cl=rng.randint(1, 2),
                  bl=rng.randint(1, 2), **sh, **flags())
        p.meta = {"kind": "dragonfly", **sh}
        plats.append(p)
    for p in plats:
        p.pairs = p.all_pairs()
    # flat clusters from XML: every combination of backbone / loopback / limiter / sharing policy
    k = 0
    for bb in (None, 3):
        for loop in (None, 2):
            for lim in (0, 1):
                for policy in ("SPLITDUPLEX", "SHARED"):
                    k += 1
                    plats.append(R.xml_cluster("c%d" % k, rng.randint(2, 5), rng.randint(1, 6), bb, loop, lim, policy))
    # Star zones built through the C++ API (irregular up / down routes, loopbacks, limiters, backbone)
    for i in range(4 if quick else 60):
        r2 = random.Random("C26/star/%d/%s/%d" % (ctx.seed, ctx.tier, i))
        p = R.Plat("star%d" % i)
        R.leaf_zone(p, r2, R.Namer(), "_world_", "star", r2.randint(2, 6))
        p.pairs = p.all_pairs()
        p.meta = {"kind": "star"}
        plats.append(p)
    R.run_check(ctx, plats, chunk=5 if quick else 10, mc_pairs=120 if quick else 1500,
                nontrivial=lambda plat, s, d: s != d,
                rule="shapes = torus / fat-tree / dragonfly shapes (all torus and dragonfly shapes in the thorough tier, a fixed "
                     "core + a seeded sample otherwise) x random flags (loopback, limiter, split-duplex), 16 XML <cluster> "
                     "configurations, seeded Star zones; cases = all ordered node pairs (+ self pairs where a loopback is "
                     "configured); non-trivial = two different nodes; distinct by hash of (platform description, pair)")
    ctx.assumptions += ["which dimension is routed first, which way round at equal distance, which parent / cable of a fat-tree, "
                        "and the order of the green and black hops of a dragonfly are left open",
                        "link names are mapped to the topology through the numbers they contain (and, for parallel cables and "
                        "the groups of green links, the order of creation)",
                        "the exhaustive exploration (M) of the largest shapes is restricted to a sample of the pairs in the quick tier"]
