"""C27 Values with units are parsed to the documented magnitudes (src/xbt/xbt_parse_units.cpp), spec/lib/Units.tla.

G (table oracle): Units.tla holds the documented unit tables as exact multipliers <<m, 10^a, 2^b>>; TLC enumerates
(number format x unit x prefix) and prints the pieces of each literal with its exact expected value, plus a family of
malformed literals that must be rejected; Python renders the literal strings (strings are atomic in TLC) and converts
the exact value to the nearest double; the driver harness/c27drv.cpp calls xbt_parse_get_time/size/bandwidth/speed.
Comparison: relative error <= 4 ulp (strtod, the unit factor built by repeated multiplication and the product each
round once); malformed literals must raise simgrid::ParseError.

Genuine defects found at the pinned commit (KNOWN_FINDINGS.jsonl, proposed/fix-C27-documented-units.diff):
  C27:documented-unit-rejected:(bandwidth|size):K(B|b)(ps)?   XML_reference.rst writes the decimal kilo "K" (KBps, Kbps:
                                 "1 KBps = 1,000 Bps"), the parser only knows "k"
  C27:documented-unit-rejected:speed:zettaflops               simgrid.dtd documents 'zettaflops', the parser builds "zetaflops"

Mutation evidence (tools/mutbuild.sh lib, quick tier, each mutant built and the check run against it):
  caught  binary prefixes multiplied by 1000 instead of 1024 (KiBps == kBps)            -> wrong-magnitude, 20 signatures
  caught  "us" given the factor 1e-9                                                   -> '1us' parsed to 1e-09
  caught  unknown unit silently ignored (return the bare number)                       -> malformed literals accepted
  the proposed fix (proposed/fix-C27-documented-units.diff) applied: the check passes with no known finding left.
"""
import json, os
from fractions import Fraction
import vlib
import lib_common as L

LEVEL = "exploration"
META = {"text": "Table oracle: spec/lib/Units.tla holds the documented unit tables (time, size, bandwidth, speed; decimal and binary prefixes; bits vs bytes) as exact multipliers m*10^a*2^b and TLC enumerates every (number format x unit x prefix) case with its exact expected value plus a family of malformed literals; each case is run through xbt_parse_get_time/size/bandwidth/speed and compared within 4 ulp (worst observed: 1 ulp) or must raise ParseError. Level exploration: the table is covered exhaustively, numbers are a finite sample of each format (91 fixed + seeded random ones), and string rendering / floating-point comparison are outside TLA+.",
        "note": "Trusted: TLC's evaluation of the table, the harness's rendering of literals and its exact-rational to double conversion (Python fractions). Units accepted beyond the documented lists (Z/Y on sizes and bandwidths, K on sizes) may be rejected. Known findings: XML_reference.rst's KBps/Kbps and simgrid.dtd's zettaflops are rejected by the parser.",
        "technique": "TLC enumeration of a TLA+ table specification (G) + driver comparison of doubles"}
DRIVERS = {"c27drv": L.DRIVERS["c27drv"]}
ULPS = 4


def render_number(c):
    ip, fp, fd, ex, st = c["ip"], c["fp"], c["fd"], c["ex"], c["style"]
    frac = ("%0*d" % (fd, fp)) if fd else ""
    if st == "int":
        return "%d" % ip
    if st == "dec":
        return "%d.%s" % (ip, frac)
    if st == "dec_noint":
        return ".%s" % frac
    if st == "dec_nofrac":
        return "%d." % ip
    if st == "exp":
        return "%de%d" % (ip, ex)
    if st == "exp_E":
        return "%dE%d" % (ip, ex)
    if st == "exp_plus":
        return "%de%s%d" % (ip, "+" if ex >= 0 else "", ex)
    if st == "exp_dec":
        return "%d.%se%d" % (ip, frac, ex)
    raise vlib.InfraError("unknown number style " + st)


def exact(e):
    m, a, b = e
    return Fraction(m) * (Fraction(10) ** a) * (Fraction(2) ** b)


def random_numbers(rng, n):
    res = []
    for _ in range(n):
        st = rng.choice(["int", "dec", "dec_noint", "dec_nofrac", "exp", "exp_E", "exp_plus", "exp_dec"])
        fd = rng.randint(1, 4) if st in ("dec", "dec_noint", "exp_dec") else 0
        ip = 0 if st == "dec_noint" else rng.choice([rng.randint(0, 9), rng.randint(0, 30), rng.randint(0, 30000 // (10 ** fd))])
        fp = rng.randrange(10 ** fd) if fd else 0
        ex = rng.randint(-25, 25) if st.startswith("exp") else 0
        res.append({"style": st, "ip": ip, "fp": fp, "fd": fd, "ex": ex})
    return res


def run_cases(ctx, tag, rows):
    """rows: list of (kind, literal). Returns list of (status, value or message)."""
    p = os.path.join(ctx.scratch, tag + ".tsv")
    with open(p, "w") as f:
        for k, lit in rows:
            f.write("%s\t%s\n" % (k, lit))
    rc, out, err = L.run_driver("c27drv", [p], timeout=300)
    lines = out.splitlines()
    if rc != 0 or len(lines) != len(rows):
        raise vlib.InfraError("c27drv failed (rc=%s, %d lines for %d cases)\n%s" % (rc, len(lines), len(rows), err[-1500:]))
    res = []
    for l in lines:
        t = l.split(" ", 2)
        res.append((t[0], float.fromhex(t[1])) if t[0] == "OK" else (t[0], t[1] + " " + (t[2] if len(t) > 2 else "")))
    return res


def run(ctx):
    nums = os.path.join(ctx.scratch, "nums.json")
    json.dump(random_numbers(ctx.rng, 40 if ctx.quick else 600), open(nums, "w"))
    r = vlib.tlc(L.spec("Units.tla"), env={"UNITS_NUMS": nums}, workers=1, timeout=1200)
    L.need_ok(r, "Units.tla")
    ctx.add_tlc(r)
    cases = [x[0] for x in L.tagged_prints(r, "CASE")]
    bad = [x[0] for x in L.tagged_prints(r, "BAD")]
    count = L.tagged_prints(r, "COUNT")
    if not cases or not bad or not count:
        raise vlib.InfraError("Units.tla printed no case\n" + r.out[-2000:])
    ctx.cov["table"] = {"units": count[0][0], "numbers": count[0][1], "malformed": count[0][2]}

    rows = [(c["kind"], render_number(c) + c["prefix"] + c["unit"]) for c in cases]
    res = run_cases(ctx, "good", rows)
    worst = 0.0
    problems = {}
    for c, (kind, lit), (st, v) in zip(cases, rows, res):
        ctx.count([kind, lit], nontrivial=c["unit"] != "" and (c["ip"] or c["fp"]))
        want = exact(c["exp"])
        if st != "OK":
            if c["cls"] == "ext":
                continue                      # beyond the documented lists: rejection is allowed
            sig = "C27:documented-unit-rejected:%s:%s%s" % (kind, c["prefix"], c["unit"]) if c["unit"] else \
                  "C27:unitless-rejected:%s" % kind
            problems.setdefault(sig, []).append((kind, lit, "rejected (%s); documented (%s) as %s = %s" % (v.strip()[:80], c["src"], c["exp"], float(want))))
            continue
        wf = float(want)
        err = abs(Fraction(v) - want)
        tol = ULPS * Fraction(2) ** -52 * abs(want)
        if want != 0:
            worst = max(worst, float(err / abs(want)) * 2 ** 52)
        if err > tol:
            sig = "C27:wrong-magnitude:%s:%s%s" % (kind, c["prefix"], c["unit"])
            problems.setdefault(sig, []).append((kind, lit, "parsed to %r (%s), documented (%s) value %s = %r" % (v, v.hex(), c["src"], c["exp"], wf)))
    ctx.cov["worst_relative_error_ulps"] = round(worst, 3)

    brow = [(m["kind"], m["s1"] + m["s2"] + m["s3"]) for m in bad]
    bres = run_cases(ctx, "bad", brow)
    for m, (kind, lit), (st, v) in zip(bad, brow, bres):
        ctx.count([kind, "malformed", lit], nontrivial=True)
        if st == "OK":
            problems.setdefault("C27:malformed-accepted:%s:%s" % (kind, m["cls"]), []).append((kind, lit, "accepted as %r; a %s literal must be rejected" % (v, m["cls"])))
        elif not v.startswith("parse"):
            problems.setdefault("C27:malformed-other-exception:%s" % kind, []).append((kind, lit, "raised %s instead of ParseError" % v[:100]))
    ctx.cov["malformed_cases"] = len(bad)
    ctx.cov["wellformed_cases"] = len(cases)

    for sig, lst in sorted(problems.items()):
        kind, lit, what = min(lst, key=lambda x: (len(x[1]), x[1]))
        again = run_cases(ctx, "re", [(kind, lit)])[0]          # a rejection is reported only if it reproduces
        ctx.violation("xbt_parse_get_%s(%r): %s" % (kind, lit, what),
                      files={"cases.tsv": "%s\t%s\n" % (kind, lit), "howto.txt": ".build/harness/c27drv cases.tsv\n",
                             "all.json": json.dumps(lst[:50], indent=1)},
                      signature=sig, detail="re-run: %s %s; %d cases with this signature" % (again[0], again[1], len(lst)))
    for c, row in list(zip(cases, rows))[:2] + list(zip(cases, rows))[-2:]:
        ctx.sample({"kind": row[0], "literal": row[1], "expected_exact": c["exp"]})
    ctx.sample({"malformed": brow[0]})
    ctx.cov["exhaustive"] = True
    ctx.cov["rule"] = ("cases = TLC's enumeration of Units.tla: every unit/prefix of the four documented tables (%d entries) x (91 "
                       "built-in numbers in 8 formats + %d seeded random numbers), unit-less values, and %d malformed literals "
                       "(unknown unit, wrong case, empty number, trailing garbage, bad number); non-trivial = non-zero number with a "
                       "unit, and every malformed literal; distinct by (kind, literal)" %
                       (count[0][0], 40 if ctx.quick else 600, count[0][2]))
    ctx.assumptions += ["number-to-string rendering and the exact-rational -> double conversion are done by the harness (strings are "
                        "atomic in TLC, doubles are outside TLA+); tolerance %d ulp" % ULPS,
                        "units accepted beyond the documented lists (Z/Y/Zi/Yi on sizes and bandwidths) may be rejected; if accepted "
                        "they must have the SI/IEC magnitude",
                        "hexadecimal floats, inf/nan, signs and surrounding blanks are left open (not generated)"]
