"""C28 MPI point-to-point matching and non-overtaking -- see DESIGN.md section 4 (C28), spec/mpi/MpiP2P*.tla.

  M  TLC explores every interleaving of posts / matches / completions of every generated MPI program under the
     reference semantics MpiP2P (invariants MatchCompatible, ExactlyOnce, NonOvertakingSends, NonOvertakingRecvs,
     PairwiseOrder, StatusExact; action properties MatchStable, PostOrder) and yields the set of allowed outcomes
     (which message every receive may get, statuses, deadlock).  On-demand firing of matches is compared with the
     plain lazy semantics (MCFULL) on a subset: equal outcome sets.
  T  the real SMPI runs the same programs (harness/mpi_p2p.cpp under smpirun) with the default thresholds and with
     smpi/async-small-thresh / smpi/send-is-detached-thresh lowered so that eager, detached and rendez-vous sends all
     occur with tiny messages; every recorded execution must be a behaviour of MpiP2P (MpiP2P_trace), and its outcome
     must be in TLC's set.
  A rejection is reported only if a second run of the same program is rejected too.  A confirmed rejection that the
  specification accepts under one of its classification-only relaxations (sorder / rorder / trunc: the two-mailbox
  matching of SMPI when smpi/async-small-thresh > 0) gets the signature C28:two-mailboxes:<relaxations> (known
  findings, see KNOWN_FINDINGS.jsonl); anything else is a violation keyed on the program.

Mutation evidence (tools/mutbuild.sh, quick tier): see MUTATIONS at the end of this file.
"""
import json, os
import vlib, drivers
import mpi_p2p_common as M

LEVEL = "model_checking"
META = {"text": 'TLC explores every interleaving of posts, matches and completions of every generated MPI program (2..6 ranks, up to 8 operations per rank: Send/Isend/Ssend/Issend/Bsend/Recv/Irecv/Sendrecv/Probe/Iprobe/Wait/Test/Waitall, ANY_SOURCE/ANY_TAG, world/dup/split communicators, sizes below/at/above the eager and detached thresholds) under the reference semantics MpiP2P, with compatibility, exactly-once, sender-side and receiver-side non-overtaking and exact status as invariants, and yields the set of allowed outcomes; every execution recorded from the real SMPI (default thresholds and lowered ones so that eager, detached and rendez-vous sends all occur) is validated by TLC as a behaviour of that semantics (payload identity, source, tag, count, truncation) and its outcome compared with TLC\'s set. The small-scope family (one sender, two messages, two receives over all tag/wildcard/size-class combinations; two senders; equal tags across communicators) is complete.',
        "note": 'Trusted: TLC; the driver logs call/ret lines in real execution order (one process, sequential scheduler, O_APPEND writes). Conformance holds for the executions run (bounded programs, MPI_BYTE payloads in multiples of 4 bytes); exhaustiveness only for the specification within the stated program sizes. Three deviations of the two-mailbox mode (smpi/async-small-thresh > 0) are recorded as known findings and classified by TLC through explicit relaxations of the specification; the default configuration shows none.',
        "technique": 'TLC model checking of MpiP2P (all interleavings, outcome sets) + TLC trace validation of real smpirun executions (MpiP2P_trace)'}
DRIVERS = {"mpi_p2p": (["mpi_p2p.cpp"], "smpi", [])}


def _budget(p):
    """interleaving measure of a program: product over the ranks of (operations + 1)"""
    x = 1
    for a in p["ranks"]:
        x *= len(a) + 1
    return x


def run(ctx):
    import time
    drivers.register(DRIVERS)
    phase = ctx.cov.setdefault("phase_s", {})
    t_ph = [time.time()]

    def mark(name):
        phase[name] = round(time.time() - t_ph[0], 1)
        t_ph[0] = time.time()
    quick = ctx.quick
    rng = ctx.rng
    cfgs = ["default", "low"] if quick else ["default", "low", "eqlow", "rdv"]

    # ---------------- programs
    progs = list(M.REGRESSION)
    for cfg in cfgs:
        # thorough: the complete enumeration under the lowered thresholds (where the three protocols differ), the
        # reduced one under the other configurations
        progs += M.small_scope(cfg, quick or cfg != "low")
    n_core = len(progs)
    n_paired = 240 if quick else 1500
    n_free = 40 if quick else 300
    mc_cap = 6000 if quick else 60000          # programs above this measure are validated (T) but not explored (M)
    allcfg = list(M.CONFIGS)
    for i in range(n_paired):
        cfg = allcfg[i % len(allcfg)] if not quick else ["default", "low", "low", "eqlow", "rdv"][i % 5]
        big = (i % 6 == 0)
        progs.append(M.gen_paired(rng, cfg, np_=rng.randint(4, 6) if big else rng.randint(2, 4),
                                  max_ops=8 if big else rng.choice([4, 5, 6, 8]),
                                  max_events=10 if big else rng.choice([3, 4, 5, 6])))
    for i in range(n_free):
        progs.append(M.gen_free(rng, ["default", "low", "rdv"][i % 3]))
    seen = set()
    uniq = []
    for p in progs:
        h = vlib.canon_hash(M.spec_prog(p))
        if h not in seen and any(p["ranks"]):
            seen.add(h)
            uniq.append(p)
    progs = uniq
    for p in progs:
        ctx.count(M.spec_prog(p), nontrivial=M.nontrivial(p))
    for p in progs[:1] + progs[n_core - 1:n_core + 1] + progs[-2:]:
        ctx.sample(M.prog_brief(p), limit=6)
    ctx.cov["programs"] = len(progs)
    ctx.cov["programs_small_scope"] = n_core
    ctx.cov["configurations"] = {c: {"async-small-thresh": M.CONFIGS[c][0], "send-is-detached-thresh": M.CONFIGS[c][1]}
                                 for c in sorted({p["cfg"] for p in progs})}
    ctx.cov["ranks_max"] = max(p["np"] for p in progs)
    ctx.cov["ops_per_rank_max"] = max(len(a) for p in progs for a in p["ranks"])
    ctx.cov["programs_with_extra_communicators"] = sum(1 for p in progs if len(p["comms"]) > 1)
    ctx.cov["rule"] = ("programs = small-scope enumeration per threshold configuration (one sender two messages two "
                       "receives over all tag / wildcard / size-class combinations, receives posted first, two senders, "
                       "equal tags on world / dup / split communicators) + %d seeded paired programs (events in one "
                       "global order, wildcards, probes, sendrecv, tests) + %d seeded unconstrained programs; non-trivial = "
                       "a wildcard receive / probe, or two sends that one receive could take; distinct by canonical JSON "
                       "hash of the program including its thresholds" % (n_paired, n_free))

    mark("generate")
    # ---------------- M: exhaustive exploration of the reference semantics
    mc_idx = [i for i, p in enumerate(progs) if _budget(p) <= mc_cap]
    results, outs_part = M.mc_explore(ctx, [progs[i] for i in mc_idx], timeout=900 if quick else 6000,
                                      chunk=None if quick else 1500)
    for r in results:
        ctx.add_tlc(r)
    last = results[-1]
    ctx.cov["mc"] = {"status": last.status, "programs": len(mc_idx), "distinct": sum(r.distinct for r in results),
                     "generated": sum(r.generated for r in results), "diameter": max(r.diameter for r in results),
                     "wall_s": round(sum(r.wall for r in results), 1),
                     "properties": ["P2PInv", "MatchStable", "PostOrder"]}
    if not last.ok:
        raise vlib.InfraError("the specification itself fails on the generated programs (%s %s): fix the spec\n%s" %
                              (last.status, last.what[:200], last.out[-3000:]))
    outs = {i: o for i, o in zip(mc_idx, outs_part)}
    if any(not o for o in outs.values()):
        raise vlib.InfraError("exploration printed no outcome for some program")
    ctx.cov["exhaustive"] = True
    ctx.cov["outcomes_total"] = sum(len(o) for o in outs.values())
    ctx.cov["programs_with_several_outcomes"] = sum(1 for o in outs.values() if len(o) > 1)
    ctx.cov["programs_with_reachable_deadlock"] = sum(1 for o in outs.values() if any(x["end"] == "deadlock" for x in o))
    ctx.cov["programs_not_explored_too_large"] = len(progs) - len(mc_idx)

    mark("mc")
    # on-demand matching (MpiP2P!RelDst) reaches the outcomes of the plain lazy semantics: compared on a subset
    sub = [i for i in mc_idx if _budget(progs[i]) <= 400]
    sub = sub[:150] + sub[-(60 if quick else 400):]
    rs_full, outs_full = M.mc_explore(ctx, [progs[i] for i in sub], timeout=900, tag="mcfull", full=True, coverage=True)
    if not rs_full[-1].ok:
        raise vlib.InfraError("full exploration failed: %s\n%s" % (rs_full[-1].status, rs_full[-1].out[-2000:]))
    for r in rs_full:
        ctx.add_tlc(r)
    canon = lambda os_: sorted(json.dumps(o, sort_keys=True) for o in os_)
    for i, of in zip(sub, outs_full):
        if canon(of) != canon(outs[i]):
            raise vlib.InfraError("on-demand and full exploration disagree on the outcomes of %s" %
                                  json.dumps(M.prog_brief(progs[i])))
    ctx.cov["reduction_crosscheck_programs"] = len(sub)
    ctx.cov["mc_action_coverage"] = {k: v[0] for k, v in rs_full[-1].coverage.items() if k in ("StartSome", "ReturnSome", "Match")}
    if any(v == 0 for v in ctx.cov["mc_action_coverage"].values()) or len(ctx.cov["mc_action_coverage"]) < 3:
        raise vlib.InfraError("an action of MpiP2PMC was never taken: %s" % ctx.cov["mc_action_coverage"])

    mark("mc_full_crosscheck")
    # ---------------- T: the real SMPI
    layouts = ["cyclic", "same", "pairs"]
    jobs = []
    for i, p in enumerate(progs):
        probe_dl = i in outs and any(o["end"] == "deadlock" and o["probe"] for o in outs[i])
        has_probe = any(o["op"] == "probe" for a in p["ranks"] for o in a)
        to = 6 if probe_dl else (10 if has_probe and i not in outs else 40)     # an unsatisfied MPI_Probe polls for ever
        ls = [layouts[(i + ctx.seed) % 3]]
        if not quick and i >= n_core:           # thorough: the seeded programs run under two host layouts
            ls.append(layouts[(i + ctx.seed + 1) % 3])
        for lay in ls:
            jobs.append((len(jobs), p, lay, to, i))
    traces = M.run_many(ctx, jobs)
    ctx.cov["impl_runs"] = len(jobs)
    ends = {}
    for t in traces:
        how = next(r["how"] for r in t if r.get("e") == "end")
        ends[how] = ends.get(how, 0) + 1
    ctx.cov["impl_run_ends"] = ends
    mark("smpi_runs")
    rej = M.validate_traces(ctx, progs, [(j[4], t) for j, t in zip(jobs, traces)])
    mark("trace_validation")

    # a rejection counts only if a second run of the same program (same layout) is rejected too
    confirmed = []
    if rej:
        # (with a longer time-out: on a loaded machine a slow run must not be taken for a hang twice)
        rejobs = [(k, progs[x["prog"]], jobs[x["run"]][2], 5 * jobs[x["run"]][3], x["prog"]) for k, x in enumerate(rej)]
        re_tr = M.run_many(ctx, rejobs, tag="re")
        rej2 = M.validate_traces(ctx, progs, [(j[4], t) for j, t in zip(rejobs, re_tr)], tag="tvre")
        again = {y["run"]: y for y in rej2}
        for k, x in enumerate(rej):
            if k in again:
                confirmed.append((x, re_tr[k], again[k]))
        ctx.cov["unconfirmed_rejections"] = len(rej) - len(confirmed)
    ctx.cov["rejections_confirmed"] = len(confirmed)

    # classification: which relaxation(s) of the two-mailbox kind, if any, explain a confirmed rejection
    labels = {}
    cand = [k for k, (x, t2, y) in enumerate(confirmed) if progs[x["prog"]]["eager"] > 0]
    if cand:
        variants = [("sorder",), ("rorder",), ("trunc",), M.RELAXATIONS]

        def classify(v):
            rj = M.validate_traces(ctx, progs, [(confirmed[k][0]["prog"], confirmed[k][1]) for k in cand],
                                   tag="tvx_" + "_".join(v), relax=v, nchunks=1)
            bad = {y["run"] for y in rj}
            return [k for n, k in enumerate(cand) if n not in bad]
        accepted = vlib.parallel_map(classify, variants, nproc=4)
        ctx.cov["traces_validated_against_impl"] -= 4 * len(cand)     # classification passes are not conformance evidence
        for k in cand:
            singles = [v[0] for v, acc in zip(variants[:3], accepted[:3]) if k in acc]
            if singles:
                labels[k] = singles[0]
            elif k in accepted[3]:
                labels[k] = "+".join(M.RELAXATIONS)
    ctx.cov["rejections_by_class"] = {}
    for k, (x, t2, y) in enumerate(confirmed):
        i = x["prog"]
        p = progs[i]
        if k in labels:
            sig = "C28:two-mailboxes:%s" % labels[k]
        else:
            sig = "C28:%s" % vlib.canon_hash(M.spec_prog(p))
        cls = labels.get(k, "unexplained")
        ctx.cov["rejections_by_class"][cls] = ctx.cov["rejections_by_class"].get(cls, 0) + 1
        ctx.violation("execution of the real SMPI rejected by MpiP2P at record %s: %s" % (json.dumps(y["record"]), y["reason"]),
                      files={"program.json": json.dumps(M.spec_prog(p)), "program.txt": M.prog_to_txt(p),
                             "trace.ndjson": "\n".join(json.dumps(r) for r in t2) + "\n",
                             "howto.txt": "VERIF_MPITRACE=t.ndjson smpirun -np %d -platform small_platform.xml -hostfile <hosts> "
                                          "--cfg=smpi/host-speed:1f %s .build/harness/mpi_p2p program.txt ; validate with "
                                          "spec/mpi/MpiP2P_trace.tla (PROGS=[program.json], TRACE=reset line + t.ndjson, "
                                          "RUNS=[[1,<lines>]])\n" % (p["np"], " ".join(M.smpi_cfg(p)))},
                      signature=sig,
                      detail=json.dumps(M.prog_brief(p)) + "\nfirst record nothing consumes: #%d (layout %s)\n%s" %
                      (y["line"], jobs[x["run"]][2], y["tlc_tail"]))

    mark("confirm_classify")
    # the outcome of every accepted run is one of the outcomes the semantics allows
    bad_prog = {x["prog"] for x in rej}
    n_out = 0
    for j, t in zip(jobs, traces):
        i = j[4]
        if i in bad_prog or i not in outs:
            continue
        io = M.impl_outcome(progs[i], t)
        n_out += 1
        if not M.outcome_allowed(io, outs[i]):
            t2 = M.run_smpi(ctx, 0, progs[i], j[2], 5 * j[3], tag="oc%d_" % i)
            if M.outcome_allowed(M.impl_outcome(progs[i], t2), outs[i]):
                continue
            ctx.violation("outcome of the real run is not among the outcomes MpiP2P allows: end=%s" % io["end"],
                          files={"program.json": json.dumps(M.spec_prog(progs[i])), "program.txt": M.prog_to_txt(progs[i]),
                                 "trace.ndjson": "\n".join(json.dumps(r) for r in t2) + "\n",
                                 "reference_outcomes.json": json.dumps(outs[i], indent=1)},
                          signature="C28:outcome:%s" % vlib.canon_hash(M.spec_prog(progs[i])),
                          detail=json.dumps(M.prog_brief(progs[i])))
    ctx.cov["outcomes_compared"] = n_out
    mark("outcomes")
    ctx.assumptions += [
        "TLC explores the specification, not the code: the binding is the trace validation of the runs made",
        "the driver's call / ret lines are written in real execution order (one process, sequential scheduler, O_APPEND)",
        "matching order among different senders, the answer of MPI_Test / MPI_Iprobe when false, the status of completed "
        "sends and the count / source / tag of a truncated receive are left open, as MPI does",
        "a send below smpi/send-is-detached-thresh completes without a matching receive; at or above it, and for "
        "synchronous sends, only once matched",
        "payload identity is checked for messages of at least 4 bytes; sizes are multiples of 4 bytes"]


# Mutations tried (tools/mutbuild.sh mpi, quick tier, VERIF_REPO/VERIF_BUILD pointing at the scratch tree); every one
# gave exit 1 with VIOLATION lines (20+ each), on top of the known two-mailbox findings:
MUTATIONS = """
M1 smpi_request.cpp match_common: tag filter ignored for user messages ((sender->tag_ >= 0) || equal tags)
   -> caught: receives with a specific tag report the other tag / message id (T rejects the ret line), small-scope family A.
M2 MailboxImpl::find_matching_comm: the newest matching communication is taken instead of the oldest (reverse scan)
   -> caught: second message received first (non-overtaking), also deadlock reports the semantics does not allow.
M3 smpi_request.cpp match_common: communicator ids not compared
   -> caught: messages cross world / dup / split communicators (family C: receive on the other communicator gets it).
Not a mutation but the same mechanism: on the unchanged tree the check found the three two-mailbox deviations
(KNOWN_FINDINGS C28:two-mailboxes:*); with /verif/proposed/fix-C28-trunc-two-mailboxes.diff applied to the scratch tree
the stand-alone reproducer of the `trunc` deviation reports MPI_ERR_TRUNCATE instead of deadlocking.
"""
