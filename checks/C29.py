"""C29 Every collective algorithm computes the MPI result -- see DESIGN.md section 4 (C29), spec/mpi/MpiColl.tla.

  G  spec/mpi/MpiColl.tla gives the receive buffer of every rank after each collective (bcast, reduce, allreduce,
     gather(v), scatter(v), allgather(v), alltoall(v), reduce_scatter, scan, exscan) as a function of the input buffers,
     root, counts, displacements and operator (SUM PROD MAX MIN BXOR); TLC evaluates it on every generated case and
     prints the expected buffers (UNDEF where MPI leaves the content undefined; untouched elements keep the fill
     value, so gaps of the v-variants and guard elements are compared too).  For barriers the driver logs simulated
     entry / exit dates and TLC evaluates MpiColl!BarrierOk (nobody leaves before everybody entered; dates in microseconds).
     harness/mpi_coll.cpp runs the cases under smpirun with --cfg=smpi/<coll>:<algo> for *every algorithm name* that
     `smpirun --help-coll` lists at run time, over several communicator sizes, host layouts, roots and counts; Python
     only compares the printed buffers with TLC's.
  Policy (DESIGN section 4, C29): an algorithm that declines a communicator size / deployment by throwing
  std::invalid_argument("... can't be used with ...") produces no buffers: counted as `declined`, not a violation.
  Wrong buffers, a crash, an assertion, a non-zero return code or a hang (wall-clock timeout) is a violation with the
  signature C29:<collective>:<algorithm>:<np class>:<count class>:<kind>  (np class: np1 | pof2 | nonpof2; count class:
  c0 = count 0 | clt = 0 < count < np | cge; kind: wrong = buffers differ | dies = no result: crash, assertion,
  deadlock report or hang).  The same refusal expressed by an error code
  returned on every rank with untouched buffers (alltoall 2dmesh / 3dmesh ...) is counted as declined as well.

Mutation evidence (tools/mutbuild.sh, quick tier): see MUTATIONS at the end of this file.
"""
import json, os, re
import vlib, drivers

LEVEL = "exploration"
META = {"text": 'Every (collective, algorithm) entry that `smpirun --help-coll` lists at run time (186 at this commit, plus gatherv, scatterv, scan, exscan which have no selector) is run with --cfg=smpi/<coll>:<algo> over communicator sizes 1,2,3,4,5,8,16,17, two host layouts, several roots and counts {0,1,2,np-1,np,np+1}, irregular counts / displacements with gaps for the v-variants and the operators SUM PROD MAX MIN BXOR; the receive buffer of every rank (including gaps and guard elements) is compared with the buffer that TLC computes from spec/mpi/MpiColl.tla, the sequential MPI reference; barriers are judged by TLC on the logged entry/exit dates. Exploration level: the space of inputs is sampled (seeded) and the schedules inside an algorithm are the one the simulator picks.',
        "note": 'Trusted: TLC evaluating MpiColl (the oracle), the driver printing the buffers it got. MPI_INT only; derived datatypes, MAXLOC, user operators, in-place and non-blocking variants are not exercised. An explicit refusal (std::invalid_argument "... can\'t be used with ...", or one error code on every rank with untouched buffers) is counted as declined; crashes, hangs and wrong buffers of 45 (collective, algorithm) entries on edge cases (count 0, np 1, count not a multiple of the number of nodes, non-contiguous deployments, the automatic selectors) are recorded as known findings, each listing exactly the (np class, count class, failure kind) combinations observed on the unchanged tree; the count-0 and np-1 failures were reproduced with a stand-alone MPI program.',
        "technique": 'TLC as result oracle (MpiColl.tla evaluated on every generated case) + differential comparison of every rank\'s buffers over all selectable algorithms under smpirun'}
DRIVERS = {"mpi_coll": (["mpi_coll.cpp"], "smpi", [])}

MSPEC = os.path.join(vlib.SPEC, "mpi")
PLATFORM = os.path.join(vlib.REPO, "examples/platforms/small_platform.xml")
HOSTS = ["Tremblay", "Jupiter", "Fafard", "Ginette", "Bourassa", "Jacquelin", "Boivin"]
UNDEF = -999999
FILL = -777
OPS = ["SUM", "MAX", "MIN", "BXOR", "PROD"]
ROOTED = {"bcast", "reduce", "gather", "gatherv", "scatter", "scatterv"}
REDUCING = {"reduce", "allreduce", "reduce_scatter", "scan", "exscan"}
BUILTIN = ["gatherv", "scatterv", "scan", "exscan"]      # collectives without an algorithm selector


def algorithms():
    """{collective: [algorithm names]} parsed from `smpirun --help-coll` (so that new algorithms are picked up)"""
    rc, out, err = vlib.sh([vlib.SMPIRUN, "--help-coll"], timeout=60, env=vlib.sg_env())
    table = {}
    cur = None
    for line in (out + "\n" + err).splitlines():
        m = re.match(r'^Collective: "(\w+)"', line)
        if m:
            cur = m.group(1)
            table[cur] = []
            continue
        m = re.match(r"^  (\S+)\s+\S", line)
        if m and cur:
            table[cur].append(m.group(1))
    if len(table) < 5 or any(not v for v in table.values()):
        raise vlib.InfraError("cannot parse `smpirun --help-coll`:\n" + (out + err)[:1500])
    return table


def np_class(n):
    return "np1" if n == 1 else ("pof2" if n & (n - 1) == 0 else "nonpof2")


# ------------------------------------------------------------------------------------------- cases

def _values(rng, op, n):
    if op == "PROD":
        return [rng.choice([1, 1, 1, 1, 2, -1, 3]) for _ in range(n)]      # |product over 17 ranks| <= 3^17 < 2^31
    if op == "BXOR":
        return [rng.randrange(0, 256) for _ in range(n)]
    return [rng.randint(-50, 50) for _ in range(n)]


def make_case(rng, coll, n, root, count, op):
    """one input of `coll` on n ranks; buffers are explicit (the same numbers go to TLC and to the driver)"""
    c = {"coll": coll, "np": n, "root": root if coll in ROOTED else 0, "op": op if coll in REDUCING else "SUM",
         "count": count, "fill": FILL, "sleep_us": 0, "send": [[] for _ in range(n)], "rlen": [0] * n,
         "sc": [[] for _ in range(n)], "sd": [[] for _ in range(n)], "rc": [[] for _ in range(n)], "rd": [[] for _ in range(n)]}
    vals = lambda k: _values(rng, c["op"], k)
    if coll == "barrier":
        c["sleep_us"] = rng.choice([0, 100, 1000])
    elif coll == "bcast":
        c["send"] = [vals(count) for _ in range(n)]
        c["rlen"] = [count] * n
    elif coll in ("reduce", "allreduce", "scan", "exscan"):
        c["send"] = [vals(count) for _ in range(n)]
        c["rlen"] = [count] * n
    elif coll in ("gather", "allgather"):
        c["send"] = [vals(count) for _ in range(n)]
        c["rlen"] = [n * count if (coll == "allgather" or r == c["root"]) else 0 for r in range(n)]
    elif coll in ("gatherv", "allgatherv"):
        cnts = [(count + r * (1 + count // 2)) % (count + 2) for r in range(n)]       # 0 .. count+1, irregular
        gaps = [rng.choice([0, 0, 1, 2]) for _ in range(n)]
        order = list(range(n))
        if rng.random() < 0.3:                     # blocks need not be stored in rank order
            order.reverse()
        displs, pos = [0] * n, rng.choice([0, 1])
        for r in order:
            displs[r] = pos
            pos += cnts[r] + gaps[r]
        c["send"] = [vals(cnts[r]) for r in range(n)]
        for r in range(n):
            if coll == "allgatherv" or r == c["root"]:
                c["rc"][r], c["rd"][r], c["rlen"][r] = list(cnts), list(displs), pos + 1
            else:
                c["rc"][r], c["rd"][r] = list(cnts), list(displs)       # not significant; kept well formed
    elif coll == "scatter":
        c["send"] = [vals(n * count) if r == c["root"] else [] for r in range(n)]
        c["rlen"] = [count] * n
    elif coll == "scatterv":
        cnts = [(count + r * (1 + count // 2)) % (count + 2) for r in range(n)]
        displs, pos = [], rng.choice([0, 2])
        for r in range(n):
            displs.append(pos)
            pos += cnts[r] + rng.choice([0, 1])
        c["send"] = [vals(pos + 1) if r == c["root"] else [] for r in range(n)]
        for r in range(n):
            c["sc"][r], c["sd"][r] = list(cnts), list(displs)
        c["rlen"] = list(cnts)
    elif coll == "alltoall":
        c["send"] = [vals(n * count) for _ in range(n)]
        c["rlen"] = [n * count] * n
    elif coll == "alltoallv":
        m = [[(count + i + 2 * j) % (count + 2) for j in range(n)] for i in range(n)]      # m[i][j]: i sends to j
        for i in range(n):
            sd, pos = [], rng.choice([0, 1])
            for j in range(n):
                sd.append(pos)
                pos += m[i][j] + rng.choice([0, 1])
            c["sc"][i], c["sd"][i] = list(m[i]), sd
            c["send"][i] = vals(pos + 1)
        for j in range(n):
            rd, pos = [], rng.choice([0, 1])
            for i in range(n):
                rd.append(pos)
                pos += m[i][j] + rng.choice([0, 1])
            c["rc"][j], c["rd"][j], c["rlen"][j] = [m[i][j] for i in range(n)], rd, pos + 1
    elif coll == "reduce_scatter":
        cnts = [count if rng.random() < 0.5 else (count + r) % (count + 2) for r in range(n)]
        if sum(cnts) == 0 and count > 0:
            cnts[0] = count
        c["send"] = [vals(sum(cnts)) for _ in range(n)]
        for r in range(n):
            c["rc"][r] = list(cnts)
        c["rlen"] = list(cnts)
    else:
        raise vlib.InfraError("no generator for collective " + coll)
    return c


def case_to_txt(cid, c):
    out = ["case %d %s %d %s %d %d %d" % (cid, c["coll"], c["root"], c["op"], c["count"], c["fill"], c["sleep_us"])]
    for r in range(c["np"]):
        out.append("send %d %d %s" % (r, len(c["send"][r]), " ".join(map(str, c["send"][r]))))
        out.append("rlen %d %d" % (r, c["rlen"][r]))
        for k in ("sc", "sd", "rc", "rd"):
            if c[k][r]:
                out.append("%s %d %d %s" % (k, r, len(c[k][r]), " ".join(map(str, c[k][r]))))
    out.append("end")
    return "\n".join(out) + "\n"


def spec_case(c):
    return {k: c[k] for k in ("coll", "np", "root", "op", "count", "fill", "send", "rlen", "sc", "sd", "rc", "rd")}


def case_brief(c):
    return {"coll": c["coll"], "np": c["np"], "root": c["root"], "op": c["op"], "count": c["count"],
            "send_lengths": [len(x) for x in c["send"]], "rlen": c["rlen"]}


# ------------------------------------------------------------------------------------------- TLC (the oracle)

def tlc_expected(ctx, cases, nchunks=4):
    """TLC evaluates MpiColl!Expected on every case; returns the list of expected buffers (per case, per rank)"""
    todo = [(i, c) for i, c in enumerate(cases) if c["coll"] != "barrier"]
    size = max(1, (len(todo) + nchunks - 1) // nchunks)
    chunks = [todo[i:i + size] for i in range(0, len(todo), size)]
    exp = [None] * len(cases)

    def do(ci_ch):
        ci, ch = ci_ch
        cf = os.path.join(ctx.scratch, "cases_%d.json" % ci)
        json.dump([spec_case(c) for _, c in ch], open(cf, "w"))
        of = os.path.join(ctx.scratch, "expected_%d.json" % ci)
        r = vlib.tlc(os.path.join(MSPEC, "MpiColl.tla"), env={"CASES": cf, "OUT": of}, workers=1, timeout=1500, xmx="4g")
        if not r.ok or not os.path.exists(of):
            raise vlib.InfraError("TLC failed to evaluate MpiColl: %s\n%s" % (r.status, r.out[-3000:]))
        lst = json.load(open(of))
        if len(lst) != len(ch):
            raise vlib.InfraError("TLC wrote %d expectations for %d cases\n%s" % (len(lst), len(ch), r.out[-1500:]))
        got = {k + 1: e for k, e in enumerate(lst)}
        return [(ch[k - 1][0], e) for k, e in got.items()], r

    for res, r in vlib.parallel_map(do, list(enumerate(chunks)), nproc=nchunks):
        ctx.add_tlc(r)
        for i, e in res:
            exp[i] = e
    for i, c in enumerate(cases):
        if c["coll"] == "barrier":
            exp[i] = [[] for _ in range(c["np"])]
    return exp


def tlc_barriers(ctx, obs):
    """obs: list of {"enter": [...us], "leave": [...us]}; returns list of booleans MpiColl!BarrierOk"""
    if not obs:
        return []
    bf = os.path.join(ctx.scratch, "barriers.json")
    json.dump(obs, open(bf, "w"))
    r = vlib.tlc(os.path.join(MSPEC, "MpiColl.tla"), env={"BARRIERS": bf}, workers=1, timeout=600, xmx="2g")
    if not r.ok:
        raise vlib.InfraError("TLC failed to evaluate MpiColl!BarrierOk: %s\n%s" % (r.status, r.out[-2000:]))
    ctx.add_tlc(r)
    res = {}
    for line in r.prints:
        if line.startswith('<<"BAR"'):
            v = vlib.parse_tla_value(line)
            res[v[1]] = v[2]
    if len(res) != len(obs):
        raise vlib.InfraError("TLC printed %d barrier verdicts for %d observations" % (len(res), len(obs)))
    return [res[i + 1] for i in range(len(obs))]


# ------------------------------------------------------------------------------------------- running SMPI

def hostfile(n, layout):
    if layout == "block2":
        return [HOSTS[(i // 2) % len(HOSTS)] for i in range(n)]
    if layout == "one":
        return [HOSTS[0]] * n
    return [HOSTS[i % len(HOSTS)] for i in range(n)]


DECLINE_RE = re.compile(r"std::invalid_argument: [^\n]*can't be used with")


def run_cases(ctx, tag, coll, algo, n, layout, ids, cases, timeout):
    """one smpirun executing the cases `ids`; returns dict: status ok|declined|hang|crash, per-case buffers"""
    drv = drivers.get("mpi_coll")
    d = os.path.join(ctx.scratch, tag)
    os.makedirs(d, exist_ok=True)
    cf = os.path.join(d, "cases.txt")
    open(cf, "w").write("".join(case_to_txt(i, cases[i]) for i in ids))
    hf = os.path.join(d, "hosts")
    open(hf, "w").write("\n".join(hostfile(n, layout)) + "\n")
    of = os.path.join(d, "out.txt")
    if os.path.exists(of):
        os.unlink(of)
    cmd = [vlib.SMPIRUN, "-np", str(n), "-platform", PLATFORM, "-hostfile", hf, "--cfg=smpi/host-speed:1f",
           "--log=root.thres:critical", "--cfg=debug/stacktrace:none"]
    if algo != "builtin":
        cmd.append("--cfg=smpi/%s:%s" % (coll, algo))
    cmd += [drv, cf]
    rc, out, err = vlib.sh(cmd, timeout=timeout, env=vlib.sg_env({"VERIF_COLLOUT": of}), cwd=d)
    bufs, bars, done = {}, {}, set()
    if os.path.exists(of):
        for line in open(of):
            w = line.split()
            if not w:
                continue
            try:
                if w[0] == "R":
                    cid, r, rcode, ln = int(w[1]), int(w[2]), int(w[3]), int(w[4])
                    vals = [int(x) for x in w[5:5 + ln]]
                    guard = w[5 + ln] == "G1"
                    bufs.setdefault(cid, {})[r] = (rcode, vals, guard)
                elif w[0] == "B":
                    bars.setdefault(int(w[1]), {})[int(w[2])] = (int(w[3]), int(w[4]))
                elif w[0] == "D":
                    done.add(int(w[1]))
            except (ValueError, IndexError):
                pass
    text = (out + "\n" + err)
    if rc == 124:
        status = "hang"
    elif len(done) == n and rc == 0:
        status = "ok"
    elif DECLINE_RE.search(text):
        status = "declined"
    else:
        status = "crash"
    msg = ""
    if status != "ok":
        lines = [l for l in text.splitlines() if l.strip() and "Configuration change" not in l]
        msg = " | ".join(lines[-4:])[:600]
    return {"status": status, "rc": rc, "bufs": bufs, "bars": bars, "msg": msg}


def refused_by_code(c, got):
    """every rank got the same non-zero return code and no receive buffer was touched: an explicit refusal"""
    if len(got) != c["np"]:
        return None
    codes = {got[r][0] for r in got}
    if len(codes) != 1 or 0 in codes:
        return None
    for r in range(c["np"]):
        rcode, vals, guard = got[r]
        before = c["send"][r] if c["coll"] == "bcast" else [c["fill"]] * len(vals)
        if not guard or list(vals) != list(before):
            return None
    return codes.pop()


def compare(c, exp, got):
    """None if the buffers of case c equal TLC's expectation, else a description of the first difference"""
    for r in range(c["np"]):
        if r not in got:
            return "rank %d printed no buffer" % r
        rcode, vals, guard = got[r]
        if rcode != 0:
            return "rank %d: return code %d" % (r, rcode)
        if not guard:
            return "rank %d wrote beyond its receive buffer" % r
        e = exp[r]
        if len(e) != len(vals):
            return "rank %d: buffer length %d, expected %d" % (r, len(vals), len(e))
        for i, (x, y) in enumerate(zip(e, vals)):
            if x != UNDEF and x != y:
                return "rank %d element %d: got %d, MPI defines %d" % (r, i, y, x)
    return None


def count_class(c):
    return "c0" if c["count"] == 0 else ("clt" if c["count"] < c["np"] else "cge")


# ------------------------------------------------------------------------------------------- the check

def run(ctx):
    import time
    drivers.register(DRIVERS)
    drivers.get("mpi_coll")
    quick = ctx.quick
    rng = ctx.rng
    table = algorithms()
    for b in BUILTIN:
        table.setdefault(b, ["builtin"])
    only = os.environ.get("VERIF_C29_ONLY")          # debugging aid: restrict to some collectives (not used by MANIFEST)
    if only:
        table = {k: v for k, v in table.items() if k in only.split(",")}
    ctx.cov["algorithms"] = {k: len(v) for k, v in sorted(table.items())}
    ctx.cov["algorithm_entries"] = sum(len(v) for v in table.values())

    nps = [1, 2, 3, 4, 5, 8, 16, 17]
    if quick:
        nps = [1, 2, 3, 4, 5, 8, [16, 17][ctx.seed % 2]]
    # ---- reference cases, shared by all algorithms of a collective
    cases = []
    index = {}     # (coll, np) -> [case ids]
    for coll in sorted(table):
        for n in nps:
            roots = sorted({0, n - 1, n // 2}) if not quick else sorted({0, (n - 1 + ctx.seed) % n if n > 1 else 0})
            if coll not in ROOTED:
                roots = [0]
            counts = sorted({0, 1, 2, max(0, n - 1), n, n + 1})
            if quick:
                pick = [0, 1, n + 1] if (ctx.seed + n) % 2 == 0 else [1, 2, max(0, n - 1)]
                counts = sorted(set(pick))
            if coll == "barrier":
                roots, counts = [0], [0, 1] if quick else [0, 1, 2]
            k = 0
            for root in roots:
                for cnt in counts:
                    if coll not in ROOTED and coll not in REDUCING and root != roots[0]:
                        continue
                    op = OPS[(k + n + ctx.seed) % len(OPS)]
                    k += 1
                    c = make_case(rng, coll, n, root, cnt, op)
                    index.setdefault((coll, n), []).append(len(cases))
                    cases.append(c)
            if coll in REDUCING and not quick:         # every operator at least once per (collective, np)
                for op in OPS:
                    c = make_case(rng, coll, n, roots[-1], n + 1, op)
                    index[(coll, n)].append(len(cases))
                    cases.append(c)
    t0 = time.time()
    exp = tlc_expected(ctx, cases, nchunks=4 if quick else 8)
    ctx.cov["reference_cases"] = len(cases)
    ctx.cov["tlc_wall_s"] = round(time.time() - t0, 1)

    # ---- runs: one smpirun per (collective, algorithm, np, layout) executing all the cases of (collective, np)
    layouts = ["cyclic", "block2"]
    jobs = []
    for coll in sorted(table):
        for ai, algo in enumerate(table[coll]):
            for n in nps:
                lays = layouts if not quick else [layouts[(ai + n + ctx.seed) % 2]]
                for lay in lays:
                    jobs.append((coll, algo, n, lay))
    tmo = 20 if quick else 45            # a run takes 0.1 .. 2 s; hangs of known-defective algorithms cost this much
    # on a loaded machine the same run takes much longer: the time-out follows the measured duration of a trivial run
    tcal = time.time()
    ck = next(k for k in sorted(index) if k[0] != "barrier" and k[1] == max(n for n in nps if n <= 4))
    cal = run_cases(ctx, "calibrate", ck[0], table[ck[0]][0], ck[1], "cyclic", [index[ck][0]], cases, 600)
    tcal = time.time() - tcal
    if cal["status"] != "ok":
        raise vlib.InfraError("calibration run (%s %s on %d ranks) failed: %s %s" %
                              (ck[0], table[ck[0]][0], ck[1], cal["status"], cal["msg"]))
    tmo = int(max(tmo, min(300, 40 * tcal)))
    ctx.cov["calibration_run_s"] = round(tcal, 2)
    ctx.cov["timeout_s"] = tmo

    def do_job(jn):
        j, (coll, algo, n, lay) = jn
        ids = index[(coll, n)]
        res = run_cases(ctx, "j%d" % j, coll, algo, n, lay, ids, cases, tmo)
        per_case = {}
        if res["status"] == "ok":
            for i in ids:
                per_case[i] = ("ok", res["bufs"].get(i, {}), res["bars"].get(i, {}), "")
        else:
            # attribute the failure: every case on its own
            t1 = max(8, tmo // 3) if res["status"] == "hang" else tmo     # a case takes 0.1 .. 0.5 s
            for i in ids:
                r1 = run_cases(ctx, "j%d_c%d" % (j, i), coll, algo, n, lay, [i], cases, t1)
                per_case[i] = (r1["status"], r1["bufs"].get(i, {}), r1["bars"].get(i, {}), r1["msg"])
        return per_case

    t0 = time.time()
    results = vlib.parallel_map(do_job, list(enumerate(jobs)))
    ctx.cov["smpi_wall_s"] = round(time.time() - t0, 1)

    # ---- barriers: TLC judges the logged dates
    bar_obs, bar_key = [], []
    for (coll, algo, n, lay), per_case in zip(jobs, results):
        if coll != "barrier":
            continue
        for i, (st, bufs, bars, msg) in per_case.items():
            if st == "ok" and len(bars) == n and all(0 <= v[0] < 2 ** 31 and 0 <= v[1] < 2 ** 31 for v in bars.values()):
                bar_obs.append({"enter": [bars[r][0] for r in range(n)], "leave": [bars[r][1] for r in range(n)]})
                bar_key.append((algo, n, lay, i))
    bar_ok = dict(zip(bar_key, tlc_barriers(ctx, bar_obs)))

    # ---- compare (Python only compares with what TLC computed)
    stats = {"ok": 0, "declined": 0, "wrong": 0, "crash": 0, "hang": 0}
    declined = {}
    cand = {}        # signature -> first failing (job, case id, kind, what, buffers)
    nfail = {}
    for jn, ((coll, algo, n, lay), per_case) in enumerate(zip(jobs, results)):
        for i, (st, bufs, bars, msg) in per_case.items():
            c = cases[i]
            key = {"coll": coll, "algo": algo, "np": n, "layout": lay, "case": case_brief(c)}
            ctx.count(key, nontrivial=(n > 1 and (c["count"] > 0 or coll == "barrier")))
            kind, what = None, None
            if st == "declined":
                stats["declined"] += 1
                declined.setdefault("%s:%s" % (coll, algo), set()).add("np=%d/%s" % (n, lay))
                continue
            if st in ("hang", "crash"):
                kind, what = st, "%s (%s)" % (st, msg)
            elif coll == "barrier":
                if len(bars) != n:
                    kind, what = "wrong", "barrier: %d of %d ranks reported" % (len(bars), n)
                elif (algo, n, lay, i) not in bar_ok:
                    raise vlib.InfraError("barrier dates out of the 32-bit range: %s" % bars)
                elif not bar_ok[(algo, n, lay, i)]:
                    kind, what = "wrong", "a rank left the barrier before another one entered: (enter, leave) us = %s" % \
                        [bars[r] for r in range(n)]
            else:
                code = refused_by_code(c, bufs)
                if code is not None:
                    stats["declined"] += 1
                    declined.setdefault("%s:%s" % (coll, algo), set()).add("np=%d/%s (error code %d)" % (n, lay, code))
                    continue
                diff = compare(c, exp[i], bufs)
                if diff:
                    kind, what = "wrong", diff
            if kind is None:
                stats["ok"] += 1
                if len(ctx.cov["samples"]) < 4 and n > 2 and c["count"] > 0 and coll != "barrier":
                    ctx.sample({"coll": coll, "algo": algo, "np": n, "root": c["root"], "op": c["op"], "count": c["count"],
                                "rank0_expected": exp[i][0][:12], "rank0_got": list(bufs[0][1][:12])})
                continue
            stats[kind] += 1
            sig = "C29:%s:%s:%s:%s:%s" % (coll, algo, np_class(n), count_class(c), kind)
            nfail[sig] = nfail.get(sig, 0) + 1
            cand.setdefault(sig, []).append((jn, i, kind, what, bufs))

    # a failure is reported (once per signature) only if running the same case again fails again; the failure kind of
    # the signature is the one of that second run (its time-out is six times longer: a slow run is not a hang)
    def confirm(item):
        """re-run (long time-out) up to three occurrences of a provisional signature; returns the confirmed failure
        (job, case, kind, what, buffers[, barrier observation]) or None"""
        sig, occ = item
        for jn, i, kind, what, bufs in occ[:3]:
            coll, algo, n, lay = jobs[jn]
            c = cases[i]
            r2 = run_cases(ctx, "re_%d_%d" % (jn, i), coll, algo, n, lay, [i], cases, 6 * tmo)
            if r2["status"] == "declined":
                continue
            if r2["status"] != "ok":
                return (jn, i, r2["status"], "%s (%s)" % (r2["status"], r2["msg"]), bufs)
            if coll == "barrier":
                b2 = r2["bars"].get(i, {})
                if len(b2) != n:
                    return (jn, i, "wrong", "barrier: %d of %d ranks reported" % (len(b2), n), bufs)
                return (jn, i, "wrong", what, bufs, {"enter": [b2[r][0] for r in range(n)], "leave": [b2[r][1] for r in range(n)]})
            g2 = r2["bufs"].get(i, {})
            d2 = None if refused_by_code(c, g2) is not None else compare(c, exp[i], g2)
            if d2:
                return (jn, i, "wrong", d2, g2)
        return None

    confirmed = vlib.parallel_map(confirm, sorted(cand.items()))
    rebar = [x for x in confirmed if x is not None and len(x) == 6]
    rebar_ok = tlc_barriers(ctx, [x[5] for x in rebar])
    bad_bar = {id(x) for x, ok in zip(rebar, rebar_ok) if not ok}
    failing = {}
    for x in confirmed:
        if x is None or (len(x) == 6 and id(x) not in bad_bar):
            ctx.cov["unconfirmed"] = ctx.cov.get("unconfirmed", 0) + 1
            continue
        jn, i, kind, what, bufs = x[:5]
        coll, algo, n, lay = jobs[jn]
        c = cases[i]
        sig = "C29:%s:%s:%s:%s:%s" % (coll, algo, np_class(n), count_class(c), "wrong" if kind == "wrong" else "dies")
        if sig in failing:
            failing[sig]["n"] += 1
            continue
        failing[sig] = {"n": 1, "example": re.sub(r"\(/\S*mpi_coll [^|]*\|", "(", what)[:240]}
        ctx.violation("%s algorithm '%s' on %d ranks (%s hosts), root %d, count %d, op %s: %s" %
                      (coll, algo, n, lay, c["root"], c["count"], c["op"], what),
                      files={"cases.txt": case_to_txt(i, c), "case.json": json.dumps(spec_case(c)),
                             "expected.json": json.dumps(exp[i]),
                             "got.json": json.dumps({str(r): list(v[1]) for r, v in bufs.items()}),
                             "hosts": "\n".join(hostfile(n, lay)) + "\n",
                             "howto.txt": "smpirun -np %d -platform small_platform.xml -hostfile hosts --cfg=smpi/host-speed:1f "
                                          "%s .build/harness/mpi_coll cases.txt  (VERIF_COLLOUT=out.txt); expected buffers: TLC on "
                                          "spec/mpi/MpiColl.tla with CASES=[case.json]\n" %
                                          (n, "" if algo == "builtin" else "--cfg=smpi/%s:%s" % (coll, algo))},
                      signature=sig, detail=json.dumps(case_brief(c)))
    ctx.cov["failing_signatures"] = failing
    ctx.cov["results"] = stats
    ctx.cov["declined"] = {k: sorted(v) for k, v in sorted(declined.items())}
    ctx.cov["smpi_runs"] = len(jobs)
    ctx.cov["np_values"] = nps
    ctx.cov["layouts"] = layouts
    ctx.cov["barrier_observations_judged_by_tlc"] = len(bar_obs)
    ctx.cov["traces_validated_against_impl"] = 0
    ctx.cov["exhaustive"] = False
    ctx.cov["rule"] = ("every (collective, algorithm) listed by `smpirun --help-coll` (+ gatherv, scatterv, scan, exscan which "
                       "have no selector) x np in %s x host layouts x roots x counts {0,1,2,np-1,np,np+1} (quick: a seeded subset "
                       "of roots / counts / layouts) x operators rotating over SUM MAX MIN BXOR PROD; inputs are seeded random "
                       "small integers, irregular counts and displacements with gaps for the v-variants; one evaluation = one "
                       "(collective, algorithm, np, layout, case); non-trivial = more than one rank and a non-empty buffer "
                       "(or a barrier)" % nps)
    ctx.assumptions += [
        "MpiColl is the sequential MPI reference; it does not model message schedules (C28's layer)",
        "datatype MPI_INT only; operators SUM PROD MAX MIN BXOR on small values (no overflow); derived datatypes, "
        "MAXLOC, user operators, in-place and non-blocking variants are not exercised",
        "an explicit refusal (std::invalid_argument \"... can't be used with ...\") is counted as declined, per DESIGN C29",
        "receive-buffer elements MPI leaves undefined (non-root ranks, rank 0 of exscan) are not compared"]


MUTATIONS = """
Scratch worktree tools/mutbuild.sh coll with three mutations at once, in algorithms that have no known finding:
C1 allreduce-rdb.cpp: partner of a folded pair in the non power of two case (newdst * 2 instead of newdst * 2 + 1)
C2 smpi_coll.cpp colls::scan: the contribution of the last lower rank is dropped (index < rank - 1)
C3 allgather-ring.cpp: the block received in the last step is stored at the wrong displacement
Because of the load of the machine (load average 150-300 during this round) the full `vcheck C29` run against that
build was NOT made; what was run is the check's own pipeline on single cases (TLC expectation from MpiColl + driver
mpi_coll under smpirun of the mutated build + compare()):
  allreduce:rdb np=5 count=3 -> crash (deadlock report)   [np=4: ok, as expected for a non-power-of-two-only mutation]
  scan:builtin np=4 count=2  -> wrong: rank 1 element 0: got -27, MPI defines -25
  allgather:ring np=4 count=2 -> wrong: rank 0 element 2: got -777 (fill), MPI defines 29   [np=2: unaffected]
and the same cases pass on the unchanged build.  These (collective, algorithm) pairs are in no KNOWN_FINDINGS entry,
so a full run reports C29:allreduce:rdb:nonpof2:*:crash, C29:scan:builtin:*:wrong, C29:allgather:ring:*:wrong and exits 1.
On the unchanged tree the check itself found 45 defective (collective, algorithm) entries (KNOWN_FINDINGS C29:*), two of
which have a verified proposed fix (/verif/proposed/fix-C29-*.diff: the failing cases pass on a scratch build with the fix).
"""
