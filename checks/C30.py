"""C30 Derived datatypes have MPI layout and transfer exactly their bytes.

G: TLC evaluates spec/mpi/MpiType.tla through MpiTypeGen.tla: datatype trees (contiguous, vector, hvector, indexed, hindexed, indexed_block,
struct, resized, subarray; up to 3 constructor levels over BYTE/SHORT/INT/DOUBLE; non-negative displacements) are printed node by node with the size,
lower bound and upper bound of EVERY node and, for counts 1..MaxCount, the byte displacements (in type-map order) that a communication of that many
elements of the root type selects.  Exhaustive small scope = every tree of the constructor menus of MpiTypeGen (25 parameterisations per
constructor level over SHORT and INT, 2 levels; a third level with a reduced menu in the thorough tier) + seeded -simulate random trees.
M: TypeLaws (size = number of selected bytes, equivalences contiguous = vector(.,1,1), vector = hvector, indexed = hindexed = struct of one type,
indexed_block = indexed, bounds = true bounds when no resized/subarray is involved, replication laws) are invariants evaluated by TLC on every tree.
The driver builds the same tree with the MPI_Type_* calls on 3 ranks, prints MPI_Type_size / MPI_Type_get_extent of every node, then, for every count
0..MaxCount, moves a patterned buffer through MPI_Send/MPI_Recv, MPI_Sendrecv, MPI_Pack, MPI_Unpack, typed send -> MPI_BYTE receive, MPI_BYTE send ->
typed receive and MPI_Bcast, and prints which destination bytes changed and which source byte each of them now holds.  Python compares with the
bytes TLC printed: layout first (the innermost node whose size/lb/extent deviates is the culprit; nodes above it and the transfers of that tree are
not judged separately), then every (count, mode, rank) transfer.

Mutation evidence (tools/mutbuild.sh worktree, quick tier, one mutation at a time; all gave exit 1 with a VIOLATION line):
  * create_vector: ub forgets the block length (ub = (count-1)*stride*extent + ub(old))        -> caught, C30:layout:vector:* (414 trees)
  * Type_Hindexed::serialize takes block_indices_[i] instead of [i+1] for the next block        -> caught, C30:transfer:count1:regular:<constructor> (522 trees;
    none of them is absorbed by the known element-stepping finding: the labels of that finding are computed from the inputs, not from the symptom)
  * Type_Contiguous::serialize ignores lb (contiguous collapse of an indexed/struct type)       -> caught, C30:transfer:count1:regular:<constructor> (107 trees)
  Fix validation: with the three proposed C30 diffs applied (indexed/struct bounds, subarray extent, serialize element stride) the check exits 0 with no
  KNOWN-FINDING line: every layout and every transfer of every generated tree then agrees with TLC.
  Known weakness: of the trees labelled "irregular element" (inputs of the known stepping defect) about 30% transfer correctly today; a new defect that only
  affected those trees at count >= 2 would be reported under the known signature (the label is an over-approximation of the defect's inputs).
"""
import json
import vlib
import mpi_algebra_common as A

LEVEL = "exploration"
META = {"text": "TLC evaluates the type-map semantics of MPI-3.1 chapter 4 (spec/mpi/MpiType.tla: contiguous, vector, hvector, indexed, hindexed, indexed_block, struct, resized, subarray; lb/ub/extent/size and the selected bytes) on every tree of an exhaustive constructor menu (2 levels in the quick tier, 3 in the thorough tier, over SHORT and INT) and on seeded random trees of up to 3 levels; SMPI builds the same trees on 3 ranks and the size/lb/extent of every node and the destination bytes of counts 0..3 (quick) / 0..5 (thorough) through send/recv, sendrecv, pack, unpack, typed<->byte transfers and bcast are compared with TLC's values. Exploration level: the trees run are a bounded sample of an unbounded input space; within the menus the enumeration is complete.",
        "note": "Trusted: TLC and the reading of MPI-3.1 written in MpiType.tla (its laws are checked by TLC on every tree); the driver's byte patterns (a written byte is recognised by its value). Alignment padding epsilon is taken as 0. Four genuine defects are recorded as known findings with proposed fixes (indexed/struct bounds over an old type with lb != 0; subarray extent and 1-D start offset; element stride of serialize/unserialize for count >= 2); the labels of the stepping finding are computed from the inputs and over-approximate them by about 30%, see the module docstring.",
        "technique": "TLC as case and oracle generator (exhaustive small scope + -simulate) for MpiType, replay into SMPI through harness/mpi_algebra.cpp, comparison in Python"}
DRIVERS = A.DRIVERS
KIND = {"basic": 0, "contig": 1, "vector": 2, "hvector": 3, "indexed": 4, "hindexed": 5, "iblock": 6, "struct": 7, "resized": 8, "subarray": 9}
SAME = ("sr", "xr", "bc")          # destination offset = source offset
PACKS = ("pk", "tb")               # typed source -> contiguous destination
UNPACKS = ("up", "bt")             # contiguous source -> typed destination
WHO = {"sr": (1,), "xr": (0, 1), "pk": (0, 1, 2), "up": (0, 1, 2), "tb": (1,), "bt": (0,), "bc": (1, 2)}


def tokens_of(c):
    t = [len(c["nodes"])]
    for n in c["nodes"]:
        t += [KIND[n["k"]], len(n["p"])] + n["p"] + [len(n["ch"])] + [x - 1 for x in n["ch"]]
    mc = len(c["bytes"])
    span = max([max(b) + 1 for b in c["bytes"] if b] + [c["lb"] + mc * c["ext"], 8]) + 64
    t += [mc, span]
    return "type " + " ".join(str(x) for x in t)


def np_of(c):
    return 3


def describe(c, k=None):
    """the tree (or the subtree rooted at node k, 0-based) as text"""
    nodes = c["nodes"]
    k = len(nodes) - 1 if k is None else k
    n = nodes[k]
    if n["k"] == "basic":
        return n["name"]
    return "%s(%s; %s)" % (n["k"], ",".join(str(x) for x in n["p"]), ", ".join(describe(c, j - 1) for j in n["ch"]))


def expected_pairs(c, cnt, mode):
    b = c["bytes"][cnt - 1] if cnt >= 1 else []
    if mode in SAME:
        pairs = [(o, o) for o in b]
    elif mode in PACKS:
        pairs = [(k, o) for k, o in enumerate(b)]
    else:
        pairs = [(o, k) for k, o in enumerate(b)]
    pairs.sort()
    return [x for p in pairs for x in p]


def layout_culprit(c, lay):
    """first node (post-order) whose size / lb / extent deviates; -> (index, fields) or None"""
    for k, (exp, got) in enumerate(zip(c["lay"], lay)):
        e = (exp[0], exp[1], exp[2] - exp[1])      # exp = [size, lb, ub, first entry, end of last entry]
        g = (got[0], got[1], got[2])
        if e != g:
            f = [name for name, a, b in zip(("size", "lb", "extent"), e, g) if a != b]
            return k, f, e, g
    return None


def node_class(c, k):
    """class of the inputs of node k: does a direct child have a non-zero lower bound / an extent different from its size"""
    n = c["nodes"][k]
    kids = [j - 1 for j in n["ch"]]
    lbnz = any(c["lay"][j][1] != 0 for j in kids)
    padded = any(c["lay"][j][2] - c["lay"][j][1] != c["lay"][j][0] for j in kids)
    return ("old-lb-nonzero" if lbnz else "old-extent-differs-from-size" if padded else "old-dense")


def _kids(c, k):
    return [j - 1 for j in c["nodes"][k]["ch"]]


def _blocklens(n):
    k, p = n["k"], n["p"]
    if k in ("vector", "hvector"):
        return [p[1]]
    if k in ("indexed", "hindexed", "struct"):
        return p[1:1 + p[0]]
    if k == "iblock":
        return [p[1]]
    return [1]


def irregular(c, k=None):
    """Label of the inputs of the known element-stepping defect: would REPLICATING the type of node k (count >= 2, or a block length
    >= 2 above it) go wrong in an implementation that resumes the next element where the data of the previous one ended instead of one
    extent further?  True when: non-zero lb, first type-map entry not at displacement 0, last type-map entry not ending at ub, a derived
    child whose size differs from its extent under contiguous/vector, an irregular derived child, or a subarray.  Labelling only: the
    verdict always comes from the comparison with TLC's bytes; a deviation on a tree labelled regular is never a known finding."""
    k = len(c["nodes"]) - 1 if k is None else k
    n, lay = c["nodes"][k], c["lay"][k]
    size, lb, ub, first, lastend = lay
    if n["k"] == "basic":
        return False
    if n["k"] == "subarray":
        return True
    kids = _kids(c, k)
    derived = [j for j in kids if c["nodes"][j]["k"] != "basic"]
    if n["k"] == "resized":
        return lb != 0 or any(irregular(c, j) for j in derived)
    if lb != 0 or first != 0 or lastend != ub:
        return True
    for j in derived:
        cs, clb, cub = c["lay"][j][0], c["lay"][j][1], c["lay"][j][2]
        if irregular(c, j) or (n["k"] in ("contig", "vector", "hvector") and cs != cub - clb):
            return True
    return False


def count1_irregular(c, k=None):
    """Same labelling for a single element of node k: some node below replicates (block length >= 2) an irregular derived child."""
    k = len(c["nodes"]) - 1 if k is None else k
    n = c["nodes"][k]
    if n["k"] == "basic":
        return False
    kids = _kids(c, k)
    bls = _blocklens(n)
    for i, j in enumerate(kids):
        if c["nodes"][j]["k"] == "basic":
            continue
        bl = bls[i] if n["k"] == "struct" else max(bls)
        if count1_irregular(c, j) or (bl >= 2 and irregular(c, j)) or (n["k"] == "subarray" and irregular(c, j) and len(set(c["bytes"][0])) > c["lay"][j][0]):
            return True
    return False


def judge(c, res):
    out = []
    tree = describe(c)
    nn = len(c["nodes"])
    if res["crash"]:
        return [("C30:crash:%s" % c["root"], "SMPI died (%s, stage %s) on %s" % (res["crash"]["how"], res["crash"]["stage"], tree), json.dumps(res["crash"]))]
    culprit = None
    for r in range(3):
        recs = [x for x in res["ranks"].get(r, []) if "end" not in x]
        s1 = [x for x in recs if x.get("st") == 1]
        if len(s1) != 1:
            out.append(("C30:output", "rank %d printed %d layout records for %s" % (r, len(s1), tree), None))
            continue
        s1 = s1[0]
        bad = [k for k, e in enumerate(s1["errs"]) if e]
        if bad:
            k = bad[0]
            out.append(("C30:create:%s:%s:error" % (c["nodes"][k]["k"], node_class(c, k)), "rank %d: MPI_Type_%s failed (code %s) for %s" %
                        (r, c["nodes"][k]["k"], s1["errs"][k], describe(c, k)), None))
            culprit = culprit if culprit is not None else -1
            continue
        cu = layout_culprit(c, s1["lay"])
        if cu:
            k, f, e, g = cu
            culprit = k if culprit is None else min(culprit, k)
            out.append(("C30:layout:%s:%s:%s" % (c["nodes"][k]["k"], node_class(c, k), "+".join(f)),
                        "rank %d: %s has size/lb/extent %s, the specification says %s (inside %s)" % (r, describe(c, k), list(g), list(e), tree), None))
    # an inner node deviates: the type map of the root is built on wrong numbers, its transfers are not judged separately;
    # only the bounds of the ROOT deviate (size right): one element is still placed by the type map alone, counts 0 and 1 are judged
    if culprit is not None and (culprit != nn - 1 or any("size" in s.split(":")[-1] for s, _, _ in out)):
        return out
    maxjudged = 1 if culprit is not None else len(c["bytes"])
    fails = {}
    seen = set()
    for r in range(3):
        for x in res["ranks"].get(r, []):
            if x.get("st") != 2:
                continue
            key = (r, x["cnt"], x["mode"])
            seen.add(key)
            if x["cnt"] > maxjudged:
                continue
            if "err" in x:
                fails.setdefault(("error", x["mode"], x["cnt"]), []).append("rank %d: error %s" % (r, x["err"]))
                continue
            exp = expected_pairs(c, x["cnt"], x["mode"])
            if x.get("pairs") != exp:
                got = x.get("pairs") or []
                gd = dict(zip(got[0::2], got[1::2]))
                ed = dict(zip(exp[0::2], exp[1::2]))
                extra = sorted(set(gd) - set(ed))
                missing = sorted(set(ed) - set(gd))
                wrong = sorted(d for d in set(gd) & set(ed) if gd[d] != ed[d])
                kind = "untouched-bytes-written" if extra else "selected-bytes-not-written" if missing else "wrong-source-byte"
                fails.setdefault((kind, x["mode"], x["cnt"]), []).append(
                    "rank %d: %d byte(s) written outside the selection %s, %d selected byte(s) not written %s, %d with the wrong source %s" %
                    (r, len(extra), extra[:6], len(missing), missing[:6], len(wrong), [(d, gd[d], ed[d]) for d in wrong[:4]]))
    for cnt in range(maxjudged + 1):
        for mode, who in WHO.items():
            for r in who:
                if (r, cnt, mode) not in seen:
                    fails.setdefault(("missing", mode, cnt), []).append("rank %d printed nothing" % r)
    if fails:
        cnts = sorted({k[2] for k in fails})
        modes = sorted({k[1] for k in fails})
        kinds = sorted({k[0] for k in fails})
        if min(cnts) == 0:
            sig = "C30:transfer:count0:%s" % c["root"]
        elif min(cnts) == 1:
            root = c["nodes"][-1]
            one_d = root["k"] == "subarray" and root["p"][0] == 1 and c["nodes"][root["ch"][0] - 1]["k"] != "basic"
            sig = "C30:transfer:count1:%s" % ("irregular-nested-element" if count1_irregular(c) else
                                              "regular:" + c["root"] + (":1d-of-derived" if one_d else ""))
        else:
            sig = "C30:transfer:count>=2-only:%s" % ("irregular-element" if irregular(c) else "regular:" + c["root"])
        k0 = sorted(fails)[0]
        out.append((sig, "%s: transfers deviate for counts %s, modes %s (%s); e.g. count %d mode %s: %s" %
                    (tree, cnts, modes, ",".join(kinds), k0[2], k0[1], fails[k0][0]), json.dumps({str(k): v for k, v in fails.items()}, indent=0)[:4000]))
    return out


def nontrivial(c):
    return c["height"] >= 1 and (c["lb"] != 0 or c["ext"] != c["size"] or c["height"] >= 2)


def run(ctx):
    quick = ctx.quick
    maxcount = 3 if quick else 5
    jobs = []
    base = {"Depth": 3, "Level": 2, "MaxCount": maxcount, "MaxSpan": 4000, "NSlices": 1, "Slice": 0}
    nsl = 6 if quick else 12
    for s in range(nsl):
        const = dict(base, NSlices=nsl, Slice=s, Level=2 if quick else 3)
        jobs.append({"cfg": A.write_cfg(ctx, "t_small%d.cfg" % s, "SpecSmall", const), "tag": "small level %d slice %d/%d" % (const["Level"], s, nsl)})
    nsim, depth = (4, 120) if quick else (12, 1500)
    cfg = A.write_cfg(ctx, "t_sim.cfg", "SpecSim", base)
    for j in range(nsim):
        jobs.append({"cfg": cfg, "simulate": (depth, ctx.seed * 1000 + j + 1), "tag": "sim %d" % j})
    rep = A.Reporter(ctx, tokens_of, np_of, judge)
    dd = A.Dedup()
    roots, heights = {}, {}
    tot = {"cases": 0, "ntr": 0, "tainted": 0}
    lab = {"irregular_and_deviating": 0, "irregular_but_agreeing": 0, "regular_and_agreeing": 0}

    def process(cases):
        cases = [c for c in cases if dd.fresh(c["nodes"])]
        results = A.run_all(ctx, cases, tokens_of, np_of, chunk=25, timeout=300)
        with A._lock:
            for c in cases:
                ctx.count(c["nodes"], nontrivial=nontrivial(c))
                roots[c["root"]] = roots.get(c["root"], 0) + 1
                heights[str(c["height"])] = heights.get(str(c["height"]), 0) + 1
                tot["cases"] += 1
            for c in cases[:1] + cases[-1:]:
                ctx.sample({"tree": describe(c), "size": c["size"], "lb": c["lb"], "ub": c["ub"], "bytes_count1": c["bytes"][0][:40]}, limit=6)
        for c in cases:
            js = judge(c, results[c["id"]])
            with A._lock:
                if any(s_.startswith("C30:layout") or s_.startswith("C30:create") for s_, _, _ in js):
                    tot["tainted"] += 1
                else:
                    tot["ntr"] += (maxcount + 1) * sum(len(v) for v in WHO.values())
                    dev = any(s_.startswith("C30:transfer") for s_, _, _ in js)
                    irr = irregular(c) or count1_irregular(c)
                    if dev and irr:
                        lab["irregular_and_deviating"] += 1
                    elif not dev:
                        lab["irregular_but_agreeing" if irr else "regular_and_agreeing"] += 1
            for sig, what, detail in js:
                rep.add(c, sig, what, detail)

    A.pipeline(ctx, "MpiTypeGen.tla", jobs, process, par=len(jobs) if quick else 8, timeout=1700)
    ctx.cov["trees_by_root_constructor"] = roots
    ctx.cov["trees_by_height"] = heights
    ctx.cov["counts"] = list(range(maxcount + 1))
    ctx.cov["transfer_modes"] = ["send/recv", "sendrecv", "pack", "unpack", "typed send -> byte recv", "byte send -> typed recv", "bcast"]
    ctx.cov["exhaustive"] = True
    ctx.cov["rule"] = ("trees and expected layouts/bytes printed by TLC from MpiTypeGen: every tree of the constructor menus (levels 1..%d, exhaustive) + %d seeded "
                       "-simulate behaviours of %d random trees of up to 3 levels (seed %d); each tree is built on 3 ranks, every node's size/lb/extent compared, "
                       "and counts 0..%d moved through 7 transfer modes; non-trivial = a derived type that has a non-zero lb, an extent different from its "
                       "size, or >= 2 constructor levels; distinct by canonical hash of the node list" % (2 if quick else 3, nsim, depth, ctx.seed, maxcount))
    ctx.cov["traces_validated_against_impl"] += tot["cases"]
    ctx.cov["transfers_compared"] = tot["ntr"]
    ctx.cov["trees_with_layout_deviation_transfers_not_judged"] = tot["tainted"]
    ctx.cov["element_stepping_labels"] = lab
    rep.flush()
    ctx.assumptions += ["TLC evaluates the specification, not the code: the binding is the replay of the generated trees",
                        "alignment padding epsilon (MPI-3.1 4.1.6) is taken as 0: MPI leaves the alignments k_i to the implementation and SMPI pads nothing",
                        "only trees whose MaxCount-fold replication selects no byte twice and stays below 4000 bytes are generated (a receive type must not "
                        "overlap); displacements are non-negative; block lengths and counts are >= 1 (empty type maps are not examined)",
                        "true extent (MPI_Type_get_true_extent) is printed but not judged: the property does not mention it",
                        "a written byte is recognised by its value (source patterns have the top bit set, the destination starts with it clear)"]
