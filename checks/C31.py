"""C31 Predefined reduction operators compute MPI results.

G: TLC evaluates spec/mpi/MpiOp.tla through MpiOpGen.tla and prints every case with the result the specification defines:
  * exhaustive small scope: for every (operator, datatype) of the 14 operators x 43 datatypes table, MPI_Reduce_local over ALL pairs of the
    characteristic values of the type (type minimum, maximum, maximum-1, -3, -1, 0, 1, 2, 6; six complex numbers; nine (value, index)
    pairs with ties on the value) whose result fits the type; for the pairs MPI does not allow, the expectation "rejected";
  * seeded sample (-simulate): counts 0..6, random values (extremes mixed with small values), through MPI_Reduce_local, MPI_Allreduce over
    1..6 ranks (expected = the reduction of the per-rank vectors) and, for MPI_REPLACE / MPI_NO_OP, MPI_Accumulate / MPI_Get_accumulate.
M: OpLaws (commutativity, associativity, idempotence and absorption laws of the bitwise operators on two's complement, MAXLOC/MINLOC lowest index
on ties) are invariants evaluated by TLC on the generated values.
The driver fills typed buffers from the integers of the case, calls SMPI on every rank and prints the buffers back as integers.
A fault inside MPI_Reduce_local (xbt_die -> SIGABRT) is recorded as the result of that call (guard in the driver).

Open by decision (spec MpiOp!Open): MPI_CHAR with the arithmetic/bitwise operators and LAND/LOR/LXOR on non-integer classes are not listed by
MPI-3.1 5.9.2 but have an obvious meaning; an implementation may accept them (then the natural result is required) or reject them.
For LAND/LOR/LXOR only the truth of the result is compared.

Mutation evidence (tools/mutbuild.sh worktree, quick tier, one mutation at a time; all gave exit 1 with a VIOLATION line):
  * MAXLOC keeps the HIGHER index on equal values                                      -> caught, C31:MAXLOC:<every pair type>:value (Reduce_local and Allreduce)
  * LXOR compares the values instead of their truth ((a) != (b))                       -> caught, C31:LXOR:<28 types>:value
  * MAX_TYPES loses DT_FLAG_MULTILANG (MAX/MIN/SUM/PROD reject MPI_AINT/OFFSET/COUNT)  -> caught, C31:(MAX|MIN|SUM|PROD):(AINT|OFFSET|COUNT):rejected
  Fix validation: with /verif/proposed/fix-C31-cxx-bool-logical-ops.diff applied the check exits 0 with no KNOWN-FINDING line.
"""
import json
import vlib
import mpi_algebra_common as A

LEVEL = "exploration"
META = {"text": "TLC evaluates the element-wise definitions of the 14 predefined operators and the table of allowed (operator, datatype class) pairs of MPI-3.1 5.9.2/5.9.4/11.3.4 (spec/mpi/MpiOp.tla; bitwise operators on two's complement through the Bitwise module, MAXLOC/MINLOC with lowest index on ties, complex SUM/PROD) for every (operator, datatype) of a 14 x 43 table over all pairs of characteristic values, and for seeded random vectors through MPI_Reduce_local, MPI_Allreduce on 1..6 ranks and RMA accumulate (REPLACE, NO_OP); SMPI's results on every rank are compared with TLC's, and pairs outside the table must be rejected. Exploration level: values are sampled (extremes + random), the (operator, datatype) table itself is covered completely.",
        "note": "Trusted: TLC, MpiOp.tla (its algebraic laws are checked by TLC on the generated values), the driver's conversion between integers and typed buffers. Values stay within signed 32 bits (TLC): 64-bit extremes and unsigned 32-bit values above 2^31-1 are out of reach; floating-point types carry exactly representable integers. Pairs MPI does not list but that are commonly accepted (MPI_CHAR arithmetic, logical operators on non-integer classes) are left open. Known finding: LAND/LOR/LXOR on MPI_CXX_BOOL abort.",
        "technique": "TLC as case and oracle generator (exhaustive table + -simulate) for MpiOp, replay into SMPI through harness/mpi_algebra.cpp, comparison in Python"}
DRIVERS = A.DRIVERS
OPS = ["MAX", "MIN", "SUM", "PROD", "LAND", "LOR", "LXOR", "BAND", "BOR", "BXOR", "MAXLOC", "MINLOC", "REPLACE", "NO_OP"]
TYPES = ["CHAR", "SIGNED_CHAR", "UNSIGNED_CHAR", "SHORT", "UNSIGNED_SHORT", "INT", "UNSIGNED", "LONG", "UNSIGNED_LONG", "LONG_LONG",
         "UNSIGNED_LONG_LONG", "INT8_T", "INT16_T", "INT32_T", "INT64_T", "UINT8_T", "UINT16_T", "UINT32_T", "UINT64_T", "INTEGER2", "INTEGER4",
         "INTEGER8", "FLOAT", "DOUBLE", "LONG_DOUBLE", "REAL4", "REAL8", "C_BOOL", "CXX_BOOL", "C_FLOAT_COMPLEX", "C_DOUBLE_COMPLEX",
         "C_LONG_DOUBLE_COMPLEX", "BYTE", "AINT", "OFFSET", "COUNT", "FLOAT_INT", "DOUBLE_INT", "LONG_INT", "2INT", "SHORT_INT",
         "LONG_DOUBLE_INT", "WCHAR"]


def flat(v):
    out = []
    for x in v:
        if isinstance(x, list):
            out += flat(x)
        else:
            out.append(x)
    return out


def tokens_of(c):
    k = c["k"]
    head = [OPS.index(c["op"]), TYPES.index(c["ty"])]
    if k == "rl":
        t = head + [c["n"]] + flat(c["a"]) + flat(c["b"])
    elif k == "ar":
        t = head + [c["np"], c["n"]] + flat(c["v"])
    else:
        t = head + [c["np"], c["n"]] + flat(c["o"]) + flat(c["t"])
    return k + " " + " ".join(str(x) for x in t)


def np_of(c):
    if c["k"] == "rl":
        return 1 + (len(c["ty"]) + len(c["op"])) % 3      # every rank computes the same local reduction
    return c["np"]


def same(exp, got, truth):
    e = flat(exp)
    if len(e) != len(got):
        return False
    if truth:
        return all((a != 0) == (b != 0) for a, b in zip(e, got))
    return e == got


def judge(c, res):
    out = []
    k, op, ty = c["k"], c["op"], c["ty"]
    call = {"rl": "MPI_Reduce_local", "ar": "MPI_Allreduce", "rma": "MPI_Accumulate/MPI_Get_accumulate"}[k]
    if res["crash"]:
        return [("C31:%s:%s:%s:crash" % (k, op, c["cls"]), "SMPI died (%s, stage %s) in %s(%s, MPI_%s)" % (res["crash"]["how"], res["crash"]["stage"], call, op, ty),
                 json.dumps(res["crash"]))]
    for r in range(np_of(c)):
        recs = [x for x in res["ranks"].get(r, []) if "end" not in x]
        if len(recs) != 1:
            out.append(("C31:%s:output" % k, "rank %d printed %d records" % (r, len(recs)), None))
            continue
        o = recs[0]
        where = "rank %d: %s(MPI_%s, MPI_%s, count %d)" % (r, call, op, ty, c["n"])
        if "size_mismatch" in o:
            out.append(("C31:driver:type-size:%s" % ty, where + ": MPI_Type_size = %s differs from the C type of the driver" % o["size_mismatch"], None))
            continue
        if k in ("rl", "ar"):
            sup = c["sup"]
            if "sig" in o:
                if sup != "no":
                    out.append(("C31:%s:%s:aborts" % (op, ty), where + ": the process aborts (signal %s) on a pair that MPI allows" % o["sig"], None))
                else:
                    out.append(("C31:%s:%s:aborts-instead-of-error" % (op, c["cls"]), where + ": the process aborts (signal %s) instead of returning an error" % o["sig"], None))
                continue
            if sup == "no":
                if o["e"] == 0 and c["n"] > 0:
                    out.append(("C31:%s:%s:accepted" % (op, c["cls"]), where + ": accepted, MPI does not define this operator on this type (must be rejected)", None))
                continue
            if o["e"] != 0:
                if sup == "yes":
                    out.append(("C31:%s:%s:rejected" % (op, ty), where + ": rejected, MPI-3.1 5.9.2 allows this pair", None))
                continue
            if o.get("inexact") or not same(c["exp"], o["res"], c["truth"]):
                inputs = "a=%s b=%s" % (c["a"], c["b"]) if k == "rl" else "vectors %s" % c["v"]
                out.append(("C31:%s:%s:value" % (op, ty), where + ": result %s, the specification says %s (%s)" % (o["res"], flat(c["exp"]), inputs), None))
        else:
            if "win_err" in o or o.get("e") != 0:
                out.append(("C31:rma:%s:%s:error" % (op, ty), where + ": error (%s)" % o, None))
                continue
            p = r
            if o.get("inexact") or flat(c["win"][p]) != o["win"]:
                out.append(("C31:rma:%s:%s:window" % (op, c["cls"]), where + ": window holds %s, the specification says %s" % (o["win"], flat(c["win"][p])), None))
            if op == "NO_OP" and flat(c["res"][p]) != o.get("res"):
                out.append(("C31:rma:%s:%s:fetched" % (op, c["cls"]), where + ": fetched %s, the specification says %s" % (o.get("res"), flat(c["res"][p])), None))
    return out


def nontrivial(c):
    if c["k"] == "rl":
        return c["n"] > 0
    return c["n"] > 0 and c["np"] > 1


def run(ctx):
    quick = ctx.quick
    jobs = []
    nsl = 8
    for s in range(nsl):
        jobs.append({"cfg": A.write_cfg(ctx, "o_small%d.cfg" % s, "SpecSmall", {"MaxNp": 6, "NSlices": nsl, "Slice": s}), "tag": "small slice %d/%d" % (s, nsl)})
    nsim, depth = (4, 500) if quick else (12, 6000)
    cfg = A.write_cfg(ctx, "o_sim.cfg", "SpecSim", {"MaxNp": 6, "NSlices": 1, "Slice": 0})
    for j in range(nsim):
        jobs.append({"cfg": cfg, "simulate": (depth, ctx.seed * 1000 + j + 1), "tag": "sim %d" % j})
    rep = A.Reporter(ctx, tokens_of, np_of, judge)
    dd = A.Dedup()
    bk, pairs, tot = {}, set(), {"cases": 0, "views": 0, "elems": 0}

    def process(cases):
        for c in cases:
            if c["ty"] not in TYPES or c["op"] not in OPS:
                raise vlib.InfraError("type/operator table of the check and of MpiOpGen differ: %s %s" % (c["ty"], c["op"]))
        cases = [c for c in cases if dd.fresh(c)]
        results = A.run_all(ctx, cases, tokens_of, np_of, chunk=150, timeout=300)
        with A._lock:
            for c in cases:
                ctx.count({k: v for k, v in c.items() if k != "id"}, nontrivial=nontrivial(c))
                pairs.add((c["op"], c["ty"]))
                tot["elems"] += c["n"] * (c.get("np", 1))
                tot["cases"] += 1
                tot["views"] += np_of(c)
                key = c["k"] + ":" + c.get("sup", "rma")
                bk[key] = bk.get(key, 0) + 1
            for c in cases[2:3] + cases[-1:]:
                ctx.sample({k: v for k, v in c.items() if k != "id"}, limit=6)
        for c in cases:
            for sig, what, detail in judge(c, results[c["id"]]):
                rep.add(c, sig, what, detail)

    A.pipeline(ctx, "MpiOpGen.tla", jobs, process, par=len(jobs) if quick else 8, timeout=1700)
    ctx.cov["cases_by_kind_and_support"] = bk
    ctx.cov["operator_type_pairs"] = len(pairs)
    ctx.cov["elements_reduced"] = tot["elems"]
    ctx.cov["exhaustive"] = True
    ctx.cov["rule"] = ("cases and expected results printed by TLC from MpiOpGen: one MPI_Reduce_local case per (operator, datatype) over all pairs of the "
                       "characteristic values of the type (14 x 43 pairs, exhaustive) + %d seeded -simulate behaviours of %d cases (seed %d) through "
                       "MPI_Reduce_local, MPI_Allreduce (1..6 ranks) and RMA accumulate for REPLACE/NO_OP; non-trivial = count > 0 (and more than one rank "
                       "for the collective / RMA cases); distinct by canonical JSON hash" % (nsim, depth, ctx.seed))
    ctx.cov["traces_validated_against_impl"] += tot["cases"]
    ctx.cov["rank_views_compared"] = tot["views"]
    rep.flush()
    ctx.assumptions += ["TLC integers are 32-bit: operand and result magnitudes stay within signed 31 bits (+ sign); the extremes of the 64-bit types and of "
                        "unsigned 32-bit above 2^31-1 are outside the specification's reach",
                        "floating-point types carry integer values that they represent exactly (float: |v| <= 2^24); rounding is not examined",
                        "results that overflow the type are not generated (undefined for signed C integers)",
                        "pairs not listed by MPI-3.1 5.9.2 but accepted by common implementations (MPI_CHAR arithmetic, logical operators on non-integer "
                        "classes) are left open: accepted with the natural result or rejected",
                        "MPI_REPLACE / MPI_NO_OP are exercised through MPI_Accumulate / MPI_Get_accumulate with fence synchronisation (they are not valid in "
                        "MPI_Reduce_local, where a rejection is expected)",
                        "MPI_CXX_FLOAT_COMPLEX / MPI_CXX_DOUBLE_COMPLEX cannot be named by a program (their symbols are not declared by smpi.h) and are not covered"]
