"""C32 Groups and communicators follow MPI rules.

G: TLC evaluates spec/mpi/MpiGroup.tla through MpiGroupGen.tla: every case over worlds 1..4 (all pairs of groups for
union/intersection/difference/compare/translate, all rank lists for incl/excl/Comm_create, all lists of <= 2 range triplets with
strides -3..3 for range_incl/excl, all colors {UNDEFINED,0,1}^n x keys {-1,0,1}^n for Comm_split, every group for Comm_dup) and a
seeded sample over worlds 1..12; it prints each case with the member lists / ranks / comparison results the specification defines.
M: the laws of the definitions (set view of the standard, order as in the first group, partition laws of incl/excl and split) are
invariants evaluated by TLC on every generated case.
The driver performs the same MPI calls on every rank (MPI_Group_translate_ranks to the world group, MPI_Group_rank, MPI_Group_compare,
MPI_Comm_rank/size, MPI_Comm_compare), and for Comm_dup sends two messages with equal tags on the two communicators ("messages never
cross communicators"). Python compares.

Mutation evidence (tools/mutbuild.sh worktree, quick tier, one mutation at a time; all gave exit 1 with a VIOLATION line):
  * Group::difference keeps the members that ARE in the second group (== flipped to !=)      -> caught, C32:difference:members (23981 cases)
  * Comm::split no longer sorts the members of a color by (key, old rank) (std::sort removed) -> caught, C32:split:order (2709 cases)
  * is_rank_in_range stops one rank short of `last` in range triplets                         -> caught, C32:range_incl:members / C32:range_excl:members
  Fix validation: with /verif/proposed/fix-C32-intersection-order.diff applied the check exits 0 with no KNOWN-FINDING line.
"""
import json
import vlib
import mpi_algebra_common as A
from mpi_algebra_common import U, PN

LEVEL = "model_checking"
META = {"text": "TLC evaluates the group / communicator algebra of MPI-3.1 chapter 6 written as TLA+ operators over duplicate-free sequences of world ranks (spec/mpi/MpiGroup.tla: union, intersection, difference ordered as in the first group, incl, excl, range_incl/excl, translate_ranks, compare, Comm_split ordered by key then old rank, Comm_dup, Comm_create, per-context message delivery), exhaustively for worlds of 1..4 ranks (1..3 for every operation and 4 for the set operations, incl/excl and dup in the quick tier) and on a seeded sample of worlds up to 12; the laws of the definitions are invariants checked on every generated case; every rank of an smpirun of that size performs the same calls and its view (members through translate_ranks, sizes, ranks, comparison results, received messages) is compared with TLC's values.",
        "note": "Trusted: TLC, MpiGroup.tla, the observation of group contents through MPI_Group_translate_ranks/size/rank. Conformance holds for the cases replayed; exhaustive only within the stated world sizes. 'Messages never cross communicators' is exercised on (communicator, duplicate) pairs with equal tags only (general matching belongs to C28). Known finding: MPI_Group_intersection orders its result as the second group.",
        "technique": "TLC exhaustive small scope + -simulate over MpiGroup (case and oracle generation, laws as invariants), replay into SMPI on every rank (harness/mpi_algebra.cpp), comparison in Python"}
DRIVERS = A.DRIVERS
ALL_KINDS = ["setop", "incl", "excl", "create", "rincl", "rexcl", "split", "dup"]


def tokens_of(c):
    k = c["k"]
    L = A._lst
    if k == "setop":
        t = L(c["g1"]) + L(c["g2"])
    elif k in ("incl", "excl"):
        t = L(c["g"]) + L(c["r"])
    elif k in ("rincl", "rexcl"):
        t = L(c["g"]) + [len(c["rs"])] + [x for tr in c["rs"] for x in tr]
    elif k == "split":
        t = L(c["g"]) + L(c["col"]) + L(c["key"])
    elif k == "create":
        t = L(c["g"]) + L(c["h"])
    elif k == "dup":
        t = L(c["g"])
    else:
        raise vlib.InfraError("unknown case kind " + k)
    return k + " " + " ".join(str(x) for x in t)


def np_of(c):
    return c["n"]


def nontrivial(c):
    k = c["k"]
    if k == "setop":
        return len(c["g1"]) > 0 and len(c["g2"]) > 0 and c["g1"] != c["g2"]
    if k in ("incl", "excl", "create"):
        return len(c["g"]) > 1 and len(c.get("r", c.get("h"))) > 0
    if k in ("rincl", "rexcl"):
        return len(c["g"]) > 1 and len(c["rs"]) > 0
    if k == "split":
        cols = [x for x in c["col"] if x != U]
        return len(cols) > len(set(cols))
    return len(c["g"]) > 1


OPNAME = {"un": "union", "in": "intersection", "di": "difference", "incl": "incl", "excl": "excl", "rincl": "range_incl",
          "rexcl": "range_excl"}


def _group_diff(op, got, exp_mem, exp_rk, alt=None):
    """got: the driver's description of a group; returns (class, text) or None"""
    if got is None:
        return "missing", "no result"
    if "null" in got:
        return "null", "MPI_GROUP_NULL returned"
    if "err" in got:
        return "error", "an inquiry on the result failed with code %s" % got["err"]
    mem = got["mem"]
    if mem != exp_mem or got["sz"] != len(exp_mem):
        if sorted(mem) == sorted(exp_mem) and got["sz"] == len(exp_mem):
            if alt is not None and mem == alt:
                return "order-of-second-group", "members %s, the specification says %s" % (mem, exp_mem)
            return "order", "members %s, the specification says %s" % (mem, exp_mem)
        return "members", "members %s (size %s), the specification says %s" % (mem, got["sz"], exp_mem)
    if got["rk"] != exp_rk:
        return "group_rank", "MPI_Group_rank %s, the specification says %s" % (got["rk"], exp_rk)
    return None


def _comm_diff(got, exp_mem, world_rank):
    """exp_mem: expected member list ([] = MPI_COMM_NULL)"""
    if got is None:
        return "missing", "no result"
    if not exp_mem:
        return None if "null" in got else ("not-null", "a communicator was returned, the specification says MPI_COMM_NULL")
    if "null" in got:
        return "null", "MPI_COMM_NULL returned, the specification says members %s" % exp_mem
    g = got["g"]
    if g.get("mem") != exp_mem:
        cls = "order" if sorted(g.get("mem", [])) == sorted(exp_mem) else "members"
        return cls, "members %s, the specification says %s" % (g.get("mem"), exp_mem)
    erk = exp_mem.index(world_rank)
    if got["csz"] != len(exp_mem) or got["crk"] != erk or g["rk"] != erk or g["sz"] != len(exp_mem):
        return "rank", "size/rank %s/%s (group %s/%s), the specification says %s/%s" % (got["csz"], got["crk"], g["sz"], g["rk"],
                                                                                      len(exp_mem), erk)
    return None


def judge(c, res):
    """-> list of (signature, what, detail)"""
    out = []
    k = c["k"]
    if res["crash"]:
        return [("C32:%s:crash" % k, "SMPI died (%s, stage %s) on a %s case" % (res["crash"]["how"], res["crash"]["stage"], k),
                 json.dumps(res["crash"]))]
    for r in range(c["n"]):
        recs = [x for x in res["ranks"].get(r, []) if "end" not in x]
        if len(recs) != 1:
            out.append(("C32:%s:output" % k, "rank %d printed %d records" % (r, len(recs)), None))
            continue
        o = recs[0]
        if "err" in o:
            out.append(("C32:%s:setup-error" % k, "rank %d: building the input groups failed with code %s" % (r, o["err"]), None))
            continue
        if k == "setop":
            for f in ("un", "in", "di"):
                if f + "_err" in o:
                    out.append(("C32:%s:error" % OPNAME[f], "rank %d: MPI_Group_%s returned error %s" % (r, OPNAME[f], o[f + "_err"]), None))
                    continue
                d = _group_diff(f, o.get(f), c[f], c[f + "rk"][r], alt=c["in21"] if f == "in" else None)
                if d:
                    out.append(("C32:%s:%s" % (OPNAME[f], d[0]), "rank %d: MPI_Group_%s(%s, %s): %s" % (r, OPNAME[f], c["g1"], c["g2"], d[1]), None))
            if o.get("cmp") != c["cmp"]:
                out.append(("C32:compare:%s-as-%s" % (c["cmp"], o.get("cmp")), "rank %d: MPI_Group_compare(%s, %s) = %s, the specification says %s" %
                            (r, c["g1"], c["g2"], o.get("cmp"), c["cmp"]), None))
            if "tr_err" in o or o.get("tr") != c["tr"]:
                out.append(("C32:translate:ranks", "rank %d: MPI_Group_translate_ranks(%s -> %s) = %s (err %s), the specification says %s" %
                            (r, c["g1"], c["g2"], o.get("tr"), o.get("tr_err"), c["tr"]), None))
        elif k in ("incl", "excl", "rincl", "rexcl"):
            arg = c.get("r", c.get("rs"))
            if "op_err" in o:
                out.append(("C32:%s:error" % OPNAME[k], "rank %d: MPI_Group_%s(%s, %s) returned error %s" % (r, OPNAME[k], c["g"], arg, o["op_err"]), None))
                continue
            d = _group_diff(k, o.get("res"), c["res"], c["rk"][r])
            if d:
                out.append(("C32:%s:%s" % (OPNAME[k], d[0]), "rank %d: MPI_Group_%s(%s, %s): %s" % (r, OPNAME[k], c["g"], arg, d[1]), None))
        else:  # split, create, dup: collective over the communicator of group g
            g = c["g"]
            if r not in g:
                if "outside" not in o:
                    out.append(("C32:%s:base-comm" % k, "rank %d is not in %s but obtained a communicator from MPI_Comm_create" % (r, g), None))
                continue
            if "outside" in o or o.get("me") != g.index(r):
                out.append(("C32:comm_create:base-comm", "rank %d: base communicator over %s: got %s" % (r, g, o), None))
                continue
            if "op_err" in o:
                out.append(("C32:%s:error" % k, "rank %d: the call returned error %s" % (r, o["op_err"]), None))
                continue
            pos = g.index(r)
            exp = c["res"][pos] if k in ("split", "create") else c["res"]
            d = _comm_diff(o.get("res"), exp, r)
            if d:
                name = {"split": "MPI_Comm_split(colors %s, keys %s)" % (c.get("col"), c.get("key")), "create": "MPI_Comm_create(ranks %s)" % c.get("h"),
                        "dup": "MPI_Comm_dup"}[k]
                out.append(("C32:%s:%s" % (k, d[0]), "rank %d (rank %d of the communicator over %s): %s: %s" % (r, pos, g, name, d[1]), None))
            if k == "dup" and not d:
                if o.get("cmp") != c["cmp"]:
                    out.append(("C32:dup:comm_compare", "rank %d: MPI_Comm_compare(comm, dup) = %s, the specification says %s" % (r, o.get("cmp"), c["cmp"]), None))
                if o.get("xc") != c["xc"][pos]:
                    out.append(("C32:dup:messages-cross", "rank %d: received %s on (comm, dup), the specification says %s" % (r, o.get("xc"), c["xc"][pos]), None))
    return out


def run(ctx):
    quick = ctx.quick
    kinds_set = "{" + ", ".join('"%s"' % k for k in ALL_KINDS) + "}"
    jobs = []
    # exhaustive small scope, sliced by (world size, kinds) so that the TLC runs proceed in parallel
    slices = [("{1, 2, 3}", ALL_KINDS), ("{4}", ["setop"]), ("{4}", ["incl", "excl", "dup"])]
    if not quick:
        slices += [("{4}", ["create"]), ("{4}", ["rincl"]), ("{4}", ["rexcl"]), ("{4}", ["split"])]
    for j, (ns, ks) in enumerate(slices):
        cfg = A.write_cfg(ctx, "g_small%d.cfg" % j, "SpecSmall",
                          {"Ns": ns, "Kinds": "{" + ", ".join('"%s"' % k for k in ks) + "}", "MaxWorld": 12})
        jobs.append({"cfg": cfg, "tag": "small n in %s kinds %s" % (ns, ",".join(ks))})
    nsim, depth = (4, 1000) if quick else (12, 12000)
    cfg = A.write_cfg(ctx, "g_sim.cfg", "SpecSim", {"Ns": "{1}", "Kinds": kinds_set, "MaxWorld": 12})
    for j in range(nsim):
        jobs.append({"cfg": cfg, "simulate": (depth, ctx.seed * 1000 + j + 1), "tag": "sim %d" % j})
    rep = A.Reporter(ctx, tokens_of, np_of, judge)
    dd = A.Dedup()
    by_kind, worlds, tot = {}, set(), {"cases": 0, "views": 0}

    def process(cases):
        cases = [c for c in cases if dd.fresh(c)]          # the sample may repeat small cases
        results = A.run_all(ctx, cases, tokens_of, np_of, chunk=500)
        with A._lock:
            for c in cases:
                ctx.count({k: v for k, v in c.items() if k != "id"}, nontrivial=nontrivial(c))
                by_kind[c["k"]] = by_kind.get(c["k"], 0) + 1
                worlds.add(c["n"])
                tot["cases"] += 1
                tot["views"] += c["n"]
            for c in cases[:1] + cases[-1:]:
                ctx.sample({k: v for k, v in c.items() if k != "id"}, limit=6)
        for c in cases:
            for sig, what, detail in judge(c, results[c["id"]]):
                rep.add(c, sig, what, detail)

    A.pipeline(ctx, "MpiGroupGen.tla", jobs, process, par=len(jobs) if quick else 8, timeout=1500)
    ctx.cov["cases_by_kind"] = by_kind
    ctx.cov["world_sizes"] = sorted(worlds)
    ctx.cov["exhaustive"] = True
    ctx.cov["rule"] = ("cases and expected results printed by TLC from MpiGroupGen: all cases over worlds 1..%s (exhaustive small scope, see "
                       "module docstring%s) + %d seeded -simulate behaviours of %d cases over worlds 1..12 (seed %d); every case is executed "
                       "by every rank of an smpirun of that world size; non-trivial = the operands are non-empty and differ (set "
                       "operations), the base group has >= 2 members (incl/excl/ranges/create/dup), two processes share a color (split); "
                       "distinct by canonical JSON hash" % ("4" if not quick else "3", "" if not quick else "; world 4: set operations, incl/excl, dup only",
                                                           nsim, depth, ctx.seed))
    ctx.cov["traces_validated_against_impl"] += tot["cases"]
    ctx.cov["rank_views_compared"] = tot["views"]
    rep.flush()
    ctx.assumptions += ["TLC evaluates the specification, not the code: the binding is the replay of the generated cases on every rank",
                        "group contents are observed through MPI_Group_translate_ranks to the world group, MPI_Group_size/rank, MPI_Comm_size/rank",
                        "erroneous arguments (duplicate ranks, ranges producing duplicates, ranks out of range) are outside the property and not generated",
                        "\"messages never cross communicators\" is exercised on (communicator, duplicate) pairs only; general matching is C28"]
