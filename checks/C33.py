"""C33 Cartesian topologies follow MPI rules.

G: TLC evaluates spec/mpi/MpiCart.tla through MpiCartGen.tla and prints, per grid (dims, periods): the coordinates of every rank, MPI_Cart_rank
of every in-range coordinate vector and of vectors moved by +-1, +-2 periods on the periodic dimensions, MPI_Cart_shift of every rank x
direction x displacement in [-2*dim, 2*dim]; per (grid, remain_dims): for every rank the sub-grid it belongs to (members, new rank, kept
dims/periods/coordinates) and coordinates / shifts inside the sub-grid; per Dims_create input whether the call must fail.
Scope: quick = every grid with <= 3 dims and <= 12 nodes x all periodicity patterns (+ every remain vector) + seeded sample of grids with
<= 4 dims / <= 64 nodes; thorough = every grid <= 4 dims / <= 24 nodes x all periodicity patterns (+ every remain vector), every grid <= 4 dims /
25..64 nodes with three periodicity patterns (none, all, alternating), + a larger seeded sample with random patterns and remain vectors.
T: MPI_Dims_create's result is not unique: what SMPI returned is fed back to TLC (MpiCartVal.tla), which evaluates the post-condition
(product = nnodes, given entries kept, positive entries, failure iff nnodes is not a multiple of the product of the given entries).
M: GridLaws / SubLaws (rank<->coords bijection, shift inverse laws, sub-grids partition the grid, the fast evaluators used by the generator equal
the definitions) are invariants evaluated by TLC on every generated grid of <= 6 (quick) / 8 (thorough) nodes.
The driver performs MPI_Cart_create / Cart_get / Cartdim_get / Cart_coords / Cart_rank / Cart_shift / Cart_sub / Dims_create on every rank.
The topology inquiries are guarded: a SIGFPE raised inside one call (division by a zero dimension) is recorded as the result of that call
(sigsetjmp/siglongjmp in the driver) and the batch goes on; any other death of the process is isolated by the batch runner.

Mutation evidence (tools/mutbuild.sh worktree, quick tier, one mutation at a time; all gave exit 1 with a VIOLATION line):
  * Topo_Cart::shift computes the source with +disp instead of -disp                 -> caught, C33:cart_shift:(non)periodic:* and C33:cart_sub:all-kept:shift
  * Topo_Cart::rank does not bring a negative coordinate back into 0..dim-1           -> caught, C33:cart_rank:wrapped-negative, C33:cart_shift:periodic:beyond
  * assignnodes (Dims_create) skips the largest prime factor of the free part         -> caught, C33:dims_create:product (verdict of MpiCartVal), and the
    out-of-range iterator of the mutant kills some runs, which the batch runner isolates (C33:dims_create:crash)
  * (mutation made for C32) Comm::split without its sort                              -> caught here as well, C33:cart_sub:*:comm
  Fix validation: with fix-C33-cart-sub-topology.diff and fix-C33-dims-create-divisibility.diff applied the check exits 0 with no KNOWN-FINDING line.
"""
import json, os, threading
import vlib
import mpi_algebra_common as A
from mpi_algebra_common import U, PN

LEVEL = "model_checking"
META = {"text": "TLC evaluates the Cartesian topology functions of MPI-3.1 7.5 (spec/mpi/MpiCart.tla: row-major rank<->coords bijection, periodic wrap-around in Cart_rank, Cart_shift with MPI_PROC_NULL off a non-periodic edge, Cart_sub, post-condition of Dims_create) on every grid of the stated scope (quick: <= 3 dims / <= 12 nodes x every periodicity pattern and remain vector; thorough: <= 4 dims / <= 24 nodes likewise and <= 64 nodes with 3 periodicity patterns) plus a seeded sample up to 4 dims / 64 nodes, for all ranks, directions and displacements in [-2*dim, 2*dim]; the grid laws (bijection, shift inverses, sub-grids partition the grid) are invariants on the small grids; every rank of an smpirun performs the same calls and is compared with TLC's values; Dims_create results are fed back to TLC, which evaluates the post-condition (MpiCartVal).",
        "note": "Trusted: TLC, MpiCart.tla, the driver's guard that turns a SIGFPE inside one topology call into a recorded result. Conformance holds for the grids replayed. The rank order inside a Cart_sub communicator is taken as the row-major order of the kept coordinates. Known findings: Cart_sub builds the sub-topology from the old communicator (wrong coordinates, zero dims, SIGFPE), Cart_sub with no kept dimension returns MPI_COMM_NULL on ranks other than 0, Dims_create accepts given entries whose product does not divide nnodes.",
        "technique": "TLC exhaustive small scope + -simulate over MpiCart (case and oracle generation, laws as invariants) + TLC validation of Dims_create results, replay into SMPI on every rank (harness/mpi_algebra.cpp), comparison in Python"}
DRIVERS = A.DRIVERS


def tokens_of(c):
    L = A._lst
    k = c["k"]
    if k == "cart":
        t = L(c["d"]) + L(c["p"]) + [len(c["probes"])] + [x for pr in c["probes"] for x in pr]
    elif k == "sub":
        t = L(c["d"]) + L(c["p"]) + L(c["rem"])
    elif k == "dims":
        t = [c["nn"]] + L(c["given"])
    else:
        raise vlib.InfraError("unknown case kind " + k)
    return k + " " + " ".join(str(x) for x in t)


def np_of(c):
    return c["np"] if c["k"] != "dims" else 1 + c["nn"] % 3


def prod(d):
    p = 1
    for x in d:
        p *= x
    return p


def nontrivial(c):
    if c["k"] == "cart":
        return prod(c["d"]) > 1
    if c["k"] == "sub":
        return prod(c["d"]) > 1
    return c["nn"] > 1 and len(c["given"]) > 1


def sub_class(c):
    if all(c["rem"]):
        return "all-kept"
    if not any(c["rem"]):
        return "all-dropped"
    if prod(c["sd"]) == prod(c["d"]):
        return "dropped-dims-of-size-1"
    return "subgrid-smaller"


def judge(c, res):
    out = []
    k = c["k"]
    if k == "dims":
        return out      # judged by TLC (MpiCartVal), see run()
    if k == "cart":
        if res["crash"]:
            return [("C33:cart:crash", "SMPI died (%s, stage %s) on grid %s periods %s" % (res["crash"]["how"], res["crash"]["stage"], c["d"], c["p"]),
                     json.dumps(res["crash"]))]
        n, d, nd = prod(c["d"]), c["d"], len(c["d"])
        for r in range(c["np"]):
            recs = [x for x in res["ranks"].get(r, []) if "end" not in x]
            if len(recs) != 1:
                out.append(("C33:cart:output", "rank %d printed %d records" % (r, len(recs)), None))
                continue
            o = recs[0]
            where = "grid %s periods %s rank %d" % (d, c["p"], r)
            if r >= n:
                if "null" not in o:
                    out.append(("C33:cart_create:extra-rank-not-null", where + ": a rank beyond the grid obtained a communicator", None))
                continue
            if "null" in o or "op_err" in o or o.get("n") != n or o.get("me") != r:
                out.append(("C33:cart_create:comm", where + ": MPI_Cart_create gave %s" % {x: o.get(x) for x in ("null", "op_err", "n", "me")}, None))
                continue
            if o.get("nd") != nd or o.get("gd") != d or o.get("gp") != c["p"] or "get_err" in o:
                out.append(("C33:cart_get:dims", where + ": MPI_Cartdim_get/Cart_get gave ndims %s dims %s periods %s" % (o.get("nd"), o.get("gd"), o.get("gp")), None))
            if o.get("gc") != c["coords"][r]:
                out.append(("C33:cart_get:coords", where + ": MPI_Cart_get coords %s, the specification says %s" % (o.get("gc"), c["coords"][r]), None))
            for q, co in zip(o["who"], o["co"]):
                if co != c["coords"][q]:
                    out.append(("C33:cart_coords:%s" % ("signal" if any(x <= -1000 for x in co) else "value"), where + ": MPI_Cart_coords(%d) = %s, the specification says %s" % (q, co, c["coords"][q]), None))
                    break
            for j, (pr, exp) in enumerate(zip(c["probes"], c["prank"])):
                if o["prank"][j] != exp:
                    inr = all(0 <= x < dd for x, dd in zip(pr, d))
                    cls = "in-range" if inr else ("wrapped-negative" if any(x < 0 for x in pr) else "wrapped-positive")
                    out.append(("C33:cart_rank:%s" % cls, where + ": MPI_Cart_rank(%s) = %s, the specification says %s" % (pr, o["prank"][j], exp), None))
                    break
            for dir_ in range(nd):
                row, exp = o["shift"][dir_], c["shift"][r][dir_]
                flat = [x for pair in exp for x in pair]
                if row != flat:
                    j = next(i for i in range(len(flat)) if i >= len(row) or row[i] != flat[i]) // 2
                    disp = j - 2 * d[dir_]
                    cls = ("periodic" if c["p"][dir_] else "nonperiodic") + (":within" if abs(disp) < d[dir_] else ":beyond")
                    out.append(("C33:cart_shift:%s" % cls, where + ": MPI_Cart_shift(direction %d, disp %d) = (source %s, dest %s), the specification says %s" %
                                (dir_, disp, row[2 * j] if 2 * j < len(row) else None, row[2 * j + 1] if 2 * j + 1 < len(row) else None, exp[j]), None))
                    break
        return out
    # ---- sub
    cls = sub_class(c)
    n, d = prod(c["d"]), c["d"]
    head = "C33:cart_sub:%s" % cls
    desc = "grid %s periods %s remain_dims %s" % (d, c["p"], c["rem"])
    crashed = res["crash"]
    for r in range(n):
        recs = {x.get("st"): x for x in res["ranks"].get(r, []) if "end" not in x}
        where = desc + " rank %d" % r
        s1 = recs.get(1)
        if s1 is None:
            if crashed:
                continue       # the process died before this rank reached the stage
            out.append((head + ":output", where + ": no result", None))
            continue
        exp_mem, exp_rk = c["mem"][r], c["rk"][r]
        got = s1.get("res", {})
        if "op_err" in s1:
            out.append((head + ":error", where + ": MPI_Cart_sub returned error %s" % s1["op_err"], None))
            continue
        if "null" in got:
            out.append((head + ":comm-null", where + ": MPI_Cart_sub returned MPI_COMM_NULL, the specification says members %s" % exp_mem, None))
            continue
        g = got["g"]
        if g["mem"] != exp_mem or got["csz"] != len(exp_mem) or got["crk"] != exp_rk:
            out.append((head + ":comm", where + ": sub-communicator members %s rank %s, the specification says %s rank %s" % (g["mem"], got["crk"], exp_mem, exp_rk), None))
            continue
        s2 = recs.get(2)
        if s2 is None:
            if not crashed:
                out.append((head + ":output", where + ": no topology information", None))
            continue
        snd = len(c["sd"])
        if s2.get("nd") != snd or "nd_err" in s2:
            out.append((head + ":ndims", where + ": MPI_Cartdim_get = %s (err %s), the specification says %d" % (s2.get("nd"), s2.get("nd_err"), snd), None))
        if snd > 0:
            if "get_err" in s2 or "get_sig" in s2 or s2.get("gd") != c["sd"] or s2.get("gp") != c["sp"]:
                out.append((head + ":get_dims", where + ": MPI_Cart_get dims %s periods %s (err %s), the specification says %s %s" %
                            (s2.get("gd"), s2.get("gp"), s2.get("get_err"), c["sd"], c["sp"]), None))
            elif s2.get("gc") != c["co"][r]:
                out.append((head + ":get_coords", where + ": MPI_Cart_get coords %s, the specification says %s" % (s2.get("gc"), c["co"][r]), None))
            s3 = recs.get(3)
            if s3 is not None and "sig" in s3:
                out.append((head + ":coords-signal", where + ": MPI_Cart_coords on the sub-communicator raised signal %s (SIGFPE = 8)" % s3["sig"], None))
            elif s3 is not None and s3.get("co") != c["allco"]:
                out.append((head + ":coords", where + ": MPI_Cart_coords over the sub-grid = %s, the specification says %s" % (s3.get("co"), c["allco"]), None))
            s4 = recs.get(4)
            if s4 is not None:
                flat = [[x for pair in row for x in pair] for row in c["shift"][r]]
                if "sig" in s4:
                    out.append((head + ":shift-signal", where + ": MPI_Cart_shift on the sub-communicator raised signal %s (SIGFPE = 8)" % s4["sig"], None))
                elif s4.get("shift") != flat:
                    out.append((head + ":shift", where + ": MPI_Cart_shift in the sub-grid (disp -1, 1, 2 per direction) = %s, the specification says %s" % (s4.get("shift"), flat), None))
            if (s3 is None or s4 is None) and not crashed:
                out.append((head + ":output", where + ": stages missing", None))
    if crashed:
        out.append((head + ":crash", desc + ": SMPI died (%s, stage %s)" % (crashed["how"], crashed["stage"]), json.dumps(crashed)))
    return out


def dims_class(c, why):
    if why == "accepted-impossible" and all(c["nn"] % g == 0 for g in c["given"] if g):
        return why + ":each-entry-divides"
    return why


def judge_dims(ctx, cases, results, tag):
    """Dims_create: the specification judges what SMPI returned (T: MpiCartVal). -> list of (case, signature, what), count of
    results that are not non-increasing (information)"""
    out, recs, byid = [], [], {}
    for c in cases:
        res = results[c["id"]]
        if res["crash"]:
            out.append((c, "C33:dims_create:crash", "SMPI died in MPI_Dims_create(%d, %s)" % (c["nn"], c["given"])))
            continue
        seen_r = set()
        for r in range(np_of(c)):
            o = [x for x in res["ranks"].get(r, []) if "end" not in x]
            if len(o) != 1:
                out.append((c, "C33:dims_create:output", "rank %d printed %d records" % (r, len(o))))
                continue
            key = (o[0]["e"], tuple(o[0]["res"]))
            if key in seen_r:
                continue
            seen_r.add(key)
            rid = len(recs) + 1
            byid[rid] = (c, o[0])
            recs.append({"id": rid, "nn": c["nn"], "given": c["given"], "e": o[0]["e"], "res": o[0]["res"]})
    unordered = 0
    if recs:
        rf = os.path.join(ctx.scratch, "dims_results_%s.json" % tag)
        json.dump(recs, open(rf, "w"))
        verdicts = A.tlc_validate(ctx, "MpiCartVal.tla", os.path.join(A.MSPEC, "MpiCartVal.cfg"), {"RESULTS": rf})
        if len(verdicts) != len(recs):
            raise vlib.InfraError("MpiCartVal printed %d verdicts for %d results" % (len(verdicts), len(recs)))
        for v in verdicts:
            c, o = byid[v["id"]]
            if v["mustfail"] != c["mustfail"]:
                raise vlib.InfraError("generator and validator disagree on mustfail for %s" % c)
            if not v["ordered"]:
                unordered += 1
            if v["why"] != "ok":
                out.append((c, "C33:dims_create:" + dims_class(c, v["why"]), "MPI_Dims_create(nnodes %d, dims %s) returned %s with dims %s: %s" %
                            (c["nn"], c["given"], "success" if o["e"] == 0 else "an error", o["res"], v["why"])))
    return out, len(recs), unordered


def run(ctx):
    quick = ctx.quick
    jobs = []
    allk = '{"cart", "sub", "dims"}'

    def small(tag, nsl, **kw):
        for s in range(nsl):
            const = {"MaxDims": 3, "MinNodes": 1, "MaxNodes": 12, "AllPer": True, "LawMax": 6 if quick else 8, "Kinds": allk, "NSlices": nsl, "Slice": s, "Extra": 1}
            const.update(kw)
            jobs.append({"cfg": A.write_cfg(ctx, "c_%s_%d.cfg" % (tag, s), "SpecSmall", const), "tag": "%s slice %d/%d %s" % (tag, s, nsl, kw)})

    if quick:
        small("s12", 6, Kinds='{"cart", "sub"}')
        small("dims", 1, MaxDims=3, MaxNodes=16, Kinds='{"dims"}')
        nsim, depth = 4, 36
    else:
        small("s24", 16, MaxDims=4, MaxNodes=24, Kinds='{"cart", "sub"}')
        small("s64", 24, MaxDims=4, MinNodes=25, MaxNodes=64, AllPer=False, Kinds='{"cart"}')
        small("dims", 4, MaxDims=4, MaxNodes=64, Kinds='{"dims"}')
        nsim, depth = 12, 300
    cfg = A.write_cfg(ctx, "c_sim.cfg", "SpecSim", {"MaxDims": 4, "MinNodes": 1, "MaxNodes": 64, "AllPer": True, "LawMax": 6,
                                                     "Kinds": '{"cart", "sub"}' if not quick else allk, "NSlices": 1, "Slice": 0, "Extra": 1})
    for j in range(nsim):
        jobs.append({"cfg": cfg, "simulate": (depth, ctx.seed * 1000 + j + 1), "tag": "sim %d" % j})

    def keyof(c):
        return [c["k"], c.get("d"), c.get("p"), c.get("rem"), c.get("np"), c.get("nn"), c.get("given")]

    def judge2(c, res):     # used by the confirmation re-run: Dims_create verdicts come from TLC
        if c["k"] != "dims":
            return judge(c, res)
        c2 = dict(c, id=0)
        found, _, _ = judge_dims(ctx, [c2], {0: res}, "confirm%d" % threading.get_ident())
        return [(sig, what, None) for _, sig, what in found]

    rep = A.Reporter(ctx, tokens_of, np_of, judge2)
    dd = A.Dedup()
    bk = {}
    tot = {"cases": 0, "views": 0, "maxn": 0, "dims_validated": 0, "unordered": 0, "slice": 0}

    def process(cases):
        cases = [c for c in cases if dd.fresh(keyof(c))]
        results = A.run_all(ctx, cases, tokens_of, np_of, timeout=300,
                            chunk_for=lambda c: 800 if c["k"] == "dims" else (60 if quick else 30))
        with A._lock:
            tot["slice"] += 1
            tag = "s%d" % tot["slice"]
            for c in cases:
                ctx.count(keyof(c), nontrivial=nontrivial(c))
                bk[c["k"]] = bk.get(c["k"], 0) + 1
                tot["cases"] += 1
                tot["views"] += np_of(c)
                if "d" in c:
                    tot["maxn"] = max(tot["maxn"], prod(c["d"]))
            for c in cases[:1] + cases[-1:]:
                smp = {k: v for k, v in c.items() if k in ("k", "d", "p", "rem", "np", "nn", "given", "mustfail", "sd", "rk")}
                if c["k"] == "cart":
                    smp["shift_of_rank0"] = c["shift"][0]
                ctx.sample(smp, limit=6)
        for c in cases:
            for sig, what, detail in judge(c, results[c["id"]]):
                rep.add(c, sig, what, detail)
        found, nval, unordered = judge_dims(ctx, [c for c in cases if c["k"] == "dims"], results, tag)
        for c, sig, what in found:
            rep.add(c, sig, what, None)
        with A._lock:
            tot["dims_validated"] += nval
            tot["unordered"] += unordered

    A.pipeline(ctx, "MpiCartGen.tla", jobs, process, par=len(jobs) if quick else 8, timeout=1700)
    ctx.cov["cases_by_kind"] = bk
    ctx.cov["max_nodes"] = tot["maxn"]
    ctx.cov["dims_create_results_validated_by_tlc"] = tot["dims_validated"]
    ctx.cov["dims_create_results_not_non_increasing"] = tot["unordered"]
    ctx.cov["exhaustive"] = True
    ctx.cov["rule"] = ("cases and expected results printed by TLC from MpiCartGen: %s; + %d seeded -simulate behaviours of %d cases over grids of <= 4 dims / "
                       "<= 64 nodes (seed %d); each grid is created with MPI_Cart_create over an smpirun of that many ranks (+1 rank beyond the grid for "
                       "some) and inspected from every rank; non-trivial = more than one node (grids), nnodes > 1 and >= 2 dims (Dims_create); distinct by "
                       "canonical hash of the inputs" % (
                           "every grid with <= 3 dims and <= 12 nodes x every periodicity pattern, every remain_dims vector, every Dims_create input with "
                           "nnodes <= 16, <= 3 dims, given entries in 0..6" if quick else
                           "every grid with <= 4 dims and <= 24 nodes x every periodicity pattern and every remain_dims vector, every grid with <= 4 dims and "
                           "25..64 nodes x 3 periodicity patterns, every Dims_create input with nnodes <= 64, <= 4 dims, given entries in 0..6",
                           nsim, depth, ctx.seed))
    ctx.cov["traces_validated_against_impl"] += tot["cases"]
    ctx.cov["rank_views_compared"] = tot["views"]
    rep.flush()
    ctx.assumptions += ["TLC evaluates the specification, not the code: the binding is the replay of the generated cases on every rank",
                        "Cart_coords of all ranks is requested by rank 0 and by every rank of grids of <= 12 nodes; on larger grids the other ranks ask for 5 ranks",
                        "coordinates out of range on non-periodic dimensions, directions >= ndims and grids larger than the communicator are erroneous in MPI and not generated",
                        "Dims_create: only the stated post-condition is an alarm criterion; 'as close to each other as possible' and the non-increasing order "
                        "of MPI are not part of the property (the count of results that are not non-increasing is reported as information)",
                        "the rank order inside a Cart_sub communicator is taken to be the row-major order of the kept coordinates (the new communicator is a Cartesian grid)",
                        "thorough tier: grids of 25..64 nodes are enumerated with 3 periodicity patterns (none, all, alternating) and their sub-grids are sampled, not enumerated"]
