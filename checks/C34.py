"""C34: RMA windows behave like shared memory under their locks (DESIGN.md section 4, C34).

M  spec/mpi/MpiRma.tla: window memory per rank; Put/Get/Accumulate/Get_accumulate/Fetch_and_op/Compare_and_swap take
   effect atomically at some point of their epoch; exclusive locks, lock_all, fence, flush.  TLC (MpiRmaMC) explores
   every order the synchronisation of each generated program allows, checks the lock invariants and the action
   property "while a rank holds the exclusive lock of t nobody else changes t's memory", and prints the set of
   possible outcomes (final window memories, values fetched).
T  harness/mpi_rma.c runs the same programs under smpirun (2..4 ranks, several rank->host mappings and simulated
   delays that perturb the schedule); the observed outcome must be a member of TLC's set.

The generator only emits programs MPI defines (see gen_program): accesses of different origins to one location that
are not serialised by an exclusive lock are all accumulate-class with one operator (MPI_NO_OP fetches allowed), or
all Gets; conflicting accesses of one origin are accumulate-class (ordered) or separated by a flush; concurrent
multi-cell accesses are plain accumulates with a commutative operator (so that MPI's element-wise atomicity and the
specification's whole-access atomicity coincide).

Mutations (single-object rebuilds of the mutated source against a copy of the instrumented build, quick tier):
  Ma Win::accumulate without its trailing flush(target) (accumulates no longer ordered/complete)          -> caught
  Mb Win::fence without flush_local_all()                                                                  -> missed (timing-masked:
     the one-cell transfers complete during the two barriers of the fence; no outcome changes)
  Md Request::finish_wait applies the accumulate operator to n-1 cells of a multi-cell accumulate         -> caught
  Fixes: with proposed/fix-C34-lock-unlock.diff + fix-C34-cas-atomic.diff + fix-C34-accumulate-atomic.diff applied the check
  passes with no known finding (0 of 408 runs outside TLC's sets): the four findings are real and the fixes remove them.
"""
import json, os
import vlib, drivers
import smpi_rt_common as R

LEVEL = "model_checking"
META = {
    "text": "TLC explores, for every generated RMA program (66 directed programs where all ranks hammer one window cell with one atomic access or run read-modify-write epochs under an exclusive lock, plus seeded random programs of 2..4 ranks with fence / lock_all / exclusive-lock / mixed epochs), every order of the accesses that the synchronisation allows under the reference semantics MpiRma (accesses atomic inside their epoch, exclusive vs shared locks, accumulate ordering), checks the lock invariants and the action property 'nobody else changes the memory of a window while a rank holds its exclusive lock', and yields the set of possible (final window memories, fetched values). Every real run of the same program under smpirun (several rank placements and simulated delays) must land in that set. model_checking because the oracle is the exhaustively explored specification and the binding is outcome membership of real executions.",
    "note": "Trusted: TLC; harness/mpi_rma.c printing window contents and fetched values after the closing barrier; the generator's restriction to MPI-defined programs (conflicting concurrent accesses only accumulate-class with one operator, multi-cell concurrent accesses only commutative accumulates). One outcome per run is observed, so schedule-dependent defects are found only when rank placement/delays provoke them (4 genuine defects of smpi_win.cpp found that way, recorded as known findings; the check passes with none on a tree carrying proposed/fix-C34-*.diff).",
    "technique": 'TLC model checking of MpiRma (all orders allowed by locks/fences, outcome sets) + membership of real smpirun outcomes (mpi_rma driver)'}
DRIVERS = {"mpi_rma": (["mpi_rma.c"], "c-smpi", [])}

FCODE = {"none": 0, "sum": 1, "prod": 2, "max": 3, "min": 4, "band": 5, "bor": 6, "bxor": 7, "replace": 8, "noop": 9}
ACC_OPS = ["sum", "prod", "max", "min", "band", "bor", "bxor", "replace"]
COMMUTATIVE = ["sum", "prod", "max", "min", "band", "bor", "bxor"]
ACC_CLASS = ("acc", "gacc", "fop", "cas")


def st(op, t=0, d=0, n=0, f="none", v=(), c=()):
    return {"op": op, "t": t, "d": d, "n": n, "f": f, "v": list(v), "c": list(c)}


class Phase:
    """Accesses recorded so far in one region where different origins are concurrent; enforces the MPI-defined rules."""

    def __init__(self):
        self.cells = {}   # (t, cell) -> list of access descriptors

    @staticmethod
    def key(a):
        if a["op"] == "cas":
            return "cas"
        return a["f"]

    def compatible(self, a, b):
        """a, b: descriptors {o, seg, op, f, n, excl} touching a common cell."""
        if a["o"] == b["o"]:
            if a["seg"] != b["seg"]:
                return True                       # ordered by a flush / by separate epochs of that origin
            if a["op"] == "get" and b["op"] == "get":
                return True
            return a["op"] in ACC_CLASS and b["op"] in ACC_CLASS      # ordered by accumulate_ordering
        if a["excl"] or b["excl"]:
            return True                           # serialised by an exclusive lock on the target
        if a["op"] == "get" and b["op"] == "get":
            return True
        if a["op"] not in ACC_CLASS or b["op"] not in ACC_CLASS:
            return False
        ka, kb = self.key(a), self.key(b)
        if not (ka == kb or ka == "noop" or kb == "noop"):
            return False
        if a["n"] > 1 or b["n"] > 1:
            return a["op"] == "acc" and b["op"] == "acc" and a["f"] in COMMUTATIVE
        return True

    def try_add(self, o, seg, excl, s):
        a = {"o": o, "seg": seg, "op": s["op"], "f": s["f"], "n": s["n"], "excl": excl}
        cells = [(s["t"], s["d"] + i) for i in range(s["n"])]
        for c in cells:
            for b in self.cells.get(c, []):
                if not self.compatible(a, b):
                    return False
        for c in cells:
            self.cells.setdefault(c, []).append(a)
        return True


def rand_access(rng, n, w, targets, maxcells=2):
    op = rng.choice(["put", "put", "get", "get", "acc", "acc", "gacc", "fop", "fop", "cas", "cas"])
    t = rng.choice(targets)
    cnt = 1 if op in ("fop", "cas") else rng.randint(1, min(maxcells, w))
    d = rng.randint(0, w - cnt)
    f = "none"
    v, c = [], []
    if op in ("acc",):
        f = rng.choice(ACC_OPS)
    elif op in ("gacc", "fop"):
        f = rng.choice(ACC_OPS + ["noop", "sum", "sum"])
    if op in ("put", "acc", "gacc", "fop", "cas"):
        v = [rng.randint(0, 7) for _ in range(cnt)]
    if f == "prod":
        v = [rng.randint(1, 3) for _ in range(cnt)]
    if op == "cas":
        c = [rng.randint(0, 3)]
    return st(op, t, d, cnt, f, v, c)


def gen_program(rng, max_ranks=4, budget=6, mixed=0.08):
    """Random MPI-defined RMA program: a sequence of phases (fence epochs | lock_all epochs | exclusive-lock epochs |
    mixed lock_all + exclusive), separated by barriers."""
    n = rng.randint(2, max_ranks)
    w = rng.randint(2, 4)
    init = [[rng.randint(0, 3) for _ in range(w)] for _ in range(n)]
    ranks = [[] for _ in range(n)]
    kinds = []
    for _ in range(rng.randint(1, 3)):
        kind = "mixed" if rng.random() < mixed else rng.choice(["fence", "fence", "lockall", "lockall", "excl"])
        kinds.append(kind)
        if kind == "fence":
            for r in range(n):
                ranks[r].append(st("fence"))
            for _ in range(rng.randint(1, 2)):
                ph = Phase()
                left = budget
                for r in rng.sample(range(n), n):
                    for _ in range(rng.randint(0, 3)):
                        if left <= 0:
                            break
                        s = rand_access(rng, n, w, list(range(1, n + 1)))
                        if ph.try_add(r, 0, False, s):
                            ranks[r].append(s)
                            left -= 1
                for r in range(n):
                    ranks[r].append(st("fence"))
        else:
            ph = Phase()
            left = budget
            for r in rng.sample(range(n), n):
                role = kind if kind != "mixed" else rng.choice(["lockall", "excl"])
                if rng.random() < 0.15:
                    continue
                if role == "lockall":
                    body = []
                    seg = 0
                    for _ in range(rng.randint(1, 3)):
                        if left <= 0:
                            break
                        if body and rng.random() < 0.25:
                            body.append(st("flushall"))
                            seg += 1
                            continue
                        s = rand_access(rng, n, w, list(range(1, n + 1)))
                        if ph.try_add(r, seg, False, s):
                            body.append(s)
                            left -= 1
                    ranks[r] += [st("lockall")] + body + [st("unlockall")]
                else:
                    for ep in range(rng.randint(1, 2)):
                        t = rng.randint(1, n)
                        body = []
                        seg = 0
                        for _ in range(rng.randint(1, 3)):
                            if body and rng.random() < 0.2:
                                body.append(st("flush", t))
                                seg += 1
                                continue
                            s = rand_access(rng, n, w, [t])
                            # exclusive epochs of one rank are ordered among themselves: distinct segment per epoch
                            if ph.try_add(r, 100 * (ep + 1) + seg, True, s):
                                body.append(s)
                        ranks[r] += [st("lock", t)] + body + [st("unlock", t)]
        for r in range(n):
            ranks[r].append(st("barrier"))
    return {"n": n, "w": w, "init": init, "ranks": ranks, "kinds": kinds}


def n_accesses(p):
    return sum(1 for r in p["ranks"] for s in r if s["op"] in ("put", "get", "acc", "gacc", "fop", "cas"))


def nontrivial(p):
    """at least two origins access a common cell of some target"""
    seen = {}
    for o, r in enumerate(p["ranks"]):
        for s in r:
            if s["op"] in ("put", "get", "acc", "gacc", "fop", "cas"):
                for i in range(s["n"]):
                    seen.setdefault((s["t"], s["d"] + i), set()).add(o)
    return any(len(v) >= 2 for v in seen.values())


def brief(p):
    def f(s):
        if s["op"] in ("fence", "barrier", "lockall", "unlockall", "flushall"):
            return s["op"]
        if s["op"] in ("lock", "unlock", "flush"):
            return "%s(%d)" % (s["op"], s["t"])
        x = "%s(t%d,%d+%d" % (s["op"], s["t"], s["d"], s["n"])
        if s["f"] != "none":
            x += "," + s["f"]
        if s["v"]:
            x += ",v=%s" % s["v"]
        if s["c"]:
            x += ",c=%s" % s["c"]
        return x + ")"
    return {"n": p["n"], "w": p["w"], "init": p["init"], "ranks": [" ".join(f(s) for s in r) for r in p["ranks"]]}


def prog_txt(p, delays):
    out = ["@n %d @w %d" % (p["n"], p["w"])]
    for r in range(p["n"]):
        out.append("@init %d %s" % (r + 1, " ".join(str(x) for x in p["init"][r])))
    for r in range(p["n"]):
        out.append("@rank %d" % (r + 1))
        for k, s in enumerate(p["ranks"][r]):
            out.append("%s %d %d %d %d %d %d %s %d %s" % (s["op"], s["t"], s["d"], s["n"], FCODE[s["f"]], delays[r][k],
                                                          len(s["v"]), " ".join(str(x) for x in s["v"]), len(s["c"]),
                                                          " ".join(str(x) for x in s["c"])))
    out.append("@end")
    return "\n".join(out) + "\n"


def variant(rng, p, vi):
    hosts = R.HOSTS[:]
    if vi > 0:
        rng.shuffle(hosts)
    hosts = hosts[:p["n"]] if vi % 2 == 0 else [hosts[i % 2] for i in range(p["n"])]
    if vi == 0:
        delays = [[0] * len(r) for r in p["ranks"]]
    else:
        delays = [[rng.choice([0, 0, 0, 50, 1000, 20000]) for _ in r] for r in p["ranks"]]
    return hosts, delays


def run_one(ctx, tag, p, hosts, delays, timeout=60):
    drv = drivers.get("mpi_rma")
    d = os.path.join(ctx.scratch, tag)
    os.makedirs(d, exist_ok=True)
    pf = os.path.join(d, "p.txt")
    open(pf, "w").write(prog_txt(p, delays))
    hf = R.write_hostfile(os.path.join(d, "hf"), hosts)
    rc, out, err = R.smpirun(drv, p["n"], hf, [pf], timeout=timeout)
    mem = [None] * p["n"]
    fet = [[[] for _ in r] for r in p["ranks"]]
    ends = 0
    errs = []
    for line in out.splitlines():
        t = line.split()
        if not t:
            continue
        if t[0] == "MEM":
            mem[int(t[1]) - 1] = [int(x) for x in t[2:]]
        elif t[0] == "FET":
            fet[int(t[1]) - 1][int(t[2]) - 1] = [int(x) for x in t[3:]]
        elif t[0] == "END":
            ends += 1
        elif t[0] == "ERR":
            errs.append(line)
    how = "normal" if ends == p["n"] and rc == 0 else ("hang" if rc == 124 else "died(rc=%s)" % rc)
    return {"mem": mem, "fet": fet, "how": how, "errs": errs, "tail": (out[-300:] + err[-1200:]) if how != "normal" else ""}


def accesses_by_phase(p):
    """[(phase, cell, origin, stmt, exclusive?)]: phase = number of collectives (fence, barrier) the rank has passed"""
    res = []
    epochs = set()   # (phase, kind)
    for o, r in enumerate(p["ranks"]):
        ph = 0
        excl = False
        for s in r:
            if s["op"] in ("fence", "barrier"):
                ph += 1
            elif s["op"] == "lock":
                excl = True
                epochs.add((ph, "excl"))
            elif s["op"] == "unlock":
                excl = False
            elif s["op"] == "lockall":
                epochs.add((ph, "lockall"))
            elif s["op"] in ("put", "get", "acc", "gacc", "fop", "cas"):
                for i in range(s["n"]):
                    res.append((ph, (s["t"], s["d"] + i), o, s, excl))
    return res, epochs


def classify(p):
    """Class of a program by the anchored mechanism it stresses (used in violation signatures):
    lock-shared-vs-exclusive: lock_all and exclusive-lock epochs coexist in one phase (Win::lock / Win::unlock);
    exclusive-epochs-read-write: exclusive epochs of two origins where one reads a cell the other writes (Win::unlock);
    concurrent-cas: two origins compare-and-swap one cell without an exclusive lock (Win::compare_and_swap);
    cas-then-access-same-origin: a compare-and-swap followed in the same segment by another access of the same origin to
    the same cell (Win::compare_and_swap returns with its Put in flight);
    replace-fetch-vs-acc: MPI_REPLACE on one cell by a fetching access of one origin and a plain accumulate of another
    (Win::get_accumulate vs Win::accumulate); else the kinds of epochs used."""
    acc, epochs = accesses_by_phase(p)
    if any((ph, "excl") in epochs and (ph, "lockall") in epochs for ph, _ in epochs):
        return "lock-shared-vs-exclusive"
    # exclusive epochs of two origins on one cell, one reading what the other writes (read-modify-write under the lock)
    xcells = {}
    for ph, cell, o, s, excl in acc:
        if excl:
            xcells.setdefault((ph, cell), []).append((o, s))
    for lst in xcells.values():
        readers = {o for o, s in lst if s["op"] in ("get", "gacc", "fop", "cas")}
        writers = {o for o, s in lst if s["op"] in ("put", "acc", "gacc", "fop", "cas") and s["f"] != "noop"}
        if any(a != b for a in readers for b in writers):
            return "exclusive-epochs-read-write"
    cells = {}
    for ph, cell, o, s, excl in acc:
        if not excl:
            cells.setdefault((ph, cell), []).append((o, s))
    cas = repl = False
    for lst in cells.values():
        if len({o for o, s in lst if s["op"] == "cas"}) >= 2:
            cas = True
        fetchers = {o for o, s in lst if s["op"] in ("gacc", "fop") and s["f"] == "replace"}
        plain = {o for o, s in lst if s["op"] == "acc" and s["f"] == "replace"}
        if any(a != b for a in fetchers for b in plain):
            repl = True
    if cas:
        return "concurrent-cas"
    # one origin: a compare-and-swap followed, in the same segment (no flush / unlock in between), by another access of that
    # origin to the same cell (accumulate-class accesses of one origin are ordered: the second must see the swap)
    for o, r in enumerate(p["ranks"]):
        seg = []
        for s in r:
            if s["op"] in ("put", "get", "acc", "gacc", "fop", "cas"):
                cells_s = {(s["t"], s["d"] + i) for i in range(s["n"])}
                if any(c in cells_s for prev in seg for c in prev):
                    return "cas-then-access-same-origin"
                if s["op"] == "cas":
                    seg.append(cells_s)
            else:
                seg = []
    if repl:
        return "replace-fetch-vs-acc"
    return "+".join(sorted({k for _, k in epochs})) or "fence"


def directed_programs():
    """Programs in which every rank hammers one cell of rank 1 with the same atomic access inside a lock_all or a fence
    epoch (permanent regression cases: they exposed the compare_and_swap and get_accumulate(REPLACE) defects)."""
    progs = []

    def make(n, kind, mk, tgt=1):
        ranks = []
        for r in range(n):
            body = mk(r)
            if kind == "lockall":
                ranks.append([st("lockall")] + body + [st("unlockall"), st("barrier")])
            elif kind == "fence":
                ranks.append([st("fence")] + body + [st("fence"), st("barrier")])
            else:
                ranks.append([st("lock", tgt)] + body + [st("unlock", tgt), st("barrier")])
        return {"n": n, "w": 2, "init": [[1, 2] for _ in range(n)], "ranks": ranks, "kinds": [kind]}
    for n in (2, 3, 4):
        for kind in ("lockall", "fence", "excl"):
            progs.append(make(n, kind, lambda r: [st("cas", 1, 0, 1, "none", [10 + r], [1])]))
            progs.append(make(n, kind, lambda r: [st("fop", 1, 0, 1, "replace", [10 + r])]))
            progs.append(make(n, kind, lambda r: [st("fop", 1, 0, 1, "sum", [1 + r])]))
            progs.append(make(n, kind, lambda r: [st("acc", 1, 0, 1, "replace", [10 + r])] if r % 2 else [st("fop", 1, 0, 1, "replace", [10 + r])]))
            progs.append(make(n, kind, lambda r: [st("gacc", 2, 0, 1, "max", [1 + r]), st("gacc", 2, 0, 1, "noop", [])], 2))
            progs.append(make(n, kind, lambda r: [st("acc", 2, 0, 2, "sum", [1 + r, 2]), st("acc", 2, 1, 1, "sum", [3])], 2))
        # read-modify-write epochs under the exclusive lock of rank 1 / rank n (exposed the unlock-before-completion defect)
        for tgt in (1, n):
            ranks = [[st("lock", tgt), st("get", tgt, 0, 2), st("flush", tgt), st("put", tgt, 0, 2, "none", [10 + r, 20 + r]),
                      st("unlock", tgt), st("barrier")] for r in range(n)]
            progs.append({"n": n, "w": 3, "init": [[1, 2, 3] for _ in range(n)], "ranks": ranks, "kinds": ["excl"]})
            # write-only epochs: the final memory must be the two cells of one rank
            ranks = [[st("lock", tgt), st("put", tgt, 0, 1, "none", [10 + r]), st("acc", tgt, 1, 2, "replace", [20 + r, 30 + r]),
                      st("unlock", tgt), st("barrier")] for r in range(n)]
            progs.append({"n": n, "w": 3, "init": [[1, 2, 3] for _ in range(n)], "ranks": ranks, "kinds": ["excl"]})
    return progs


def run(ctx):
    quick = ctx.quick
    drivers.register(DRIVERS)
    drivers.get("mpi_rma")
    n_prog = 50 if quick else 600
    nvar = 3 if quick else 6
    progs = directed_programs()
    n_directed = len(progs)
    seen = {vlib.canon_hash(p) for p in progs}
    while len(progs) < n_prog + n_directed:
        p = gen_program(ctx.rng, budget=4 if quick else 6)
        h = vlib.canon_hash(p)
        if h in seen or n_accesses(p) == 0:
            continue
        seen.add(h)
        progs.append(p)
    for p in progs:
        ctx.count(p, nontrivial=nontrivial(p))
    ctx.cov["programs"] = len(progs)
    ctx.cov["directed_programs"] = n_directed
    cls = {}
    for p in progs:
        k = classify(p)
        cls[k] = cls.get(k, 0) + 1
    ctx.cov["program_classes"] = cls
    ctx.cov["phase_kinds"] = {k: sum(1 for p in progs if k in p["kinds"]) for k in ("fence", "lockall", "excl", "mixed")}
    ctx.cov["rule"] = ("%d directed programs (all ranks apply one atomic access to one cell) + seeded random RMA programs of 2..4 ranks (1..3 phases of fence | lock_all | exclusive-lock | mixed epochs, "
                       "accesses restricted to what MPI defines), each run %d times (rank->host mappings, simulated delays); "
                       "non-trivial = two origins access a common cell; distinct by canonical hash" % (n_directed, nvar))

    # ---------------- M: all orders the synchronisation allows
    def mc(ic):
        i, chunk = ic
        pf = os.path.join(ctx.scratch, "progs_%d.json" % i)
        json.dump([{k: p[k] for k in ("n", "w", "init", "ranks")} for p in chunk], open(pf, "w"))
        return vlib.tlc(os.path.join(R.MSPEC, "MpiRmaMC.tla"), env={"PROGS": pf}, workers=4, timeout=1500 if quick else 6000, xmx="4g")
    parts = R.chunks(progs, max(1, (len(progs) + 3) // 4))
    outs = []
    mcstat = {"distinct": 0, "generated": 0, "wall_s": 0}
    for chunk, r in zip(parts, vlib.parallel_map(mc, list(enumerate(parts)), nproc=4)):
        if not r.ok:
            raise vlib.InfraError("MpiRmaMC fails on the generated programs (%s %s): fix the spec or the generator\n%s" %
                                  (r.status, str(r.what)[:300], r.out[-3000:]))
        ctx.add_tlc(r)
        mcstat["distinct"] += r.distinct
        mcstat["generated"] += r.generated
        mcstat["wall_s"] = max(mcstat["wall_s"], round(r.wall, 1))
        sets = [set() for _ in chunk]
        for v in R.parse_prints(r, "OUT"):
            sets[v[0] - 1].add(json.dumps(v[1], sort_keys=True))
        outs += sets
    ctx.cov["mc"] = dict(mcstat, properties=["LockInv", "NoStuck", "ExclusiveSerialises", "OnlyAccessesWrite"])
    ctx.cov["exhaustive"] = True
    ctx.cov["exhaustive_scope"] = "every order of accesses each generated program allows (TLC); the programs themselves are directed + sampled"
    ctx.cov["outcomes_total"] = sum(len(o) for o in outs)
    ctx.cov["programs_with_several_outcomes"] = sum(1 for o in outs if len(o) > 1)
    if any(len(o) == 0 for o in outs):
        raise vlib.InfraError("MpiRmaMC printed no outcome for some program")
    for i in (0, len(progs) // 2, len(progs) - 1):
        ctx.sample({"program": brief(progs[i]), "reference_outcomes": len(outs[i])})

    # ---------------- T: the implementation
    jobs = []
    for i, p in enumerate(progs):
        for vi in range(nvar):
            hosts, delays = variant(ctx.rng, p, vi)
            jobs.append((i, vi, hosts, delays))
    res = vlib.parallel_map(lambda j: run_one(ctx, "r%d_%d" % (j[0], j[1]), progs[j[0]], j[2], j[3]), jobs)
    bad = []
    for (i, vi, hosts, delays), o in zip(jobs, res):
        key = json.dumps({"mem": o["mem"], "fet": o["fet"]}, sort_keys=True)
        if o["how"] != "normal" or o["errs"] or key not in outs[i]:
            bad.append((i, vi, hosts, delays))
    ctx.cov["impl_runs"] = len(jobs)
    ctx.cov["traces_validated_against_impl"] += len(jobs)
    # confirm by re-running the same case
    reported = set()
    again = vlib.parallel_map(lambda b: run_one(ctx, "c%d_%d" % (b[0], b[1]), progs[b[0]], b[2], b[3]), bad)
    for (i, vi, hosts, delays), o in zip(bad, again):
        p = progs[i]
        key = json.dumps({"mem": o["mem"], "fet": o["fet"]}, sort_keys=True)
        if o["how"] == "normal" and not o["errs"] and key in outs[i]:
            ctx.cov["unconfirmed_rejections"] = ctx.cov.get("unconfirmed_rejections", 0) + 1
            continue
        if i in reported:
            continue
        reported.add(i)
        if o["how"] != "normal" or o["errs"]:
            what = "the run of an MPI-defined RMA program did not complete normally (%s %s)" % (o["how"], o["errs"][:2])
        else:
            what = "outcome of the real run is not reachable in MpiRma: " + key
        ctx.violation(what + " program=" + json.dumps(brief(p)),
                      files={"program.json": json.dumps({k: p[k] for k in ("n", "w", "init", "ranks")}),
                             "program.txt": prog_txt(p, delays), "hostfile": "\n".join(hosts) + "\n",
                             "reference_outcomes.json": "[" + ",\n".join(sorted(outs[i])[:2000]) + "]",
                             "howto.txt": "smpirun -np %d -platform small_platform.xml -hostfile hostfile .build/harness/mpi_rma program.txt ; "
                                          "reference: spec/mpi/MpiRmaMC.tla with PROGS=[program.json]\n" % p["n"]},
                      signature="C34:%s:%s" % (classify(p), vlib.canon_hash(p)),
                      detail="observed: %s\n%s" % (key, o["tail"]))
    ctx.assumptions += ["TLC explores the specification, not the code: the binding is the membership of every real outcome in TLC's set",
                        "whole-access atomicity in the specification; the generator keeps concurrent multi-cell accesses to commutative plain accumulates",
                        "the real schedule is perturbed only by rank placement and simulated delays: one outcome per run is observed"]
