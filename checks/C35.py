"""C35: private parts of partially shared buffers are transferred exactly (DESIGN.md section 4, C35).

G  spec/mpi/SmpiShared.tla defines, for a sender layout, a receiver layout, two offsets and a size, the set of message
   bytes that must arrive (private in both buffers).  TLC (SmpiSharedGen) enumerates every case on a small byte grid
   (all layouts with <= MaxB shared blocks incl. plain buffers, all offsets, all sizes), proves the interval form
   equal to the byte-wise definition on each, and prints the cases; TLC (SmpiSharedEval) evaluates seeded random cases
   with page-scale buffers (where SMPI really folds pages).  harness/mpi_shared.c replays every case under smpirun with
   SMPI_PARTIAL_SHARED_MALLOC in three protocol configurations (rendez-vous, detached, eager+detached obtained with
   smpi/async-small-thresh and smpi/send-is-detached-thresh; SimGrid refuses eager without detached) x
   Send/Isend/Ssend x who posts first, and prints which message bytes arrived.  Python only checks  required (TLC)  subset-of  arrived (implementation).

Findings on the unchanged tree (KNOWN_FINDINGS.jsonl, reported by class):
  (1) a message that starts strictly inside a private block loses that block: size_t underflow in
      shift_and_frame_private_blocks (proposed/fix-C35-shift-underflow.diff);
  (2) when the last shared block ends at the end of an allocation inside a partial page, smpi_shared_malloc_partial
      folds the bytes before that block too: private bytes alias across ranks (proposed/fix-C35-tail-page-fold.diff).

Mutations (single-object rebuilds against a copy of the instrumented build, quick tier):
  M1 merge_private_blocks: end of the merged block - 1 (one private byte too many skipped at a boundary)  -> caught
  M3 smpi_shared_malloc_partial registers inner private blocks one byte late (begin + 1)                  -> caught
  Fixes: with proposed/fix-C35-shift-underflow.diff + fix-C35-tail-page-fold.diff applied: 0 failing case-runs of 41460.
"""
import json, os
import vlib, drivers
import smpi_rt_common as R

LEVEL = "exploration"
META = {
    "text": 'SmpiShared.tla defines which bytes of a message must arrive (private in both the send and the receive allocation). TLC enumerates every case on a byte grid (all layouts with a bounded number of shared blocks, plain buffers, all offsets and sizes), proves the interval form equal to the byte-wise definition on each, and evaluates the same grid scaled to pages plus seeded random byte/page-scale cases; harness/mpi_shared.c replays each case with SMPI_PARTIAL_SHARED_MALLOC under rendez-vous, detached and eager protocol settings with Send/Isend/Ssend and early/late posting, and the check verifies required subset-of arrived. exploration: the case space is enumerated/sampled and each case is decided against the TLC-computed expectation; no state machine is involved.',
    "note": 'Trusted: TLC; the byte patterns of the driver (sender >= 0x80, receiver < 0x80); bytes outside the required set are deliberately not judged. Two genuine defects of smpi_shared.cpp found (offset inside a private block: size_t underflow; shared tail in a partial page folds private bytes) and recorded as known findings by class: other defects confined to those two classes would be masked until the proposed fixes are applied (with them the check reports no failing case).',
    "technique": 'TLC-generated cases with expected byte sets (SmpiSharedGen / SmpiSharedEval) replayed into SMPI (mpi_shared driver), subset comparison'}
DRIVERS = {"mpi_shared": (["mpi_shared.c"], "c-smpi", [])}

CFGS = [
    ("rdv", ["--cfg=smpi/async-small-thresh:0", "--cfg=smpi/send-is-detached-thresh:0"]),
    ("detached", ["--cfg=smpi/async-small-thresh:0", "--cfg=smpi/send-is-detached-thresh:10000000"]),
    ("eager-detached", ["--cfg=smpi/async-small-thresh:10000000", "--cfg=smpi/send-is-detached-thresh:10000000"]),
]
PAGE = 4096


def gen_layout(rng, scale):
    """Random layout in bytes. scale 'small': 8..300 bytes; 'page': 1..6 pages with boundaries near page multiples."""
    if scale == "small":
        size = rng.randint(8, 300)
    else:
        size = rng.randint(1, 6) * PAGE + rng.choice([0, 0, 1, 17, PAGE - 1, rng.randint(0, PAGE - 1)])
    if rng.random() < 0.12:
        return {"size": size, "sh": []}
    nb = rng.randint(1, 4)
    pts = set()
    tries = 0
    while len(pts) < 2 * nb and tries < 200:
        tries += 1
        if scale == "page" and rng.random() < 0.7:
            p = rng.randint(0, size // PAGE + 1) * PAGE + rng.choice([0, 0, 0, 1, -1, 7, -13])
        else:
            p = rng.randint(0, size)
        if 0 <= p <= size:
            pts.add(p)
    pts = sorted(pts)
    if len(pts) % 2:
        pts = pts[:-1]
    return {"size": size, "sh": [[pts[i], pts[i + 1]] for i in range(0, len(pts), 2)]}


def gen_case(rng, scale):
    s = gen_layout(rng, scale)
    r = gen_layout(rng, scale)

    def interesting(L):
        pts = [0, 1]
        for b, e in L["sh"]:
            pts += [b, e, b - 1, e - 1, b + 1, e + 1, (b + e) // 2]
        pts.append(rng.randint(0, L["size"] - 1))
        pts.append(rng.randint(0, L["size"] - 1))
        return [p for p in pts if 0 <= p < L["size"]]
    so = rng.choice(interesting(s))
    ro = rng.choice(interesting(r))
    room = min(s["size"] - so, r["size"] - ro)
    ends = [room, rng.randint(1, room), rng.randint(1, room)]
    for L, o in ((s, so), (r, ro)):
        for b, e in L["sh"]:
            for x in (b, e, b + 1, e + 1, b - 1, e - 1):
                if 1 <= x - o <= room:
                    ends.append(x - o)
    n = rng.choice(ends)
    return {"s": s, "r": r, "so": so, "ro": ro, "n": n}


def case_line(cid, c, mode):
    def lay(L):
        return "%d %d %s" % (L["size"], len(L["sh"]), " ".join("%d %d" % (b, e) for b, e in L["sh"]))
    return "%d %s %s %d %d %d %d\n" % (cid, lay(c["s"]), lay(c["r"]), c["so"], c["ro"], c["n"], mode)


def covered(req, arrived):
    """every required interval inside some arrived interval (both sorted, disjoint, half-open)"""
    missing = []
    for b, e in req:
        pos = b
        for ab, ae in arrived:
            if ab <= pos < ae:
                pos = ae
                if pos >= e:
                    break
        if pos < e:
            missing.append([pos, e])
    return missing


def run_chunk(ctx, tag, cases, cfgidx, extra_cfg=()):
    """cases: list of (cid, case). Returns {cid: arrived intervals} (a missing cid = no RES line)."""
    drv = drivers.get("mpi_shared")
    d = os.path.join(ctx.scratch, tag)
    os.makedirs(d, exist_ok=True)
    cf = os.path.join(d, "cases.txt")
    with open(cf, "w") as f:
        for cid, c in cases:
            f.write(case_line(cid, c, (cid + 2 * cfgidx) % 9))
    hf = R.write_hostfile(os.path.join(d, "hf"), ["Tremblay", "Jupiter"])
    rc, out, err = R.smpirun(drv, 2, hf, [cf], cfg=CFGS[cfgidx][1] + list(extra_cfg), timeout=600)
    res = {}
    ended = False
    for line in out.splitlines():
        t = line.split()
        if not t:
            continue
        if t[0] == "RES":
            v = [int(x) for x in t[2:]]
            res[int(t[1])] = [[v[i], v[i + 1]] for i in range(0, len(v), 2)]
        elif t[0] == "END":
            ended = True
    return res, ended, rc, (out[-500:] + err[-1500:])


def signature(cfgname, c):
    """Stable identification of a failing case: the two classes of the known findings, else configuration + case hash."""
    if c["st"] or c["rt"]:
        return "C35:shared-tail-in-partial-page"
    if c["sp"] == "private_inside" or c["rp"] == "private_inside":
        return "C35:offset-inside-private-block"
    return "C35:%s:%s" % (cfgname, vlib.canon_hash([c["s"], c["r"], c["so"], c["ro"], c["n"]]))


def scale_case(c, k):
    def lay(L):
        return {"size": L["size"] * k, "sh": [[b * k, e * k] for b, e in L["sh"]]}
    return {"s": lay(c["s"]), "r": lay(c["r"]), "so": c["so"] * k, "ro": c["ro"] * k, "n": c["n"] * k}


def tlc_eval(ctx, raw, tag, nparts=8):
    """TLC (SmpiSharedEval) evaluates the required set and the classes of the given cases (in order)."""
    def eval_part(ic):
        i, chunk = ic
        p = os.path.join(ctx.scratch, "%s_%d.json" % (tag, i))
        json.dump(chunk, open(p, "w"))
        return vlib.tlc(os.path.join(R.MSPEC, "SmpiSharedEval.tla"), workers=2, timeout=1500, xmx="3g", env={"CASES": p})
    out = []
    echunks = R.chunks(raw, max(1, (len(raw) + nparts - 1) // nparts))
    for chunk, r in zip(echunks, vlib.parallel_map(eval_part, list(enumerate(echunks)), nproc=min(nparts, max(2, vlib.NCPU // 2)))):
        R.tlc_or_die(r, "SmpiSharedEval")
        ctx.add_tlc(r)
        got = {v[0]: v[1] for v in R.parse_prints(r, "CASE")}
        if len(got) != len(chunk):
            raise vlib.InfraError("SmpiSharedEval: %d cases in, %d out" % (len(chunk), len(got)))
        out += [got[k] for k in range(1, len(chunk) + 1)]
    return out


def run(ctx):
    quick = ctx.quick
    drivers.register(DRIVERS)
    drivers.get("mpi_shared")
    import time
    t0 = time.time()
    timing = ctx.cov.setdefault("timing_s", {})
    n_grid, maxb, parts = (4, 2, 2) if quick else (5, 2, 8)
    n_rand_small, n_rand_page = (1500, 800) if quick else (15000, 6000)

    # ---------------- G, part 1: TLC enumerates the grid
    def gen_part(p):
        return vlib.tlc(os.path.join(R.MSPEC, "SmpiSharedGen.tla"), workers=2, timeout=1500, xmx="3g",
                        env={"SH_N": n_grid, "SH_MAXB": maxb, "SH_PART": p, "SH_PARTS": parts})
    grid = []  # described cases (with req and classes)
    for r in vlib.parallel_map(gen_part, list(range(parts)), nproc=min(parts, max(2, vlib.NCPU // 2))):
        R.tlc_or_die(r, "SmpiSharedGen")
        ctx.add_tlc(r)
        grid += [v[0] for v in R.parse_prints(r, "CASE")]
    if not grid:
        raise vlib.InfraError("SmpiSharedGen printed no case")
    grid.sort(key=lambda c: json.dumps([c["s"], c["r"], c["so"], c["ro"], c["n"]]))
    # ---------------- G, part 2: the same grid with one unit = one page (SMPI really folds the shared pages there),
    # and seeded random cases in bytes / around page boundaries; required sets evaluated by TLC
    sub = grid if not quick else [c for i, c in enumerate(grid) if (i + ctx.seed) % 2 == 0]
    raw_paged = [scale_case(c, PAGE) for c in sub]
    raw_rnd = [gen_case(ctx.rng, "small") for _ in range(n_rand_small)] + [gen_case(ctx.rng, "page") for _ in range(n_rand_page)]
    both = tlc_eval(ctx, raw_paged + raw_rnd, "ev", 4 if quick else 12)
    paged, rnd = both[:len(raw_paged)], both[len(raw_paged):]
    cases = grid + paged + rnd
    timing["tlc"] = round(time.time() - t0, 1)
    ctx.cov["grid"] = {"bytes": n_grid, "max_shared_blocks": maxb, "cases": len(grid), "page_scaled_cases": len(paged)}
    ctx.cov["random_cases"] = {"small": n_rand_small, "page_scale": n_rand_page}
    ctx.cov["exhaustive"] = True
    ctx.cov["exhaustive_scope"] = ("complete for the byte grid (every layout with <= %d shared blocks on %d bytes, plain buffers, every "
                                   "offset and size, both buffers); the page-scaled and random cases are samples" % (maxb, n_grid))

    # ---------------- replay into the implementation
    ids = list(enumerate(cases))
    g_ids, p_ids, r_ids = ids[:len(grid)], ids[len(grid):len(grid) + len(paged)], ids[len(grid) + len(paged):]
    jobs = []
    for ci in range(len(CFGS)):
        for j, ch in enumerate(R.chunks(g_ids, 4000)):
            jobs.append(("g%d_%d" % (ci, j), ch, ci, ()))
        for j, ch in enumerate(R.chunks(p_ids, 2000)):
            jobs.append(("p%d_%d" % (ci, j), ch, ci, ()))
        for j, ch in enumerate(R.chunks(r_ids, 1500)):
            # also with a small folding block so that both mmap paths of the allocator run
            extra = ("--cfg=smpi/shared-malloc-blocksize:8192",) if j % 2 else ()
            jobs.append(("r%d_%d" % (ci, j), ch, ci, extra))
    results = vlib.parallel_map(lambda jb: run_chunk(ctx, jb[0], jb[1], jb[2], jb[3]), jobs)
    failing = {}   # (cfgidx, extra) -> list of cid
    nruns = 0
    for (tag, ch, ci, extra), (res, ended, rc, tail) in zip(jobs, results):
        if not ended or len(res) != len(ch):
            res, ended, rc, tail = run_chunk(ctx, tag + "b", ch, ci, extra)   # did not go through: once more
        for cid, c in ch:
            nruns += 1
            arrived = res.get(cid)
            if arrived is None or covered(c["req"], arrived):
                failing.setdefault((ci, extra), []).append(cid)
    timing["runs"] = round(time.time() - t0 - timing["tlc"], 1)
    classes = {}
    for cid, c in ids:
        nontrivial = bool(c["req"]) and bool(c["s"]["sh"] or c["r"]["sh"])
        ctx.count([c["s"], c["r"], c["so"], c["ro"], c["n"]], nontrivial=nontrivial)
        k = "%s/%s" % (c["sp"], c["rp"])
        classes[k] = classes.get(k, 0) + 1
    ctx.cov["evaluations"] = nruns
    ctx.cov["cases"] = len(cases)
    ctx.cov["start_position_classes(sender/receiver)"] = classes
    ctx.cov["messages_across_2+_private_blocks"] = sum(1 for c in cases if c["ss"] >= 2 or c["rs"] >= 2)
    ctx.cov["protocol_configurations"] = [c[0] for c in CFGS]
    ctx.cov["rule"] = ("TLC enumerates all (sender layout, receiver layout, offsets, size) on a %d-byte grid with <= %d shared blocks "
                       "(plain buffers included); the grid is run in bytes and with one unit = one page; plus %d seeded random "
                       "byte-scale / page-scale cases evaluated by TLC; each case runs in %d protocol configurations with "
                       "Send/Isend/Ssend and early/late posting rotated; non-trivial = at least one buffer partially shared and a "
                       "non-empty required set; distinct by canonical hash of the case" % (n_grid, maxb, len(rnd), len(CFGS)))
    for c in (grid[len(grid) // 3], grid[(2 * len(grid)) // 3], paged[len(paged) // 2], rnd[0], rnd[-1]):
        ctx.sample({k: c[k] for k in ("s", "r", "so", "ro", "n", "req")})

    # ---------------- confirmation: every failing case is run again (one run per configuration), then reported by class
    ctx.cov["failing_case_runs_first_pass"] = sum(len(v) for v in failing.values())
    groups = {}   # signature -> list of (ci, cid, arrived, extra, tail)
    tails = {}
    keys = sorted(failing.keys())
    conf = vlib.parallel_map(lambda k: run_chunk(ctx, "confirm_%d_%d" % (k[0], len(k[1])), [(cid, cases[cid]) for cid in failing[k]],
                                                 k[0], k[1]), keys)
    for k, (res, ended, rc, tail) in zip(keys, conf):
        noresult = [cid for cid in failing[k] if cid not in res]
        if noresult:
            # some run died: first make sure the configuration itself works, then run the cases without result one by one
            sane = {"s": {"size": 8, "sh": []}, "r": {"size": 8, "sh": []}, "so": 0, "ro": 0, "n": 8}
            sres, _, src, stail = run_chunk(ctx, "sanity_%d" % k[0], [(0, sane)], k[0], k[1])
            if sres.get(0) != [[0, 8]]:
                raise vlib.InfraError("mpi_shared does not run under %s %s (rc=%s): %s" % (CFGS[k[0]][1], k[1], src, stail[-1500:]))
            if len(noresult) > 60:
                raise vlib.InfraError("%d case runs gave no result under %s: %s" % (len(noresult), CFGS[k[0]][0], tail[-1500:]))
            single = vlib.parallel_map(lambda cid: run_chunk(ctx, "single_%d_%d" % (k[0], cid), [(cid, cases[cid])], k[0], k[1]), noresult)
            for cid, (r1, _, rc1, tail1) in zip(noresult, single):
                if cid in r1:
                    res[cid] = r1[cid]
                else:
                    tails[cid] = "run died (rc=%s): %s" % (rc1, tail1[-800:])
        for cid in failing[k]:
            c = cases[cid]
            arrived = res.get(cid)
            if arrived is None or covered(c["req"], arrived):
                groups.setdefault(signature(CFGS[k[0]][0], c), []).append((k[0], cid, arrived, k[1], tails.get(cid, "")))
            else:
                ctx.cov["unconfirmed_failures"] = ctx.cov.get("unconfirmed_failures", 0) + 1
    ctx.cov["failing_case_runs_confirmed"] = sum(len(v) for v in groups.values())
    ctx.cov["failing_classes"] = {k: len(v) for k, v in groups.items() if k.count(":") == 1}
    reported = 0
    for sig, lst in sorted(groups.items(), key=lambda kv: (kv[0].count(":") != 1, kv[0])):
        if sig.count(":") != 1:     # not one of the two classes: one report per case, at most 25 reports
            reported += 1
            if reported > 25:
                ctx.cov["violations_not_reported"] = ctx.cov.get("violations_not_reported", 0) + 1
                ctx.violations += 1
                continue
        ci, cid, arrived, extra, tail = lst[0]
        c = cases[cid]
        what = ("%d case-run(s): required private bytes of the message did not arrive; first: cfg=%s%s case=%s required=%s arrived=%s"
                % (len(lst), CFGS[ci][0], " " + " ".join(extra) if extra else "",
                   json.dumps({k: c[k] for k in ("s", "r", "so", "ro", "n")}), c["req"], arrived))
        ctx.violation(what, signature=sig,
                      files={"cases.txt": case_line(cid, c, (cid + 2 * ci) % 9), "case.json": json.dumps(c),
                             "howto.txt": "smpirun -np 2 -platform small_platform.xml -hostfile <Tremblay,Jupiter> %s %s "
                                          ".build/harness/mpi_shared cases.txt ; expected set: spec/mpi/SmpiSharedEval.tla "
                                          "with CASES=[case.json]\n" % (" ".join(CFGS[ci][1]), " ".join(extra))},
                      detail="classes: sender start %s, receiver start %s, shared tail %s/%s\n%s" %
                             (c["sp"], c["rp"], c["st"], c["rt"], tail if arrived is None else ""))
    ctx.assumptions += ["the expected byte sets come from TLC (SmpiShared!ReqIv, proved equal to the byte-wise Required on every grid case and on random cases up to 256 bytes)",
                        "sender bytes (>= 0x80) and initial receiver bytes (< 0x80) are disjoint, so 'arrived' is read off the receive buffer",
                        "bytes outside the required set are not judged (the property leaves them open)",
                        "cases in the two known-finding classes (message starting inside a private block; shared tail in a partial page) are reported as KNOWN-FINDING, other defects inside those classes would be masked"]
