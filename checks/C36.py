"""C36: each rank has its own copy of global variables (DESIGN.md section 4, C36).

T  spec/mpi/SmpiPriv.tla: store[rank][var]; a write changes the writer's copy only; a read returns the reader's own
   last write (initial value otherwise); MPI buffers that are global variables read the sender's copy and update the
   receiver's copy (FIFO channels, allreduce/bcast contributions).  Generated programs (2..8 ranks) interleave writes
   of rank-specific values to 11 globals/statics of different storage kinds (.data/.bss, file static, function static,
   array elements on other pages, a second translation unit) with reads and with MPI calls that switch ranks (Send,
   Ssend, Isend+Wait, Recv, Irecv+Wait, Irecv+Isend+Waitall, Sendrecv, Allreduce, Bcast, Barrier, simulated sleeps),
   the variables themselves being the message buffers.  harness/mpi_priv.c logs every access and call;
   SmpiPrivTrace validates each recorded execution line by line (TLC).  Run with smpi/privatization:mmap and dlopen,
   detached and non-detached sends.

Mutations (single-object rebuilds against a copy of the instrumented build, quick tier):
  M1 ActorImpl::yield no longer calls smpi_switch_data_segment on resume            -> missed: equivalent for MPI programs
     (smpi_bench_begin switches again at the exit of every SMPI call, including sleeps)
  M3 smpi_comm_copy_buffer_callback does not switch to the receiver's data segment  -> caught (mmap, e.g. allreduce result)
  M5 smpi_init_privatization_dlopen gives ranks 2k and 2k+1 the same copy           -> caught (dlopen)
  Sanity: the same programs with smpi/privatization:no are rejected at the first foreign value.
"""
import json, os
import vlib, drivers
import smpi_rt_common as R

LEVEL = "model_checking"
META = {
    "text": "SmpiPriv.tla: store[rank][var], a write changes the writer's copy only, a read returns the reader's own last write; message buffers that are globals read the sender's copy and update the receiver's copy (FIFO channels, allreduce/bcast contributions). Generated programs (2..8 ranks, 11 globals/statics of different storage kinds incl. a second translation unit and multi-page arrays) interleave rank-specific writes, reads and MPI calls that switch ranks (Send/Ssend/Isend/Recv/Irecv/Waitall/Sendrecv/Allreduce/Bcast/Barrier/sleep); every access is logged and TLC validates each recorded execution line by line against the specification, under smpi/privatization mmap and dlopen, detached and non-detached sends.",
    "note": "Trusted: TLC; the driver's single-file append log (file order = execution order, all ranks share the OS process) and its stack/heap-only own state. Conformance holds for the executions run; a run without privatization is rejected at the first foreign value (checked). Removing the switch in ActorImpl::yield alone is an equivalent mutant (smpi_bench_begin re-switches at every SMPI call exit).",
    "technique": 'TLC trace validation (SmpiPrivTrace) of real smpirun executions of generated programs (mpi_priv driver)'}
DRIVERS = {"mpi_priv": (["mpi_priv.c", "mpi_priv2.c"], "c-smpi", [])}

INIT = [7, 0, 11, 0, 13, 0, 21, 0, 0, 0, 23]     # initial values of the variables of harness/mpi_priv.c (1-based)
NV = len(INIT)
KINDS = ["allreduce", "bcast", "barrier"]


def S(op, v=0, x=0, p=0, k="", w=0):
    return {"op": op, "v": v, "x": x, "p": p, "k": k, "w": w}


def gen_program(rng, max_ranks=8, nsteps=30):
    """A global sequence of steps, projected on the ranks (so that blocking calls cannot deadlock).
    Returns (spec program, driver text)."""
    n = rng.randint(2, max_ranks)
    spec = [[] for _ in range(n)]
    drv = [[] for _ in range(n)]
    counter = [0]

    def val(r):
        counter[0] += 1
        return 1000 * (r + 1) + counter[0] % 997

    def local(r):
        for _ in range(rng.randint(1, 4)):
            v = rng.randint(1, NV)
            if rng.random() < 0.55:
                x = val(r)
                spec[r].append(S("w", v, x))
                drv[r].append("w %d %d" % (v, x))
            else:
                spec[r].append(S("r", v))
                drv[r].append("r %d" % v)
    for _ in range(nsteps):
        kind = rng.choice(["local", "local", "local", "p2p", "p2p", "xchg", "coll", "coll", "sleep", "readall"])
        if kind == "local":
            local(rng.randrange(n))
        elif kind == "readall":
            v = rng.randint(1, NV)
            for r in range(n):
                spec[r].append(S("r", v))
                drv[r].append("r %d" % v)
        elif kind == "p2p":
            s, d = rng.sample(range(n), 2)
            vs, vd = rng.randint(1, NV), rng.randint(1, NV)
            spec[s].append(S("send", vs, p=d + 1))
            drv[s].append("send %d %d %d" % (vs, d + 1, rng.randint(0, 2)))
            spec[d].append(S("recv", vd, p=s + 1))
            drv[d].append("recv %d %d %d" % (vd, s + 1, rng.randint(0, 1)))
            if rng.random() < 0.7:
                spec[d].append(S("r", vd))
                drv[d].append("r %d" % vd)
                spec[s].append(S("r", vd))
                drv[s].append("r %d" % vd)
        elif kind == "xchg":
            # ring shift: everybody sends variable vs to the right and receives variable vr from the left
            vs = rng.randint(1, NV)
            vr = rng.choice([v for v in range(1, NV + 1) if v != vs])
            mode = rng.randint(0, 1)
            for r in range(n):
                right, left = (r + 1) % n, (r - 1) % n
                spec[r] += [S("send", vs, p=right + 1), S("recv", vr, p=left + 1)]
                drv[r].append("xchg %d %d %d %d %d" % (vs, right + 1, vr, left + 1, mode))
        elif kind == "coll":
            k = rng.randint(0, 2)
            vin = rng.randint(1, NV)
            vout = rng.choice([v for v in range(1, NV + 1) if v != vin]) if k == 0 else vin
            root = rng.randint(1, n)
            for r in range(n):
                spec[r].append(S("coll", vin if k != 2 else 0, p=root, k=KINDS[k], w=vout if k != 2 else 0))
                drv[r].append("coll %d %d %d %d" % (k, vin if k != 2 else 0, vout if k != 2 else 0, root))
        elif kind == "sleep":
            r = rng.randrange(n)
            spec[r].append(S("nop"))
            drv[r].append("sleep %d" % rng.choice([1, 100, 5000]))
    # final read of everything by everybody
    for r in range(n):
        for v in range(1, NV + 1):
            spec[r].append(S("r", v))
            drv[r].append("r %d" % v)
    txt = "@n %d\n" % n + "".join("@rank %d\n%s\n" % (r + 1, "\n".join(drv[r])) for r in range(n)) + "@end\n"
    return {"n": n, "vars": INIT, "ranks": spec}, txt


def nontrivial(p):
    """two ranks write different values to one variable and later read it"""
    writers = {}
    for r, sts in enumerate(p["ranks"]):
        for s in sts:
            if s["op"] in ("w", "recv") or (s["op"] == "coll" and s["k"] != "barrier"):
                writers.setdefault(s["w"] if s["op"] == "coll" else s["v"], set()).add(r)
    return any(len(w) >= 2 for w in writers.values())


CONFIGS = [("mmap", ["--cfg=smpi/privatization:mmap"]),
           ("dlopen", ["--cfg=smpi/privatization:dlopen"]),
           ("mmap-rdv", ["--cfg=smpi/privatization:mmap", "--cfg=smpi/send-is-detached-thresh:0"]),
           ("dlopen-rdv", ["--cfg=smpi/privatization:dlopen", "--cfg=smpi/send-is-detached-thresh:0"])]


def run_one(ctx, tag, p, txt, cfg, timeout=90):
    drv = drivers.get("mpi_priv")
    d = os.path.join(ctx.scratch, tag)
    os.makedirs(d, exist_ok=True)
    pf = os.path.join(d, "p.txt")
    open(pf, "w").write(txt)
    tf = os.path.join(d, "t.ndjson")
    if os.path.exists(tf):
        os.unlink(tf)
    hosts = [R.HOSTS[i % len(R.HOSTS)] for i in range(p["n"])]
    hf = R.write_hostfile(os.path.join(d, "hf"), hosts)
    rc, out, err = R.smpirun(drv, p["n"], hf, [pf, tf], cfg=cfg, timeout=timeout)
    recs = []
    if os.path.exists(tf):
        for line in open(tf):
            line = line.strip()
            if not line:
                continue
            try:
                j = json.loads(line)
            except ValueError:
                j = {"e": "garbled", "raw": line[:100]}
            if j.get("e") != "fin":
                recs.append(j)
    if not recs or recs[-1].get("e") != "end":
        recs.append({"e": "died", "rc": rc, "tail": (out[-200:] + err[-600:])})
    return recs


def run(ctx):
    quick = ctx.quick
    drivers.register(DRIVERS)
    drivers.get("mpi_priv")
    n_prog = 60 if quick else 500
    progs, txts = [], []
    for i in range(n_prog):
        p, t = gen_program(ctx.rng, max_ranks=8, nsteps=ctx.rng.choice([15, 30, 60]))
        progs.append(p)
        txts.append(t)
        ctx.count(p, nontrivial=nontrivial(p))
    cfgs = CONFIGS if not quick else [CONFIGS[0], CONFIGS[1], CONFIGS[2 + ctx.seed % 2]]
    jobs = [(i, ci) for i in range(len(progs)) for ci in range(len(cfgs))]
    traces = vlib.parallel_map(lambda j: run_one(ctx, "r%d_%d" % j, progs[j[0]], txts[j[0]], cfgs[j[1]][1]), jobs)
    # a run that did not reach its end line (killed by the timeout on a loaded machine, ...) is run once more before validation
    died = [k for k, t in enumerate(traces) if t[-1].get("e") != "end"]
    for k, t2 in zip(died, vlib.parallel_map(lambda k: run_one(ctx, "d%d_%d" % jobs[k], progs[jobs[k][0]], txts[jobs[k][0]],
                                                               cfgs[jobs[k][1]][1], timeout=300), died, nproc=4)):
        traces[k] = t2
    ctx.cov["runs_repeated_after_no_end_line"] = len(died)
    ctx.cov["programs"] = len(progs)
    ctx.cov["configurations"] = [c[0] for c in cfgs]
    ctx.cov["impl_runs"] = len(jobs)
    ctx.cov["events_logged"] = sum(len(t) for t in traces)
    ctx.cov["rule"] = ("seeded random programs of 2..8 ranks over 11 global/static variables (writes of rank-specific values, reads, "
                       "p2p / ring / collective calls whose buffers are those variables, simulated sleeps), each run under %d "
                       "privatization configurations; non-trivial = two ranks write one variable; distinct by canonical hash" % len(cfgs))
    ctx.sample({"program": {"n": progs[0]["n"], "rank1": txts[0].split("@rank 2")[0][:400]}, "trace_head": traces[0][:6]})
    ctx.sample({"trace_excerpt": traces[-1][10:16]})
    spec = os.path.join(R.MSPEC, "SmpiPrivTrace.tla")
    rej = R.validate_traces(ctx, spec, progs, [(i, t) for (i, ci), t in zip(jobs, traces)], chunk=40 if quick else 120)
    ctx.cov["rejections_first_pass"] = len(rej)
    MAXCONF = 12     # re-run and report at most that many rejected executions (the others are counted)
    ctx.cov["rejections_not_reexamined"] = max(0, len(rej) - MAXCONF)

    def confirm(x):
        i, ci = jobs[x["run"]]
        t2 = run_one(ctx, "c%d_%d" % (i, ci), progs[i], txts[i], cfgs[ci][1])
        return t2, R.validate_traces(ctx, spec, progs, [(i, t2)], tag="re%d" % x["run"], nproc=1)
    for x, (t2, rej2) in zip(rej[:MAXCONF], vlib.parallel_map(confirm, rej[:MAXCONF], nproc=6)):
        i, ci = jobs[x["run"]]
        if not rej2:
            ctx.cov["unconfirmed_rejections"] = ctx.cov.get("unconfirmed_rejections", 0) + 1
            continue
        y = rej2[0]
        ctx.violation("privatization=%s: trace rejected by SmpiPriv at record %s: %s" % (cfgs[ci][0], json.dumps(y["record"]), y["reason"]),
                      files={"program.json": json.dumps(progs[i]), "program.txt": txts[i],
                             "trace.ndjson": "\n".join(json.dumps(r) for r in t2) + "\n",
                             "howto.txt": "smpirun -np %d ... %s .build/harness/mpi_priv program.txt trace.ndjson ; validate with "
                                          "spec/mpi/SmpiPrivTrace.tla (PROGS=[program.json], TRACE=reset line + trace)\n" % (progs[i]["n"], " ".join(cfgs[ci][1]))},
                      signature="C36:%s:%s" % (cfgs[ci][0], vlib.canon_hash(progs[i])),
                      detail="first unconsumed record #%d of %d" % (y["line"], len(t2)))
    ctx.assumptions += ["the log lines of all ranks are appended to one file by one OS process: file order = execution order",
                        "the driver keeps its own state on the stack/heap; only the 11 variables under test are globals",
                        "conformance holds for the executions run; TLC explores each recorded execution (a single path), not the code"]
