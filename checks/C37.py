"""C37: trace replay reproduces the online simulated time (DESIGN.md section 4, C37) -- translation validation.

For each generated MPI program restricted to the calls src/smpi/internals/smpi_replay.cpp registers (send, isend, recv,
irecv, test, wait, waitall, sendRecv, barrier, bcast, reduce, allreduce, alltoall(v), gather(v), scatter(v),
allgather(v), reducescatter, scan, exscan):
  1. harness/mpi_replay_prog.c runs it online under smpirun -trace-ti with smpi/simulate-computation:no and prints the
     simulated date after every call (simgrid_get_clock, no perturbation of the simulation);
  2. the TI trace written by that run is replayed by the stock replayer (smpirun -replay, smpireplaymain) on the same
     platform / hostfile / options; its per-action log (smpi_replay.thres:verbose, 12 decimals) gives the same dates;
  3. TLC (spec/mpi/MpiReplayTV.tla) takes the online per-rank sequence as the specification and validates the replay
     in lock-step: same calls in the same order, dates equal within precision/timing (1e-9 s), per-rank monotone.
The substance is differential (two runs of the implementation); TLA+ contributes the lock-step refinement, said plainly.

Finding on the unchanged tree (KNOWN_FINDINGS.jsonl, class test-same-key, proposed/fix-C37-test-requeue.diff): the replayer's
TestAction (a) puts a request whose test failed back at the end of the list of its (src, dst, tag) key and (b) leaves a
MPI_REQUEST_NULL placeholder after a successful test that no TI line consumes; the next wait/test on that key is replayed on
the wrong request or as a no-op and the dates differ (2 programs of 600 in the thorough tier).

Mutations (single-object rebuilds against a copy of the instrumented build, quick tier):
  M1 SendAction replays "isend" as a blocking send            -> caught (replay deadlocks / later dates)
  M2 SendAction replays "send" with half the recorded size    -> caught (dates differ)
"""
import json, os, re, shutil
import vlib, drivers
import smpi_rt_common as R

LEVEL = "translation_validation"
META = {
    "text": 'Translation validation of the TI trace + replayer pair: each generated MPI program (2..8 ranks, only calls smpi_replay.cpp registers, eager and rendez-vous sizes, isend/irecv completed by wait/test/waitall, all replayable collectives) is run online with -trace-ti and smpi/simulate-computation:no while logging the simulated date after every call; the recorded TI trace is replayed by the stock replayer on the same platform/hostfile/options with its per-action log at 1e-12 s resolution; TLC (MpiReplayTV) takes the online per-rank sequence as the specification and validates the replay in lock-step (same calls, same order, dates within precision/timing = 1e-9 s, per-rank monotone).',
    "note": "Differential in substance (two runs of the implementation); TLA+ contributes the lock-step refinement and the verdicts. Trusted: simgrid_get_clock() as online probe, the replayer's verbose log as replay probe. Waitall is generated on all pending requests only and waits in per-(src,dst,tag) FIFO order, because the TI format does not name the requests (other uses are not replayable by construction). Observed on the unchanged tree: 0 ps difference on every compared call outside one known-finding class (a tested request sharing its (src,dst,tag) key with another request of the rank: TestAction requeues at the back / leaves a null placeholder, proposed/fix-C37-test-requeue.diff; with the fix the check passes with no finding).",
    "technique": 'online run vs smpirun -replay of its TI trace, lock-step comparison by TLC (MpiReplayTV)'}
DRIVERS = {"mpi_replay_prog": (["mpi_replay_prog.c"], "c-smpi", [])}

TOL_PS = 1000            # precision/timing = 1e-9 s (smpirun's default --cfg=precision/timing:1e-9)
DTSIZE = [1, 4, 8]
COUNTS = [1, 10, 100, 1000, 5000, 20000]


def gen_program(rng, max_ranks=8, nsteps=20, with_test=True):
    """Global sequence of steps projected on the ranks (blocking calls cannot deadlock). Ranks are 0-based."""
    n = rng.randint(2, max_ranks)
    st = [[] for _ in range(n)]
    nreq = [0] * n
    pending = [[] for _ in range(n)]   # (idx, key)
    kinds = set()
    classes = set()
    tested = [set() for _ in range(n)]   # keys of the requests a rank has tested so far

    def wait_one(r, op):
        if not pending[r]:
            return
        key = rng.choice(sorted({k for _, k in pending[r]}))
        idx = min(i for i, k in pending[r] if k == key)      # the replayer pops requests of one (src, dst, tag) in FIFO order
        st[r].append("%s %d" % (op, idx))
        kinds.add(op)
        if op == "test":
            tested[r].add(key)
            if any(k == key and i > idx for i, k in pending[r]):
                classes.add("test-same-key")     # a younger pending request shares (src, dst, tag) with the tested one
        if op == "wait":
            pending[r] = [(i, k) for i, k in pending[r] if i != idx]
    for _ in range(nsteps):
        step = rng.choice(["p2p", "p2p", "p2p", "wait", "wait", "waitall", "test", "sendrecv", "coll", "coll", "coll"])
        if step == "p2p":
            s, d = rng.sample(range(n), 2)
            tag = rng.randint(0, 2)
            dt = rng.randint(0, 2)
            count = rng.choice([1, 10, 100, 1000, 10000, 20000, 70000])
            sop = rng.choice(["send", "isend"])
            rop = rng.choice(["recv", "irecv"])
            st[s].append("%s %d %d %d %d" % (sop, d, tag, count, dt))
            st[d].append("%s %d %d %d %d" % (rop, s, tag, count, dt))
            kinds.update([sop, rop])
            if sop == "isend":
                pending[s].append((nreq[s], (s, d, tag)))
                nreq[s] += 1
                if (s, d, tag) in tested[s]:
                    classes.add("test-same-key")     # a new request reuses the (src, dst, tag) of a tested one
            if rop == "irecv":
                pending[d].append((nreq[d], (s, d, tag)))
                nreq[d] += 1
                if (s, d, tag) in tested[d]:
                    classes.add("test-same-key")
        elif step == "wait":
            wait_one(rng.randrange(n), "wait")
        elif step == "test" and with_test:
            wait_one(rng.randrange(n), "test")
        elif step == "waitall":
            r = rng.randrange(n)
            if pending[r]:
                st[r].append("waitall")
                kinds.add("waitall")
                pending[r] = []
        elif step == "sendrecv":
            count = rng.choice(COUNTS)
            dt = rng.randint(0, 2)
            sh = rng.randint(1, n - 1)
            for r in range(n):
                st[r].append("sendrecv %d %d %d %d %d" % ((r + sh) % n, count, (r - sh) % n, count, dt))
            kinds.add("sendrecv")
        elif step == "coll":
            k = rng.choice(["barrier", "bcast", "reduce", "allreduce", "scan", "exscan", "alltoall", "gather", "scatter",
                            "allgather", "alltoallv", "gatherv", "scatterv", "allgatherv", "reducescatter"])
            kinds.add(k)
            count = rng.choice(COUNTS)
            root = rng.randrange(n)
            dt = rng.randint(1, 2) if k in ("reduce", "allreduce", "scan", "exscan", "reducescatter") else rng.randint(0, 2)
            vec = [rng.choice([0, 1, 7, 100, 3000]) for _ in range(n)]
            if k == "reducescatter":
                vec = [max(1, v) for v in vec]
            mat = [[rng.choice([0, 1, 50, 2000]) for _ in range(n)] for _ in range(n)]
            for r in range(n):
                if k == "barrier":
                    line = "barrier"
                elif k in ("bcast", "reduce", "gather", "scatter"):
                    line = "%s %d %d %d" % (k, count, root, dt)
                elif k in ("allreduce", "scan", "exscan", "alltoall", "allgather"):
                    line = "%s %d %d" % (k, count if k not in ("alltoall", "allgather") else min(count, 5000), dt)
                elif k == "alltoallv":
                    line = "alltoallv %d %s %s %d" % (n, " ".join(str(x) for x in mat[r]), " ".join(str(mat[j][r]) for j in range(n)), dt)
                elif k in ("gatherv", "scatterv"):
                    line = "%s %d %d %s %d" % (k, root, n, " ".join(str(x) for x in vec), dt)
                else:
                    line = "%s %d %s %d" % (k, n, " ".join(str(x) for x in vec), dt)
                st[r].append(line)
    for r in range(n):
        if pending[r]:
            st[r].append("waitall")
    txt = "@n %d\n" % n + "".join("@rank %d\n%s\n" % (r, "\n".join(st[r])) for r in range(n)) + "@end\n"
    return {"n": n, "ranks": st, "kinds": sorted(kinds), "classes": sorted(classes)}, txt


def date_parts(txt):
    """'12.345678901234' -> (milliseconds, picoseconds within the millisecond), exactly (no float arithmetic)"""
    m = re.fullmatch(r"(\d+)\.(\d{12})", txt)
    if not m:
        raise ValueError("bad date " + txt)
    ps = int(m.group(1)) * 10 ** 12 + int(m.group(2))
    return ps // 10 ** 9, ps % 10 ** 9


def run_pair(ctx, tag, p, txt, extra_cfg=(), timeout=60):
    """online run with TI tracing, then replay. Returns dict(online, replay per-rank sequences | error)."""
    drv = drivers.get("mpi_replay_prog")
    d = os.path.join(ctx.scratch, tag)
    shutil.rmtree(d, ignore_errors=True)
    os.makedirs(d)
    pf = os.path.join(d, "prog.txt")
    open(pf, "w").write(txt)
    hosts = [R.HOSTS[(i * 3) % len(R.HOSTS)] for i in range(p["n"])] if p["n"] <= len(R.HOSTS) else \
        [R.HOSTS[i % len(R.HOSTS)] for i in range(p["n"])]
    hf = R.write_hostfile(os.path.join(d, "hf"), hosts)
    ti = os.path.join(d, "ti.txt")
    cfg = ["--cfg=smpi/simulate-computation:no"] + list(extra_cfg)
    rc, out, err = R.smpirun(drv, p["n"], hf, [pf], cfg=cfg, pre=["-trace-ti", "-trace-file", ti], timeout=timeout, cwd=d)
    online = [[] for _ in range(p["n"])]
    ended = 0
    try:
        for line in out.splitlines():
            t = line.split()
            if len(t) == 4 and t[0] == "D":
                hi, lo = date_parts(t[3])
                online[int(t[1])].append({"c": t[2].lower(), "hi": hi, "lo": lo})
            elif len(t) == 2 and t[0] == "E":
                ended += 1
    except ValueError as e:
        return {"error": "online output: %s" % e}
    if rc != 0 or ended != p["n"] or not os.path.exists(ti):
        return {"error": "online run failed (rc=%s, %d/%d ranks ended): %s" % (rc, ended, p["n"], (out[-300:] + err[-900:]))}
    rc2, out2, err2 = R.smpirun(None, p["n"], hf, cfg=cfg + ["--log=smpi_replay.thres:verbose", "--log=smpi_replay.fmt:R|%.12r|%m%n"],
                                pre=["-replay", ti], timeout=timeout, cwd=d)
    replay = [[] for _ in range(p["n"])]
    simtime = None
    try:
        for line in (out2 + "\n" + err2).splitlines():
            if not line.startswith("R|"):
                continue
            _, date, msg = line.split("|", 2)
            t = msg.split()
            if msg.startswith("Simulation time"):
                simtime = t[-1]
                continue
            if len(t) >= 3 and t[0].isdigit() and int(t[0]) < p["n"]:
                hi, lo = date_parts(date)
                replay[int(t[0])].append({"c": t[1].lower(), "hi": hi, "lo": lo})
    except ValueError as e:
        return {"error": "replay output: %s" % e}
    res = {"online": online, "replay": replay, "replay_rc": rc2, "simtime": simtime, "dir": d}
    if rc2 != 0:
        res["replay_tail"] = (out2[-300:] + err2[-900:])
    return res


def brief(p):
    return {"n": p["n"], "ranks": [" ; ".join(r) for r in p["ranks"]]}


def run(ctx):
    quick = ctx.quick
    drivers.register(DRIVERS)
    drivers.get("mpi_replay_prog")
    n_prog = 70 if quick else 600
    progs, txts = [], []
    seen = set()
    while len(progs) < n_prog:
        p, t = gen_program(ctx.rng, max_ranks=8, nsteps=ctx.rng.choice([8, 20, 40]))
        h = vlib.canon_hash(p)
        if h in seen:
            continue
        seen.add(h)
        progs.append(p)
        txts.append(t)
    res = vlib.parallel_map(lambda i: run_pair(ctx, "p%d" % i, progs[i], txts[i]), list(range(len(progs))))
    for i, x in enumerate(res):
        if "error" in x:   # the online run is the oracle: if it does not run, this is not a disagreement; once more, then give up
            x = res[i] = run_pair(ctx, "p%db" % i, progs[i], txts[i])
            if "error" in x:
                raise vlib.InfraError("online run of a generated program failed: %s\n%s" % (x["error"], txts[i][:1500]))

    def tlc_verdicts(cases, tag):
        cf = os.path.join(ctx.scratch, tag + ".json")
        json.dump(cases, open(cf, "w"))
        r = vlib.tlc(os.path.join(R.MSPEC, "MpiReplayTV.tla"), env={"CASES": cf}, workers=4, timeout=1500, xmx="4g")
        R.tlc_or_die(r, "MpiReplayTV")
        ctx.add_tlc(r)
        v = {x[0]: x[1:] for x in R.parse_prints(r, "VERDICT")}
        if len(v) != len(cases):
            raise vlib.InfraError("MpiReplayTV: %d cases, %d verdicts\n%s" % (len(cases), len(v), r.out[-1500:]))
        return [v[k] for k in range(1, len(cases) + 1)]
    cases = [{"n": p["n"], "tol": TOL_PS, "online": x["online"], "replay": x["replay"]} for p, x in zip(progs, res)]
    verdicts = tlc_verdicts(cases, "cases")
    ncalls = 0
    kinds = {}
    for p, x in zip(progs, res):
        calls = sum(len(s) for s in x["online"])
        ncalls += calls
        ctx.count(p, nontrivial=calls >= 2 * p["n"])
        for k in p["kinds"]:
            kinds[k] = kinds.get(k, 0) + 1
    ctx.cov["programs"] = len(progs)
    ctx.cov["calls_compared"] = ncalls
    ctx.cov["programs_using_call"] = kinds
    ctx.cov["programs_in_class_test-same-key"] = sum(1 for p in progs if "test-same-key" in p["classes"])
    ctx.cov["max_date_difference_ps"] = max([v[3] for v in verdicts if v[0] == "ok"] or [0])
    ctx.cov["tolerance_ps"] = TOL_PS
    ctx.cov["rule"] = ("seeded random MPI programs of 2..8 ranks over the calls the replayer registers (global step sequence projected "
                       "on ranks; eager and rendez-vous sizes; isend/irecv completed by wait/test/waitall); each is run online with "
                       "TI tracing and replayed; non-trivial = at least two calls per rank on average; distinct by canonical hash")
    for i in (0, len(progs) // 2):
        ctx.sample({"program": brief(progs[i]), "online_rank0": res[i]["online"][0][:5], "replay_rank0": res[i]["replay"][0][:5],
                    "verdict": verdicts[i]})
    # ---------------- disagreements: run the pair again and ask TLC again
    dis = [i for i, v in enumerate(verdicts) if v[0] != "ok"]
    ctx.cov["disagreements_first_pass"] = len(dis)
    checked = 0
    MAXCONF = 15   # disagreements re-run and reported (the others are counted)
    ctx.cov["disagreements_not_reexamined"] = max(0, len(dis) - MAXCONF)
    dis = dis[:MAXCONF]
    again = vlib.parallel_map(lambda i: run_pair(ctx, "c%d" % i, progs[i], txts[i]), dis)
    for i, x2 in zip(dis, again):
        checked += 1
        if "error" in x2:
            raise vlib.InfraError("online run failed on re-run: " + x2["error"])
        v2 = tlc_verdicts([{"n": progs[i]["n"], "tol": TOL_PS, "online": x2["online"], "replay": x2["replay"]}], "re%d" % i)[0]
        if v2[0] == "ok":
            ctx.cov["unconfirmed_disagreements"] = ctx.cov.get("unconfirmed_disagreements", 0) + 1
            continue
        why, r, k, diff = v2[0], v2[1], v2[2], v2[3]
        on = x2["online"][r - 1][max(0, k - 2):k + 1] if r >= 1 else []
        rp = x2["replay"][r - 1][max(0, k - 2):k + 1] if r >= 1 else []
        tifiles = {}
        tdir = os.path.join(x2["dir"], "ti.txt_files")
        if os.path.isdir(tdir):
            for f in sorted(os.listdir(tdir))[:8]:
                tifiles["ti_" + f.split("_")[-1]] = open(os.path.join(tdir, f)).read()
        files = {"prog.txt": txts[i], "online.json": json.dumps(x2["online"]), "replay.json": json.dumps(x2["replay"]),
                 "howto.txt": "smpirun -np N ... --cfg=smpi/simulate-computation:no -trace-ti -trace-file ti.txt .build/harness/mpi_replay_prog prog.txt ; "
                              "smpirun -np N ... -replay ti.txt --log=smpi_replay.thres:verbose '--log=smpi_replay.fmt:R|%.12r|%m%n' ; "
                              "compare with spec/mpi/MpiReplayTV.tla (CASES)\n"}
        files.update(tifiles)
        ctx.violation("replay disagrees with the online run (%s) at rank %d call #%d (difference %s ps): online %s replay %s%s" %
                      (why, r - 1, k, diff, json.dumps(on), json.dumps(rp), " replay rc=%s %s" % (x2["replay_rc"], x2.get("replay_tail", "")) if x2["replay_rc"] else ""),
                      files=files,
                      signature=("C37:test-same-key:%s" % vlib.canon_hash(progs[i])) if "test-same-key" in progs[i]["classes"] else
                      "C37:%s:%s:%s" % (why, (x2["online"][r - 1][k - 1]["c"] if r >= 1 and k <= len(x2["online"][r - 1]) else "end"),
                                        vlib.canon_hash(progs[i])),
                      detail=json.dumps(brief(progs[i])))
    ctx.cov["disagreements_checked"] = checked
    ctx.assumptions += ["the online run is the reference; both runs use the same platform, hostfile, rank placement and options",
                        "dates are compared at 1e-12 s resolution (12 printed decimals) with tolerance precision/timing = 1e-9 s",
                        "MPI_Waitall is only generated on all pending requests of the rank and waits follow the per-(source, destination, tag) FIFO order: the TI "
                        "format does not name the requests of waitall / wait, other uses cannot be replayed faithfully by construction",
                        "simgrid_get_clock() is used for the online dates (MPI_Wtime would inject smpi/wtime)"]
