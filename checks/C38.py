"""C38 Model-checker reductions are sound (DESIGN.md section 4, C38).
Reference = TLC's own exhaustive, reduction-free exploration of SgKernel at MC granularity: the set of terminal outcomes
(observations of every actor + deadlock or not) of each generated program. simgrid-mc is run with every reduction; hook H1
traces every application process (= every explored execution) and each one is validated by TLC as a behaviour of SgKernel; the
terminal outcomes reached by the exploration must all be reference outcomes, must cover the whole reference set when the
exploration runs to completion, and a deadlock must be reported iff the reference can deadlock."""
import json
import vlib
import kernel_common as K
import mcbind_common as M
LEVEL = "model_checking"
META = {"text": "TLC explores each program exhaustively without any reduction (reference outcome set); every execution explored by "
                "simgrid-mc under reduction none / dpor / sdpor / odpor (DFS; thorough: also BeFS and the uniform strategy) is "
                "validated as a behaviour of the same specification, and the set of terminal outcomes it reaches is compared with the "
                "reference: no foreign outcome, full coverage when the exploration completes, deadlock verdict iff reachable.",
        "note": "Programs of 2-3 actors x up to 4 operations over mutexes, semaphores, barriers and mailboxes (no condition variable, "
                "no time). An outcome is what the actors observe plus the final blocked/finished status; reductions must preserve "
                "it because it is a function of the Mazurkiewicz trace. udpor and the parallel explorer are not run.",
        "technique": "TLC exhaustive reference + TLC trace validation of every simgrid-mc execution (hooks H1/H4) + outcome-set comparison"}


def run(ctx):
    quick = ctx.quick
    progs = M.programs(ctx, 10 if quick else 24, 3, 4, kinds=M.ALL_KINDS)
    for p in progs:
        ctx.count(p, nontrivial=K.shared_objects(p))
    for p in progs[:1] + progs[-2:]:
        ctx.sample(K.prog_brief(p))
    ctx.cov["rule"] = "regression programs + seeded random MC-granularity programs; non-trivial = two actors share an object; distinct by JSON hash"
    ref = M.reference(ctx, progs)
    ctx.cov["exhaustive"] = True
    configs = [("dfs", [])] if quick else [("dfs", []), ("befs", ["--cfg=model-check/exploration-algo:BeFS"]),
                                            ("uniform", ["--cfg=model-check/strategy:uniform"])]
    ctx.cov["reductions"] = M.REDUCTIONS
    ctx.cov["explorers"] = [c[0] for c in configs]
    nexec = 0
    for cname, cfg in configs:
        for full in ((False, True) if cname == "dfs" else (False,)):    # the other explorers: verdict pass only (see below)
            # first pass: stop at the first error (verdict); second pass: keep exploring after errors (coverage)
            extra = cfg + (["--cfg=model-check/max-errors:-1"] if full else [])
            sel = [i for i in range(len(progs)) if (any(o["end"] == "deadlock" for o in ref[i]) or not full)]
            if not sel:
                continue
            sub = [progs[i] for i in sel]
            res = M.explore_all(ctx, sub, M.REDUCTIONS, extra)
            rej, term = M.validate_explorations(ctx, sub, res)
            for x in rej:
                j, red = x["key"]
                ctx.violation("execution explored by simgrid-mc (reduction %s, %s) is not a behaviour of SgKernel: record %s: %s" %
                              (red, cname, json.dumps(x["record"]), x["reason"]),
                              files={"program.json": json.dumps(sub[j]), "program.txt": K.prog_to_txt(sub[j]),
                                     "trace.ndjson": "\n".join(json.dumps(r) for r in x["trace"]) + "\n"},
                              signature="C38:conf:%s:%s" % (red, vlib.canon_hash(sub[j])), detail=json.dumps(K.prog_brief(sub[j])))
            badp = {x["key"] for x in rej}
            if len(rej) >= 8:
                continue      # too many non-conforming executions: the remaining ones were not examined, nothing to compare
            for (j, red), r in res.items():
                nexec += len(r["traces"])
                if (j, red) in badp:
                    continue
                i = sel[j]
                refset = {M.okey(o) for o in ref[i]}
                got = term.get((j, red), set())
                can_dl = any(o["end"] == "deadlock" for o in ref[i])
                files = {"program.json": json.dumps(progs[i]), "program.txt": K.prog_to_txt(progs[i]),
                         "reference_outcomes.json": json.dumps(sorted(refset), indent=1), "explored_outcomes.json": json.dumps(sorted(got), indent=1),
                         "simgrid-mc.out": r["out"][-6000:]}
                sig = "C38:%s:%s:%s" % (red, cname, vlib.canon_hash(progs[i]))
                if M.has_rand(progs[i]) and red in ("sdpor", "odpor"):
                    sig = "C38:mc-random:%s:incomplete" % red       # known finding: ODPOR / SDPOR mishandle MC_random (see explore_all)
                if r["timeout"]:
                    ctx.cov["mc_timeouts"] = ctx.cov.get("mc_timeouts", 0) + 1
                    continue
                if got - refset:
                    ctx.violation("reduction %s (%s) reaches an outcome the reference semantics cannot reach" % (red, cname), files=files,
                                  signature=sig + ":foreign", detail=json.dumps(K.prog_brief(progs[i])))
                if r["deadlock"] != can_dl and "did not do any transition before terminating" in r["out"]:
                    sig = "C38:initial-deadlock"       # known finding: a program deadlocked in its initial state is reported as fine
                if r["deadlock"] != can_dl:
                    ctx.violation("reduction %s (%s): deadlock %s but the reference says a deadlock is %s" %
                                  (red, cname, "reported" if r["deadlock"] else "not reported", "reachable" if can_dl else "unreachable"),
                                  files=files, signature=sig + ":verdict", detail=json.dumps(K.prog_brief(progs[i])))
                # full coverage is demanded of an exploration that ran to completion: always without a reachable deadlock; with one,
                # only for the DFS explorer asked to go on after errors (BeFS and the uniform strategy stop at the first error
                # whatever model-check/max-errors says: nothing in the property forbids it)
                if ((full and cname == "dfs") or not can_dl) and refset - got:
                    ctx.violation("reduction %s (%s) completes without reaching %d reference outcome(s)" % (red, cname, len(refset - got)),
                                  files=files, signature=sig + ":missing", detail=json.dumps(K.prog_brief(progs[i])))
    ctx.cov["executions_explored_by_simgrid_mc"] = nexec
    ctx.assumptions += ["the reference is TLC's exploration of the specification; simgrid-mc is bound to it by validating every explored execution",
                        "outcomes compared = per-actor observations + end status; internal kernel state is compared step by step by the trace validation"]
