"""C39 Declared-independent transitions commute (DESIGN.md section 4, C39).

  M  spec/kernel/SgKernelCommute.tla (on top of SgKernelMC): in every reachable state of every generated program at MC
     granularity, for every pair of co-enabled transitions of different actors, the reference semantics decides "commute" =
     neither disables the other and both orders reach the same state (up to the numbering of activities); every pair is
     printed in the three views the checker can take of it (both pending; both executed, consecutive; executed + pending).
  binding  each distinct pair is rebuilt as two REAL transitions (harness/mc_unit_driver, mc::deserialize_transition) and the
     REAL Transition::dispatch_depends is asked in both directions: it must be symmetric, and may answer "independent" only
     if TLC found the pair commuting in every state where it occurs. (Dependent-but-commuting is allowed: conservative.)
  T  spec/kernel/SgKernelCommuteReplay.tla: executions explored by simgrid-mc (reduction none, hooks H1+H4) are replayed on
     the semantics by their schedule; consecutive co-enabled steps give pairs with the checker's OWN field values
     (communication ids, ends); same requirement; the view model of M is compared with the checker's records.

  extension (signature "C39:enables:..."): a transition whose execution ENABLES another one (disabled before it) must be
     declared dependent with it in the executed/executed view (what odpor::Execution builds happens-before from); this is
     the other half of the usual definition of independence, not in the statement; the unchanged tree satisfies it.

Genuine defect found on the unchanged tree (KNOWN_FINDINGS.jsonl, proposed/fix-C39-barrier-lock-lock.diff):
  two BARRIER_ASYNC_LOCK on one barrier are declared independent, but with more participants than the barrier's size the
  order of arrival decides who completes the group (barrier of 2, three actors: sdpor/odpor reach 1 of the 4 outcomes that
  reduction none and the reference reach). With the proposed fix C39 exits 0 without KNOWN-FINDING and sdpor/odpor reach 4.

Mutations tried (mutated Transition.cpp recompiled from a worktree and relinked into a copy of the build, quick tier):
  * the fix "a comm test of a not yet paired communication depends on the send/receive that may pair with it" reverted
        -> VIOLATION (iSend|iRecv vs TestComm, pp / ee / real views)
  * MUTEX_UNLOCK declared independent of MUTEX_WAIT on the same mutex
        -> not visible to the statement itself (the two are never co-enabled); VIOLATION through the "enables" extension
"""
import json, os
import vlib
import kernel_common as K
import mcbind_common as M
import mc_common as MC
import mcdep_common as D
from kernel_common import op, new_prog

LEVEL = "model_checking"
DRIVERS = {"mc_unit_driver": MC.DRIVERS["mc_unit_driver"]}
META = {"text": "TLC explores every reachable state of every generated program on the reference semantics at the granularity of the "
                "checker's transitions and decides, for every pair of co-enabled transitions of different actors, whether they "
                "commute (neither disables the other, same state in both orders up to the numbering of activities); each pair is "
                "described as the checker sees it (pending and executed views) and rebuilt as two real Transition objects whose real "
                "depends() is asked in both directions: symmetric, and 'independent' only for pairs that commute in every state "
                "where they occur. The same is done on pairs of consecutive co-enabled steps of executions really explored by "
                "simgrid-mc (reduction none), with the checker's own field values, which also checks the view model.",
        "note": "Trusted: TLC, the reference semantics SgKernel (bound to the real kernel by the kernel checks and C43), the driver's "
                "decoding path. Programs of 2-3 actors x up to 4 operations: mutexes, semaphore, barrier, condition variable, mailboxes, wait/test; "
                "waitany/testany, actor transitions are not covered. One deviation is recorded as a known "
                "finding (two BARRIER_ASYNC_LOCK on one barrier). The 'enables' extension goes beyond the statement.",
        "technique": "TLC model checking (SgKernelCommute over SgKernelMC) + real depends() from transitions rebuilt by "
                     "mc_unit_driver + TLC replay of simgrid-mc explorations (SgKernelCommuteReplay, hooks H1/H4)"}


def directed_programs():
    """Programs that put the delicate pairs in co-enabled positions (kept as regression cases)."""
    mc = dict(timed=False, gran="mc")
    return [
        # the defect found by C38: a test of a not yet paired communication vs the send / receive that pairs with it
        new_prog(perm=[0, 0], actors=[[op("geta", 2), op("test", 1)], [op("puta", 2, 0, 1), op("wait", 1)]], **mc),
        new_prog(perm=[0], actors=[[op("puta", 1, 0, 1), op("test", 1), op("wait", 1)], [op("get", 1)], [op("geta", 1), op("test", 1)]], **mc),
        # mutex: unlock / wait / trylock / async lock on one mutex, and on two
        new_prog(rec=[False, False], actors=[[op("lock", 1), op("unlock", 1), op("lock", 2), op("unlock", 2)],
                                             [op("lock", 1), op("unlock", 1)], [op("trylock", 1, 1), op("unlock", 1), op("lock", 2), op("unlock", 2)]], **mc),
        # a barrier of 2 used by 3 actors: the order of arrival decides who passes
        new_prog(bar=[2], rec=[False], actors=[[op("bar", 1), op("lock", 1), op("unlock", 1)], [op("bar", 1)], [op("bar", 1), op("trylock", 1, 1), op("unlock", 1)]], **mc),
        # semaphore and barrier
        new_prog(cap=[1], bar=[2], actors=[[op("acq", 1), op("bar", 1), op("rel", 1)], [op("acq", 1), op("rel", 1), op("bar", 1)],
                                           [op("rel", 1), op("acq", 1)]], **mc),
        # two mailboxes: sends / receives / waits that do and do not meet
        new_prog(perm=[0, 0], actors=[[op("puta", 1, 0, 1), op("puta", 2, 0, 1), op("wait", 2), op("wait", 1)],
                                      [op("geta", 2), op("get", 1), op("wait", 1)], [op("put", 1, 0, 1)]], **mc),
    ]


def _tlc_pairs(ctx, progs, tag):
    pf = os.path.join(ctx.scratch, tag + "_progs.json")
    K.write_progs(pf, progs)
    r = vlib.tlc(os.path.join(K.KSPEC, "SgKernelCommute.tla"), env={"PROGS": pf}, timeout=1500 if ctx.quick else 5000, workers=8)
    if not r.ok:
        raise vlib.InfraError("SgKernelCommute failed (%s %s)\n%s" % (r.status, r.what[:300], r.out[-2500:]))
    recs = []
    for l in r.prints:
        if l.startswith('"{'):
            recs.append(json.loads(json.loads(l)))
    return r, recs


def _judge(ctx, table, progs, origin):
    """table: key (desc1, desc2) -> {"commute": bool (in every state seen), "v1", "v2", "wit": witness record}."""
    keys = sorted(table)
    ans = D.real_depends(ctx, keys, origin)
    nbad = 0
    for key, (d12, d21, s1, s2) in zip(keys, ans):
        e = table[key]
        e["dep"] = (d12, d21)
        ctx.count({"o": origin, "p": key}, nontrivial=(not e["commute"]) or d12 == 1)
        problems = []
        if d12 != d21:
            problems.append("asymmetric")
        if (d12 == 0 or d21 == 0) and not e["commute"]:
            problems.append("independent-but-not-commuting")
        if not problems:
            continue
        # a rejection is reported only if asking again gives the same answer
        (e12, e21, _, _), = D.real_depends(ctx, [key], origin + "_re")
        if (e12, e21) != (d12, d21):
            ctx.cov["unconfirmed_rejections"] = ctx.cov.get("unconfirmed_rejections", 0) + 1
            continue
        nbad += 1
        if nbad > 10:
            continue
        v1, v2 = e["v1"], e["v2"]
        en = str(e["wit"].get("k", "")).endswith("en")
        t1, t2 = sorted([D.TYPE_OF.get(v1["t"], v1["t"]), D.TYPE_OF.get(v2["t"], v2["t"])])
        w = e["wit"]
        files = {"pair.txt": "Y 0\nT %s\nT %s\n" % key, "witness.json": json.dumps(w, indent=1),
                 "howto.txt": ".build/harness/mc_unit_driver pair.txt  prints the real depends() in both directions; witness.json = "
                              "where spec/kernel/SgKernelCommute.tla found the pair not commuting (program number, program counters)\n"}
        if "pid" in w and 0 < w["pid"] <= len(progs):
            files["program.json"] = json.dumps(progs[w["pid"] - 1])
            files["program.txt"] = K.prog_to_txt(progs[w["pid"] - 1])
        ctx.violation("the checker declares %s and %s independent (depends = %d/%d) but %s" %
                      (s1, s2, d12, d21, "the relation is not symmetric" if problems == ["asymmetric"] else
                       ("the reference semantics has a state where the first one enables the second one (%s view)" if en else
                        "the reference semantics has a state where they do not commute (%s view)") % w.get("k", "?")),
                      files=files, signature="C39:%s%s:%s:%s" % ("enables:" if en else "", t1, t2, D.condition(v1, v2)),
                      detail="pair: %s | %s\nproblems: %s\nwitness: %s" % (key[0], key[1], problems, json.dumps(w)))


def run(ctx):
    quick = ctx.quick
    progs = directed_programs() + M.programs(ctx, 40 if quick else 200, 3, 4)
    for p in progs[:1] + progs[-2:]:
        ctx.sample(K.prog_brief(p), limit=3)
    ctx.cov["programs"] = len(progs)
    # ---------------------------------------------------------------- M: every co-enabled pair of every reachable state
    r, recs = _tlc_pairs(ctx, progs, "commute")
    ctx.add_tlc(r)
    ctx.cov["exhaustive"] = True
    table = {}
    for x in recs:
        key = (D.desc_of_view(x["t1"]), D.desc_of_view(x["t2"]))
        e = table.setdefault(key, {"commute": True, "v1": x["t1"], "v2": x["t2"], "wit": None, "views": set()})
        e["views"].add(x["k"])
        if not x["commute"] and e["commute"]:
            e["commute"] = False
            e["wit"] = {k: x[k] for k in ("k", "pid", "pc", "sub")}
        if e["wit"] is None:
            e["wit"] = {k: x[k] for k in ("k", "pid", "pc", "sub")}
    ctx.cov["spec_pairs"] = {"records": len(recs), "distinct_pairs": len(table),
                             "not_commuting": sum(1 for e in table.values() if not e["commute"]),
                             "type_pairs": len({(e["v1"]["t"], e["v2"]["t"]) for e in table.values()}),
                             "enabling_pairs": sum(1 for e in table.values() if "en" in e["views"])}
    if not table:
        raise vlib.InfraError("SgKernelCommute printed no pair")
    _judge(ctx, table, progs, "spec")
    ctx.cov["spec_pairs"]["declared_dependent"] = sum(1 for e in table.values() if e.get("dep") == (1, 1))
    ctx.cov["spec_pairs"]["dependent_but_commuting"] = sum(1 for e in table.values() if e.get("dep") == (1, 1) and e["commute"])
    for e in list(table.values())[:2]:
        ctx.sample({"t1": e["v1"], "t2": e["v2"], "commute_in_every_state": e["commute"], "real_depends": e.get("dep")}, limit=5)

    # ---------------------------------------------------------------- T: pairs of real explorations, the checker's own values
    nprog = 8 if quick else 30
    cap = 60 if quick else 250
    # the smallest programs (the unreduced exploration grows with the factorial of the length) + the three directed cases
    # of the comm-test defect and of the barrier
    size = lambda p: sum(len(a) for a in p["actors"])
    sel = sorted(set([0, 1, 3] + sorted(range(len(progs)), key=lambda i: (size(progs[i]), i))[:nprog]))
    res = M.explore_all(ctx, [progs[i] for i in sel], ["none"], ["--cfg=model-check/max-errors:-1"], timeout=300)
    execs, dropped, nexec = [], 0, 0
    for (j, red), rr in res.items():
        ex, dr = D.executions(progs[sel[j]], rr)
        dropped += dr
        nexec += len(ex)
        step = max(1, len(ex) // cap)
        for steps in ex[::step][:cap]:
            if len(steps) < 2:
                continue
            execs.append({"id": len(execs) + 1, "pid": sel[j] + 1, "sched": [s["a"] for s in steps],
                          "tr": [D.view_of_step(s) for s in steps]})
    ctx.cov["real"] = {"programs": len(sel), "executions_explored": nexec, "executions_replayed": len(execs),
                       "executions_dropped_no_view": dropped}
    if execs:
        pf = os.path.join(ctx.scratch, "replay_progs.json")
        K.write_progs(pf, progs)
        ef = os.path.join(ctx.scratch, "replay_execs.json")
        json.dump(execs, open(ef, "w"))
        r2 = vlib.tlc(os.path.join(K.KSPEC, "SgKernelCommuteReplay.tla"), env={"PROGS": pf, "EXECS": ef},
                      timeout=1500 if quick else 5000, workers=8)
        if not r2.ok:
            raise vlib.InfraError("SgKernelCommuteReplay failed (%s %s)\n%s" % (r2.status, r2.what[:300], r2.out[-2500:]))
        ctx.add_tlc(r2)
        stuck = [l for l in r2.prints if l.startswith('<<"STUCK"')]
        ctx.cov["real"]["executions_the_semantics_cannot_follow"] = len(stuck)     # C43's business, counted here
        stuck_ids = {vlib.parse_tla_value(l)[1] for l in stuck}
        ctx.cov["traces_validated_against_impl"] += len(execs) - len(stuck_ids)
        rtable, mism, npairs = {}, [], 0
        for l in r2.prints:
            if not l.startswith('"{'):
                continue
            x = json.loads(json.loads(l))
            # the view model of SgKernelCommute against the checker's own record (identifiers of communications differ);
            # a pair whose records do not fit the step the specification is at is not judged (a few application processes
            # are forked from an intermediate state and their H4 records cannot be aligned: the harness's business)
            bad = False
            for rv, sv in ((x["r1"], x["v1"]), (x["r2"], x["v2"])):
                if (rv["t"], rv["a"], rv["o"], rv.get("m", 0)) != (sv["t"], sv["a"], sv["o"], sv.get("m", 0)) or \
                   (rv["t"] in ("TestComm", "WaitComm") and (rv["f"], rv["d"]) != (sv["f"], sv["d"])):
                    bad = True
            npairs += 1
            if bad:
                mism.append((x["id"], x["r1"], x["v1"], x["r2"], x["v2"]))
                continue
            key = (D.desc_of_view(x["r1"]), D.desc_of_view(x["r2"]))
            e = rtable.setdefault(key, {"commute": True, "v1": x["r1"], "v2": x["r2"], "wit": None})
            w = {"k": x["k"], "pid": x["pid"], "execution": x["id"], "step": x["step"],
                 "schedule": execs[x["id"] - 1]["sched"]}
            if not x["commute"] and e["commute"]:
                e["commute"], e["wit"] = False, w
            if e["wit"] is None:
                e["wit"] = w
        ctx.cov["real"]["distinct_pairs"] = len(rtable)
        ctx.cov["real"]["not_commuting"] = sum(1 for e in rtable.values() if not e["commute"])
        ctx.cov["real"]["view_mismatches"] = len(mism)
        ctx.cov["real"]["executions_with_a_view_mismatch"] = len({m[0] for m in mism})
        if len(mism) > max(3, npairs // 20):
            raise vlib.InfraError("the view model of SgKernelCommute disagrees too often with the checker's records of executed "
                                  "transitions (%d of %d pairs; specification/driver problem, or C43): %s" % (len(mism), npairs, mism[0],))
        if rtable:
            _judge(ctx, rtable, progs, "real")
            for e in list(rtable.values())[:1]:
                ctx.sample({"real_t1": e["v1"], "real_t2": e["v2"], "commute": e["commute"], "real_depends": e.get("dep")}, limit=5)
    ctx.cov["rule"] = ("programs = directed cases + seeded random MC-granularity programs (2-3 actors, <= 4 operations: mutexes, "
                       "semaphore, barrier, mailboxes, test/wait); cases = distinct pairs of transition descriptions (types, actors, "
                       "objects, communication, ends) in the pending/pending, executed/executed and executed/pending views, from "
                       "every reachable state (TLC) and from consecutive steps of real reduction-none explorations; non-trivial = "
                       "the pair does not commute somewhere or the checker declares it dependent")
    ctx.assumptions += [
        "commutation is decided by the reference semantics SgKernel (bound to the real kernel by C03-C14/C43), on its states "
        "up to the numbering of activities; observation histories are per actor",
        "identifiers in the specification's views are an injective renaming of the real ones (depends() only compares them)",
        "transition kinds covered: mutex (async lock, wait, trylock, unlock), semaphore, barrier, condition variable, iSend/iRecv/WaitComm/TestComm; "
        "waitany/testany, actor join/create are not generated (not in the MC-granularity specification)",
        "pairs whose execution reaches undefined behaviour in the specification are not judged"]
