"""C40 ODPOR explores each equivalence class once (DESIGN.md section 4, C40).

For generated programs whose reference (TLC, SgKernelMC) has no deadlock, simgrid-mc is run with reduction none and with
reduction odpor (+ model-check/debug-optimality). Hooks H1/H4 give every explored execution with the checker's decoded
transitions; TLC (SgKernelTrace) validates each one and says which are complete (nothing enabled at the end). Every complete
execution is rebuilt as a sequence of REAL transitions in the real odpor::Execution (harness/mc_unit_driver) to obtain the
REAL pairwise depends(); TLC (spec/mc/HbClasses.tla = HbTrace + Hb!NormalForm) re-checks happens-before / racing events on
these real executions and reduces each to the lexicographic normal form of its Mazurkiewicz class under the checker's own
dependency relation. Required per program: no two ODPOR executions have the same normal form; their number equals the number
of distinct normal forms of the reduction-none run; the checker's own debug-optimality verdict agrees.

Mutations tried (mutated sources recompiled from a worktree and relinked into a copy of the build, quick tier), all caught:
  * ODPOR::races_computation skips the reversible races with (e + e') % 3 == 0          -> VIOLATION (classes: 3 explored of 57, ...)
  * Execution::get_odpor_extension_from: the sleep-set / weak-initial filtering disabled (redundant wakeup sequences)
                                                       -> VIOLATION (duplicate: 3 executions of 2 classes; debug-optimality agrees)
"""
import json, os, re
import vlib
import kernel_common as K
import mcbind_common as M
import mc_common as MC
import mcdep_common as D

LEVEL = "model_checking"
DRIVERS = {"mc_unit_driver": MC.DRIVERS["mc_unit_driver"]}
META = {"text": "For deadlock-free generated programs simgrid-mc is run with reduction none and odpor; every explored execution is "
                "validated by TLC against the reference semantics (which also tells the complete ones), rebuilt as real transitions "
                "in the real odpor::Execution to obtain the real pairwise depends(), and reduced by TLC (Hb.tla) to the lexicographic "
                "normal form of its Mazurkiewicz class under that relation; per program the ODPOR executions must have pairwise "
                "distinct normal forms, as many as the reduction-none run has classes, and the checker's debug-optimality verdict "
                "must agree.",
        "note": "Trusted: TLC, hooks H1/H4 and the harness that rebuilds the executions, the driver. Programs of 2-3 actors x up to 4 "
                "operations without reachable deadlock and with at most 400 (thorough 2500) unreduced executions; DFS explorer. "
                "Equivalence is the checker's own relation (C39 judges that relation).",
        "technique": "simgrid-mc explorations (hooks H1/H4) + TLC trace validation (SgKernelTrace) + real depends() via mc_unit_driver "
                     "+ TLC normal forms (HbClasses/Hb)"}


def _complete_executions(ctx, progs, res, tag):
    """res: dict (j, red) -> run. Returns dict (j, red) -> list of complete executions (lists of steps with the checker's
    view), after TLC validated every execution against SgKernel (still_enabled = false <=> complete)."""
    keys, traces, steps_of = [], [], []
    dropped = 0
    for key, r in res.items():
        ex, dr = D.executions(progs[key[0]], r, indices=True)
        dropped += dr
        for ti, steps in ex:
            keys.append(key)
            traces.append((key[0], M.with_xend([r["traces"][ti]])[0]))
            steps_of.append(steps)
    outc = []
    rej = K.validate_traces(ctx, progs, traces, tag=tag, outcomes=outc, max_rej=8)
    bad = {x["index"] for x in rej}
    ctx.cov["executions_rejected_by_SgKernelTrace"] = ctx.cov.get("executions_rejected_by_SgKernelTrace", 0) + len(rej)
    ctx.cov["executions_without_checker_view"] = ctx.cov.get("executions_without_checker_view", 0) + dropped
    comp = {}
    for idx, still, o in outc:
        if idx in bad or still:
            continue
        comp.setdefault(keys[idx], []).append(steps_of[idx])
    return comp, {keys[i] for i in bad}


def run(ctx):
    quick = ctx.quick
    pool = M.programs(ctx, 50 if quick else 160, 3, 4)
    ref = M.reference(ctx, pool)
    def interleavings(p):          # upper bound of the number of unreduced executions: multinomial of the transition counts
        nsub = {"lock": 2, "acq": 2, "bar": 2, "put": 2, "get": 2, "cvwait": 3, "cvwaitfor": 3}
        ns = [sum(nsub.get(o["op"], 1) for o in a) for a in p["actors"]]
        r, tot = 1, 0
        for n in ns:
            for k in range(1, n + 1):
                tot += 1
                r = r * tot // k
        return r
    cand = [i for i in range(len(pool)) if all(o["end"] == "normal" for o in ref[i])]
    ctx.cov["programs_without_deadlock"] = len(cand)
    cand = [i for i in cand if interleavings(pool[i]) <= 30 * (400 if quick else 2500)]
    ctx.cov["programs_generated"] = len(pool)
    ctx.cov["programs_small_enough_a_priori"] = len(cand)
    want = 14 if quick else 50
    cap = 400 if quick else 2500            # executions of the reduction-none run per program (budget by counts)
    # reduction none first: programs with too many executions are left out
    progs, none_res = [], {}
    for start in range(0, len(cand), want):
        batch = [pool[i] for i in cand[start:start + want]]
        rn = M.explore_all(ctx, batch, ["none"], [], timeout=90 if quick else 600)
        for (j, red), r in rn.items():
            if r["timeout"] or r["rc"] != 0 or not (0 < len(r["traces"]) <= cap):
                ctx.cov["programs_left_out_too_many_executions"] = ctx.cov.get("programs_left_out_too_many_executions", 0) + 1
                continue
            if len(progs) < want:
                none_res[(len(progs), "none")] = r
                progs.append(batch[j])
        if len(progs) >= want:
            break
    if not progs:
        raise vlib.InfraError("no deadlock-free program small enough was generated")
    for p in progs:
        ctx.count(p, nontrivial=K.shared_objects(p))
    for p in progs[:2]:
        ctx.sample(K.prog_brief(p), limit=2)
    od_res = M.explore_all(ctx, progs, ["odpor"], ["--cfg=model-check/debug-optimality:1"], timeout=600)
    res = dict(none_res)
    res.update(od_res)
    comp, badkeys = _complete_executions(ctx, progs, res, "c40")

    # ------------------------------------------------ the real dependency of every complete execution, its normal form
    execs, meta = [], []
    for key, lst in comp.items():
        for steps in lst:
            script = ["T " + D.desc_of_view(D.view_of_step(s)) for s in steps]
            execs.append((len(execs) + 1, script))
            meta.append((key, [s["a"] for s in steps]))
    sp = os.path.join(ctx.scratch, "c40_execs.txt")
    MC.write_exec_script(sp, execs)
    rc, recs, err = MC.run_mc_unit_driver(ctx, sp, timeout=1200)
    if rc != 0 or len(recs) != len(execs):
        raise vlib.InfraError("mc_unit_driver failed (rc=%s, %d/%d executions): %s" % (rc, len(recs), len(execs), err[-1500:]))
    nf = {}
    mism = {}
    chunk = 200
    chunks = [recs[i:i + chunk] for i in range(0, len(recs), chunk)]

    def classes(ic):
        i, part = ic
        f = os.path.join(ctx.scratch, "c40_%d.ndjson" % i)
        with open(f, "w") as o:
            for r in part:
                o.write(json.dumps({k: r[k] for k in ("id", "n", "actor", "dep", "hb", "racing", "hb_push", "racing_push")}) + "\n")
        r = vlib.tlc(os.path.join(MC.MCSPEC, "HbClasses.tla"), env={"EXECS": f}, timeout=1500, workers=2)
        if not r.ok or r.distinct != sum(x["n"] + 1 for x in part):
            raise vlib.InfraError("HbClasses failed (%s, %d states) %s" % (r.status, r.distinct, r.what[-2000:]))
        return r
    for r in vlib.parallel_map(classes, list(enumerate(chunks)), nproc=6):
        ctx.add_tlc(r)
        for line in r.prints:
            if not line.startswith('"{'):
                continue
            v = json.loads(json.loads(line))
            if "nf" in v:
                nf[v["nf"]] = v["seq"]
            elif "mismatch" in v:
                mism.setdefault(v["mismatch"], []).append([v["kind"], v["ev"], v["expected"], v["got"]])
    ctx.cov["traces_validated_against_impl"] += len(recs)
    if len(nf) != len(recs):
        raise vlib.InfraError("HbClasses printed %d normal forms for %d executions" % (len(nf), len(recs)))
    for xid, ms in list(mism.items())[:3]:
        key, sched = meta[xid - 1]
        ctx.violation("odpor::Execution disagrees with Hb.tla on an execution explored by simgrid-mc (C42's property): %s" % ms[0][:2],
                      files={"program.json": json.dumps(progs[key[0]]), "execution.ndjson": json.dumps(recs[xid - 1])},
                      signature="C40:hb:%s" % vlib.canon_hash(progs[key[0]]), detail=str(ms[:10]))

    # ------------------------------------------------ the criterion of the statement, per program
    classes_of = {}
    for rec in recs:
        key, sched = meta[rec["id"] - 1]
        form = tuple(rec["actor"][e - 1] for e in nf[rec["id"]])
        classes_of.setdefault(key, []).append((form, sched))
    ntot = {"programs": 0, "none_executions": 0, "classes": 0, "odpor_executions": 0}
    for j, p in enumerate(progs):
        if (j, "none") in badkeys or (j, "odpor") in badkeys:
            ctx.cov["programs_not_judged_nonconforming_execution"] = ctx.cov.get("programs_not_judged_nonconforming_execution", 0) + 1
            continue
        cn = classes_of.get((j, "none"), [])
        co = classes_of.get((j, "odpor"), [])
        rod = od_res[(j, "odpor")]
        if not cn or rod["timeout"]:
            continue
        none_forms = {f for f, _ in cn}
        od_forms = [f for f, _ in co]
        ntot["programs"] += 1
        ntot["none_executions"] += len(cn)
        ntot["classes"] += len(none_forms)
        ntot["odpor_executions"] += len(co)
        said_dup = "equivalent with an already explored one" in rod["out"]
        if rod["rc"] != 0 and not said_dup:       # the exploration did not run to its end (e.g. the socket name was taken)
            ctx.cov["programs_not_judged_odpor_run_failed"] = ctx.cov.get("programs_not_judged_odpor_run_failed", 0) + 1
            continue
        m = re.findall(r"There are\s+(\d+) traces of size", rod["out"])
        said_n = sum(int(x) for x in m) if m else None
        files = {"program.json": json.dumps(p), "program.txt": K.prog_to_txt(p),
                 "odpor_schedules.json": json.dumps([s for _, s in co]), "odpor_normal_forms.json": json.dumps(od_forms),
                 "none_normal_forms.json": json.dumps(sorted(none_forms)), "simgrid-mc.odpor.out": rod["out"][-5000:],
                 "howto.txt": "simgrid-mc .build/harness/kdrv program.txt --cfg=model-check/reduction:odpor (and :none); normal forms "
                              "= spec/mc/HbClasses.tla on the executions rebuilt by .build/harness/mc_unit_driver\n"}
        sig = "C40:%%s:%s" % vlib.canon_hash(p)
        dups = len(od_forms) - len(set(od_forms))
        if dups:
            ctx.violation("odpor explored %d executions of %d distinct classes: %d execution(s) equivalent to another one" %
                          (len(od_forms), len(set(od_forms)), dups), files=files, signature=sig % "duplicate", detail=json.dumps(K.prog_brief(p)))
        if said_dup != (dups > 0):
            ctx.violation("model-check/debug-optimality %s an equivalent execution but the normal forms %s" %
                          ("reports" if said_dup else "does not report", "show none" if not dups else "show %d" % dups),
                          files=files, signature=sig % "debug-optimality", detail=json.dumps(K.prog_brief(p)))
        if said_dup:
            continue                      # the checker stopped at the first duplicate: the count is meaningless
        if len(set(od_forms)) != len(none_forms) or not set(od_forms) <= none_forms:
            ctx.violation("odpor explored %d classes, the reduction-none run has %d (missing %d, foreign %d)" %
                          (len(set(od_forms)), len(none_forms), len(none_forms - set(od_forms)), len(set(od_forms) - none_forms)),
                          files=files, signature=sig % "classes", detail=json.dumps(K.prog_brief(p)))
        if said_n is not None and said_n != len(od_forms):
            ctx.violation("model-check/debug-optimality recorded %d complete executions, the traces show %d" % (said_n, len(od_forms)),
                          files=files, signature=sig % "debug-count", detail=json.dumps(K.prog_brief(p)))
    ctx.cov["judged"] = ntot
    ctx.cov["exhaustive"] = True
    if ntot["programs"] == 0:
        raise vlib.InfraError("no program could be judged")
    ctx.sample({"program": K.prog_brief(progs[0]), "none_executions": len(classes_of.get((0, "none"), [])),
                "classes": len({f for f, _ in classes_of.get((0, "none"), [])}), "odpor_executions": len(classes_of.get((0, "odpor"), []))})
    ctx.cov["rule"] = ("programs = regression + seeded random MC-granularity programs (2-3 actors, <= 4 operations) whose TLC reference "
                       "has no deadlock and whose reduction-none run has at most %d executions; cases counted = programs; non-trivial = "
                       "two actors share an object; every complete execution of both runs is a validated trace" % cap)
    ctx.assumptions += [
        "equivalence = the checker's own relation: the real dispatch_depends of the executed transitions as decoded by the checker "
        "(hook H4), happens-before and normal form by Hb.tla; the communication of a TestComm is recovered from the program",
        "completeness of an execution is decided by the trace validation against SgKernel (nothing enabled at its end)",
        "two executions of one program with the same normal-form actor sequence are the same Mazurkiewicz class (the program is "
        "deterministic given the schedule)",
        "DFS explorer only; programs whose exploration shows a non-conforming execution are not judged (C38/C43 report those)"]
