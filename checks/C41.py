"""C41 Reported counter-examples are real and replayable (DESIGN.md section 4, C41).
For programs whose reference exploration (TLC) reaches a deadlock, simgrid-mc is run with each reduction; the replay path it
reports (--cfg=model-check/replay:'a;a;...') and the transition list it prints are checked: the application is re-run three times
with that path, each replay trace must be a behaviour of SgKernel that ends in a state the specification calls deadlocked, the
three replays must be identical, and the printed transitions must be the transitions of that replay (TLC: CheckerAgrees with the
printed list as the checker's view)."""
import json, re
import vlib
import kernel_common as K
import mcbind_common as M
LEVEL = "model_checking"
META = {"text": "Each reported counter-example (replay path + printed transitions) of each reduction is replayed three times on the real "
                "application; TLC validates each replay against SgKernel (MC granularity), with the printed transition list merged in as "
                "the checker's view of each step, and requires the final state to be a deadlock of the specification; the three replays "
                "must give identical traces.",
        "note": "Only deadlocks are generated as violations (no assertion failures). With model-check/max-errors:-1 the later reports of one "
                "run are checked too (thorough tier).",
        "technique": "TLC trace validation of the replays of every reported counter-example (hooks H1 + H4)"}


def run(ctx):
    quick = ctx.quick
    progs = M.programs(ctx, 25 if quick else 100, 3, 4, kinds=M.ALL_KINDS)
    ref = M.reference(ctx, progs)
    sel = [i for i in range(len(progs)) if any(o["end"] == "deadlock" for o in ref[i])]
    sub = [progs[i] for i in sel]
    ctx.cov["programs_generated"] = len(progs)
    ctx.cov["programs_with_reachable_deadlock"] = len(sub)
    for p in sub:
        ctx.count(p, nontrivial=True)
    for p in sub[:3]:
        ctx.sample(K.prog_brief(p))
    ctx.cov["rule"] = ("seeded random MC-granularity programs + regression; kept = those whose TLC reference exploration reaches a deadlock "
                       "(all non-trivial); distinct by JSON hash")
    if len(sub) < 2:
        raise vlib.InfraError("vacuous run: fewer than 2 programs with a reachable deadlock")
    extra = [] if quick else ["--cfg=model-check/max-errors:-1"]
    # programs with MC_random: every counter-example is asked for, so that replay paths with times_considered > 0 ("a/k") exist
    israndp = [any(o["op"] == "rand" for a in p["actors"] for o in a) for p in sub]
    plain = [j for j in range(len(sub)) if not israndp[j]]
    rnd = [j for j in range(len(sub)) if israndp[j]]
    res = {}
    for idxs, ex in ((plain, extra), (rnd, ["--cfg=model-check/max-errors:-1"])):
        if idxs:
            part = M.explore_all(ctx, [sub[j] for j in idxs], M.REDUCTIONS, ex)
            res.update({(idxs[k], red): v for (k, red), v in part.items()})
    ctx.cov["programs_with_mc_random"] = len(rnd)
    replays, keys = [], []
    nrep = 0
    for (j, red), r in res.items():
        files = {"program.json": json.dumps(sub[j]), "program.txt": K.prog_to_txt(sub[j]), "simgrid-mc.out": r["out"][-6000:]}
        sig = "C41:%s:%s" % (red, vlib.canon_hash(sub[j]))
        if r["timeout"]:
            continue
        if not r["replays"]:
            if "did not do any transition before terminating" in r["out"]:
                sig = "C38:initial-deadlock"       # known finding: a program deadlocked in its initial state is reported as fine
            ctx.violation("reduction %s reports no counter-example for a program with a reachable deadlock" % red, files=files, signature=sig + ":none")
            continue
        chosen = list(range(min(len(r["replays"]), 1 if quick else 4)))
        multi = [pi for pi, path in enumerate(r["replays"]) if "/" in path]      # an outcome other than the first was taken
        chosen += [pi for pi in multi[:2] if pi not in chosen]
        ctx.cov["replay_paths_with_times_considered"] = ctx.cov.get("replay_paths_with_times_considered", 0) + len([pi for pi in chosen if pi in multi])
        for pi in chosen:
            path = r["replays"][pi]
            ce = r["counterexamples"][pi] if pi < len(r["counterexamples"]) else []
            runs = [M.replay_path(ctx, (j * 10 + pi) * 10 + k, sub[j], path) for k in range(3)]
            nrep += 3
            t0 = runs[0][0]
            if any(rr[0] != t0 for rr in runs[1:]):
                ctx.violation("replaying path %s three times gives different executions (reduction %s)" % (path, red),
                              files=dict(files, **{"replay%d.ndjson" % k: "\n".join(json.dumps(x) for x in rr[0]) for k, rr in enumerate(runs)}),
                              signature=sig + ":unstable")
                continue
            t = [dict(x) for x in t0]
            # the printed transitions become the checker's view of the replayed steps
            pidmap = {a + 1: a + 1 for a in range(len(sub[j]["actors"]))}
            cex = []
            for line in ce:
                m = re.search(r"Actor (\d+) in simcall (.*)$", line) or re.search(r"Actor (\d+) in (.*)$", line)
                if m:
                    tr = m.group(2).strip()
                    if "==> simcall:" in tr:            # "Actor 1 in Irecv ==> simcall: iRecv(mbox=0, ...)"
                        tr = tr.split("==> simcall:", 1)[1].strip()
                    cex.append({"a": int(m.group(1)), "tc": 0, "tr": tr})
            nh = sum(1 for x in t if x.get("e") == "handle")
            npath = len([x for x in path.split(";") if x])
            if len(cex) != npath or nh < npath:
                ctx.violation("counter-example of reduction %s: %d printed transitions, replay path of %d steps, %d steps replayed" %
                              (red, len(cex), npath, nh), files=dict(files, **{"replay.ndjson": "\n".join(json.dumps(x) for x in t)}),
                              signature=sig + ":length")
                continue
            M.merge_checker_view(t, cex, 0, pidmap)
            for x in t:
                x.pop("ctc", None)
            replays.append((j, [x for x in t if x.get("e") != "end"] + [{"e": "xend", "run": 0}]))
            keys.append(((j, red), path))
    outc = []
    rej = K.validate_traces(ctx, sub, replays, tag="rep", outcomes=outc, max_rej=8)
    for x in rej:
        (j, red), path = keys[x["index"]]
        ctx.violation("the replay of counter-example %s (reduction %s) is not a behaviour of SgKernel / does not match the printed "
                      "transitions at record %s: %s" % (path, red, json.dumps(x["record"]), x["reason"]),
                      files={"program.json": json.dumps(sub[j]), "program.txt": K.prog_to_txt(sub[j]),
                             "replay.ndjson": "\n".join(json.dumps(r) for r in replays[x["index"]][1]) + "\n"},
                      signature=("C38:mc-random:%s:badtrace" % red) if (M.has_rand(sub[j]) and red in ("sdpor", "odpor")) else
                                "C41:%s:%s:replay" % (red, vlib.canon_hash(sub[j])), detail=json.dumps(K.prog_brief(sub[j])))
    for idx, ready, o in outc:
        (j, red), path = keys[idx]
        if ready or o["end"] != "deadlock":
            ctx.violation("counter-example %s of reduction %s does not end in a deadlock of the specification (still enabled: %s, end: %s)" %
                          (path, red, ready, o["end"]),
                          files={"program.json": json.dumps(sub[j]), "program.txt": K.prog_to_txt(sub[j]),
                                 "replay.ndjson": "\n".join(json.dumps(r) for r in replays[idx][1]) + "\n"},
                          signature="C41:%s:%s:notdeadlock" % (red, vlib.canon_hash(sub[j])), detail=json.dumps(K.prog_brief(sub[j])))
    ctx.cov["counterexamples_checked"] = len(replays)
    ctx.cov["replay_runs"] = nrep
    ctx.assumptions += ["the reference deadlock reachability comes from TLC's exploration of SgKernel"]
