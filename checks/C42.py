"""C42 Happens-before equals transitive dependency (odpor::Execution). See DESIGN.md section 4 (C42).

  M  spec/mc/HbMC.tla: TLC checks the definitions of spec/mc/Hb.tla on EVERY execution of <= 5 (thorough: 6) events over
     <= 3 actors and every symmetric dependency matrix: chain characterisation = transitive closure = the clock-vector
     mechanism of push_transition; strict partial order containing program order; documented race definition = the
     formulation of the property statement; races of an event depend on its prefix only.
  T  harness/mc_unit_driver.cpp builds random executions (<= 40 REAL transitions decoded by mc::deserialize_transition,
     <= 6 actors, with push/remove_last_event detours) in the real odpor::Execution and logs the real depends() matrix,
     happens_before(i,j) for all pairs and get_racing_events_of(e) for all e, after each push and at the end;
     spec/mc/HbTrace.tla recomputes both from the logged dependency matrix and compares; Dep must be symmetric.

Mutations tried (tools/mutbuild.sh worktree, mutated objects relinked into a copy of the build, quick tier), all caught (exit 1):
  * push_transition: only the direct dependency is recorded, the clock vector of the dependent event is not merged
    (happens_before misses the transitive step)                                      -> VIOLATION (hb_push, hb, racing)
  * get_racing_events_of: the "no intermediate event" test `happens_before(e_i, e_j)` disabled  -> VIOLATION (racing, racing_push)
  * get_racing_events_of: the test against the previous event of the same actor removed         -> VIOLATION (racing, racing_push)
  * happens_before: `e1 <= clock` turned into `e1 < clock`                                      -> VIOLATION (hb_push, racing)
"""
import json, os
import vlib
import mc_common as MC

LEVEL = "model_checking"
DRIVERS = {"mc_unit_driver": MC.DRIVERS["mc_unit_driver"]}
META = {"text": "TLC checks the definitions of Hb.tla (happens-before = transitive closure of occurs-before-and-dependent, documented race "
                "definition = the statement's maximal-unordered-predecessor formulation = what the clock-vector mechanism computes) on "
                "every execution of the small scope with every dependency relation, and validates hundreds of executions of up to 40 real "
                "transitions over up to 6 actors recorded from the real odpor::Execution (happens_before for all pairs, "
                "get_racing_events_of for all events, after every push and at the end) against the same definitions evaluated on the "
                "real logged dependency matrix; model_checking because both the definitions (exhaustively, small scope) and the "
                "implementation's answers (trace validation) are decided by TLC.",
        "note": "Trusted: TLC, the driver's logging of depends()/happens_before()/get_racing_events_of(); the dependency relation itself "
                "is data (its correctness is C39). Conformance holds for the executions run; exhaustiveness only for the specification "
                "within <= 5 (thorough 6) events and 3 actors. get_reversible_races_of and data-race epochs are not covered.",
        "technique": "TLC model checking of Hb/HbMC + TLC trace validation (HbTrace) of executions built in the real Execution class "
                     "from transitions decoded by mc::deserialize_transition"}


def _tlc_trace(ctx, recs, tag):
    """Validate the logged executions `recs` with HbTrace; returns {execution id: [mismatch tuples]}."""
    f = os.path.join(ctx.scratch, tag + ".ndjson")
    with open(f, "w") as o:
        for r in recs:
            o.write(json.dumps({k: r[k] for k in ("id", "n", "actor", "dep", "hb", "racing", "hb_push", "racing_push")})
                    + "\n")
    r = vlib.tlc(os.path.join(MC.MCSPEC, "HbTrace.tla"), env={"EXECS": f}, timeout=900, workers=4)
    if not r.ok:
        raise vlib.InfraError("HbTrace failed to run (%s): %s" % (r.status, r.what[-2500:]))
    expect = sum(x["n"] + 1 for x in recs)
    if r.distinct != expect:
        raise vlib.InfraError("HbTrace examined %d states, expected %d (one per push of every execution)" %
                              (r.distinct, expect))
    bad = {}
    for line in r.prints:
        if line.startswith('"{'):
            v = json.loads(json.loads(line))
            if "mismatch" in v:
                bad.setdefault(v["mismatch"], []).append([v["kind"], v["ev"], v["expected"], v["got"]])
    return r, bad


def run(ctx):
    quick = ctx.quick
    # ------------------------------------------------------------------ M: the definitions, exhaustively at small scope
    cfg = os.path.join(MC.MCSPEC, "HbMC.cfg" if quick else "HbMC_thorough.cfg")
    r = vlib.tlc(os.path.join(MC.MCSPEC, "HbMC.tla"), cfg=cfg, timeout=600 if quick else 3000, workers=8)
    ctx.add_tlc(r)
    ctx.cov["mc"] = {"status": r.status, "distinct": r.distinct, "generated": r.generated, "wall_s": round(r.wall, 1),
                     "scope": "all executions of <= %d events, <= 3 actors, every symmetric dependency matrix" %
                              (5 if quick else 6),
                     "lemmas": ["chain = transitive closure", "clock vectors = transitive closure",
                                "strict partial order within occurs-before, contains program order",
                                "documented races = statement's formulation", "races are directly dependent",
                                "races and happens-before of a prefix are stable when the execution grows"]}
    if not r.ok:
        raise vlib.InfraError("the specification Hb fails on its own (%s %s)\n%s" % (r.status, r.what[:300], r.out[-3000:]))
    ctx.cov["exhaustive"] = True

    # ------------------------------------------------------------------ T: executions of the real Execution class
    n_exec = 240 if quick else 5000
    execs = []
    for i in range(n_exec):
        small = i % 4 == 0
        script, net = MC.gen_execution(ctx.rng, max_len=12 if small else 40, max_actors=3 if small else 6)
        if net:
            execs.append((i + 1, script, net))
    sp = os.path.join(ctx.scratch, "execs.txt")
    MC.write_exec_script(sp, [(i, s) for i, s, _ in execs])
    rc, recs, err = MC.run_mc_unit_driver(ctx, sp)
    if rc != 0 or len(recs) != len(execs):
        raise vlib.InfraError("mc_unit_driver failed (rc=%s, %d/%d executions logged): %s" % (rc, len(recs), len(execs), err[-2000:]))
    by_id = {e[0]: e for e in execs}
    types = set()
    for rec in recs:
        nt = MC.nontrivial_execution(rec)
        ctx.count({"actor": rec["actor"], "str": rec["str"]}, nontrivial=nt)
        types.update(rec["type"])
    for rec in recs[:2] + recs[-2:]:
        ctx.sample({"id": rec["id"], "n": rec["n"], "transitions": ["%d:%s" % (a, s) for a, s in zip(rec["actor"], rec["str"])][:12],
                    "racing": rec["racing"][:12]}, limit=4)
    ctx.cov["executions"] = len(recs)
    ctx.cov["events"] = sum(x["n"] for x in recs)
    ctx.cov["max_len"] = max(x["n"] for x in recs)
    ctx.cov["max_actors"] = max(len(set(x["actor"])) for x in recs)
    ctx.cov["transition_types_seen"] = sorted(types)
    ctx.cov["detours_push_remove"] = sum(x["removed"] for x in recs)
    ctx.cov["pairs_ordered_only_transitively"] = sum(
        1 for x in recs for i in range(x["n"]) for j in range(i + 1, x["n"]) if x["hb"][i][j] and not x["dep"][i][j])
    ctx.cov["racing_pairs"] = sum(len(l) for x in recs for l in x["racing"])
    ctx.cov["rule"] = ("M: every execution of the small scope (enumerated by TLC). T: %d seeded random executions of real "
                       "transitions (abstract kernel keeps them sensible; profiles: all / synchronisation / communication / "
                       "semaphore-barrier-condvar / actor life cycle), a quarter of them short (<= 12 events, <= 3 actors); "
                       "non-trivial = some pair is ordered only through a chain (no direct dependency) or some event has "
                       "a racing event; distinct by the list of (actor, decoded transition)" % n_exec)

    chunk = 40 if quick else 250
    chunks = [recs[i:i + chunk] for i in range(0, len(recs), chunk)]
    results = vlib.parallel_map(lambda ic: _tlc_trace(ctx, ic[1], "tv%d" % ic[0]), list(enumerate(chunks)),
                                nproc=min(6, vlib.NCPU))
    bad = {}
    for r, b in results:
        ctx.add_tlc(r)
        bad.update(b)
    ctx.cov["traces_validated_against_impl"] += len(recs)

    # a rejection is reported only if the same case is rejected again
    for xid in sorted(bad)[:10]:
        i, script, net = by_id[xid]
        sp2 = os.path.join(ctx.scratch, "re%d.txt" % xid)
        MC.write_exec_script(sp2, [(i, script)])
        rc2, recs2, err2 = MC.run_mc_unit_driver(ctx, sp2)
        if rc2 != 0 or len(recs2) != 1:
            raise vlib.InfraError("mc_unit_driver failed on the re-run of execution %d: %s" % (xid, err2[-1500:]))
        _, b2 = _tlc_trace(ctx, recs2, "re%d" % xid)
        if xid not in b2:
            ctx.cov["unconfirmed_rejections"] = ctx.cov.get("unconfirmed_rejections", 0) + 1
            continue
        kinds = sorted({m[0] for m in b2[xid]})
        rec = recs2[0]
        detail = "\n".join("%s event=%s expected=%s got=%s" % (m[0], m[1], m[2], m[3]) for m in b2[xid][:20])
        detail += "\n(events are numbered from 1 in these lines; for hb: expected-but-missing pairs, then answered-but-wrong pairs)\n"
        detail += "\n".join("%2d  actor %d  %s" % (k + 1, a, s) for k, (a, s) in enumerate(zip(rec["actor"], rec["str"])))
        ctx.violation("odpor::Execution disagrees with the definitions of Hb.tla on a recorded execution: %s" % ", ".join(kinds),
                      files={"script.txt": open(sp2).read(), "execution.ndjson": json.dumps(rec) + "\n",
                             "howto.txt": ".build/harness/mc_unit_driver script.txt > e.ndjson ; "
                                          "EXECS=e.ndjson tlc spec/mc/HbTrace.tla (MISMATCH lines)\n"},
                      signature="C42:%s:%s" % ("+".join(kinds), vlib.canon_hash(net)), detail=detail)
    ctx.assumptions += [
        "the dependency relation is taken as data from the real Transition::dispatch_depends (not re-specified here)",
        "executions are built by push_transition/remove_last_event only (get_prefix_before + push is not covered: the "
        "prefix copy does not carry the per-actor skip list)",
        "memory-access traces of the transitions are empty (the data-race epochs of push_transition are not exercised)",
        "get_reversible_races_of is not examined (needs the enabledness semantics: C38/C40)"]
