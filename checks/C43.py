"""C43 Checker and application agree on every transition (DESIGN.md section 4, C43).
Three views of every transition executed under simgrid-mc are put side by side in one trace line and checked by TLC
(SgKernelTrace!CheckerAgrees): the application side (hook H1: which actor's simcall was handled, observer class), the checker side
(hook H4: actor, times_considered and the transition as deserialised by the checker: type, object, owner / capacity / from-to),
and the transition the specification predicts for that operation of the program (type via McType, object, resulting owner /
capacity / communication ends). A wall-clock timeout of simgrid-mc (hang) is a violation."""
import json
import vlib
import kernel_common as K
import mcbind_common as M
from kernel_common import op, new_prog
LEVEL = "model_checking"
META = {"text": "Every transition of every execution explored by simgrid-mc on programs covering each observable simcall kind "
                "(mutex async-lock / wait / trylock / unlock, semaphore async-lock / wait / release, barrier, iSend / iRecv / WaitComm / "
                "TestComm, condition variables, sleep, actor join and creation, MC_random) is validated by TLC with the application's, the checker's and the specification's views in the same "
                "step: same actor, same type, same object / target, same resulting owner / capacity / communication ends; only enabled "
                "transitions may be fired, and each time the checker asks which actors are enabled (hook H4 cstatus) the answer must "
                "be exactly the set the specification enables.",
        "note": "Needs hooks H1 (application) and H4 (checker). Message queues, waitany/testany, iprobe and this_actor::exit "
                "are not generated; programs with MC_random are explored by sdpor / odpor under a short time limit (known finding "
                "C38:mc-random); transitions replayed in one batch (creplay) carry no checker view.",
        "technique": "TLC trace validation of simgrid-mc executions with the checker's decoded transitions merged in (hooks H1 + H4)"}

KINDS = {"MUTEX_ASYNC_LOCK", "MUTEX_WAIT", "MUTEX_TRYLOCK", "MUTEX_UNLOCK", "SEM_ASYNC_LOCK", "SEM_WAIT", "SEM_UNLOCK",
         "BARRIER_ASYNC_LOCK", "BARRIER_WAIT", "iSend", "iRecv", "WaitComm", "TestComm", "ActorSleep", "ActorJoin", "ActorCreate",
         "CONDVAR_ASYNC_LOCK", "CONDVAR_WAIT", "CONDVAR_SIGNAL", "CONDVAR_BROADCAST", "Random"}


def all_kinds_prog():
    return new_prog(rec=[False], cap=[0], bar=[2], perm=[0], timed=False, gran="mc", actors=[
        [op("trylock", 1, 1), op("unlock", 1), op("rel", 1), op("bar", 1), op("put", 1, 0, 1), op("geta", 1), op("test", 1), op("wait", 1),
         op("sleep", 0, 0, 1)],
        [op("acq", 1), op("bar", 1), op("get", 1), op("puta", 1, 0, 1), op("wait", 1), op("lock", 1), op("unlock", 1)]])


def run(ctx):
    quick = ctx.quick
    progs = [all_kinds_prog()] + M.programs(ctx, 8 if quick else 40, 3, 4, kinds=M.ALL_KINDS)
    for p in progs:
        ctx.count(p, nontrivial=True)
    ctx.sample(K.prog_brief(progs[0]))
    ctx.sample(K.prog_brief(progs[-1]))
    ctx.cov["rule"] = "one program exercising every transition kind + regression + seeded random MC-granularity programs; distinct by JSON hash"
    reds = ["dpor", "none"] if quick else M.REDUCTIONS
    res = M.explore_all(ctx, progs[1:], reds, ["--cfg=model-check/max-errors:-1"])
    res = {(k[0] + 1, k[1]): v for k, v in res.items()}
    # the all-kinds program has a large reduction-free state space: explored with the reductions only
    big = M.explore_all(ctx, progs[:1], [r for r in reds if r != "none"] or ["dpor"], ["--cfg=model-check/max-errors:-1"], timeout=300)
    res.update(big)
    seen, nsteps = set(), 0
    for key, r in res.items():
        if r["timeout"]:
            # an exploration cut by the wall-clock limit (large state space under "none", busy machine) is not a disagreement:
            # the executions it did explore are still validated below
            ctx.cov["explorations_cut_by_timeout"] = ctx.cov.get("explorations_cut_by_timeout", 0) + 1
        for t in r["traces"]:
            for x in t:
                if x.get("e") == "handle" and "ctype" in x:
                    seen.add(x["ctype"])
                    nsteps += 1
    rej, term = M.validate_explorations(ctx, progs, res)
    for x in rej:
        j, red = x["key"]
        ctx.violation("the three views of a transition disagree (or a disabled transition was fired) at record %s (reduction %s): %s" %
                      (json.dumps(x["record"]), red, x["reason"]),
                      files={"program.json": json.dumps(progs[j]), "program.txt": K.prog_to_txt(progs[j]),
                             "trace.ndjson": "\n".join(json.dumps(r) for r in x["trace"]) + "\n"},
                      signature="C43:%s:%s" % (red, vlib.canon_hash(progs[j])), detail=json.dumps(K.prog_brief(progs[j])))
    ctx.cov["transitions_with_three_views"] = nsteps
    ctx.cov["transition_kinds_seen"] = sorted(seen)
    missing = KINDS - seen
    if missing and not ctx.violations:
        raise vlib.InfraError("vacuous run: transition kinds never executed: %s" % sorted(missing))
    ctx.assumptions += ["the checker view is read from Transition::to_string(); fields it does not print are not compared"]
