"""C44 Unfolding set algebra is correct (src/mc/explo/udpor, src/xbt/utils/iter). See DESIGN.md section 4 (C44).

  G  spec/mc/UnfoldingGen.tla (definitions in spec/mc/Unfolding.tla): TLC enumerates every valid unfolding of at most
     N events over an alphabet of REAL transitions (the dependency between labels is the real dispatch_depends, logged
     by the driver and passed to TLC as data) and samples larger ones (-simulate, up to 15 events); for each it prints the
     answer sheet of the definitions: per event, per subset of events (all 2^n subsets up to 6 events, sampled beyond), per
     pair of subsets.  harness/udpor_unit_driver.cpp builds the same unfolding with the real UnfoldingEvent / EventSet /
     History / Configuration / Unfolding / maximal_subsets_iterator objects and prints its own sheet; Python compares
     (multiset equality for the iterators).  spec/mc/IterGen.tla does the same for subsets_iterator, powerset_iterator
     and variable_for_loop.
  T  spec/mc/UnfoldingTopo.tla validates the (non unique) topological orders returned by the implementation.
  M  the lemmas of Unfolding.tla (closure, symmetry of conflict, "near" conflicts decide conflict-freedom of causally
     closed sets, maximal events generate a configuration, one latest event per actor) are checked by TLC on every
     generated unfolding of at most 4 (thorough: 5) events.

Genuine deviations found on the unchanged tree (KNOWN_FINDINGS.jsonl, proposed/fix-C44-*.diff):
  * UnfoldingEvent::conflicts_with misses conflicts that are only inherited from two strict ancestors
    (a < e, b < f, a # b, e and f otherwise independent) -> also EventSet::is_conflict_free on sets that are not causally
    closed;  * Configuration::get_minimally_reproducible_events always returns the empty set.

Mutations tried (tools/mutbuild.sh worktree, mutated objects relinked into a copy of the build, quick tier), all caught (exit 1):
  * History::Iterator::increment: causes pushed to the frontier only while <= 2 events are visited (closure misses
    grand-parents)                                                                   -> VIOLATION (cl, lc, h, cfg, ...)
  * EventSet::is_maximal: `size() <= get_largest_maximal_subset().size() + 1` (off by one)     -> VIOLATION (ismx)
  * EventSet::is_conflict_free: sets of two events never examined                              -> VIOLATION (cf, cfg, ch)
  * maximal_subsets_iterator::continue_traversal...: one candidate skipped when backtracking to the first level
                                                                                               -> VIOLATION (anti2)
With proposed/fix-C44-conflicts-inherited.diff and fix-C44-minimally-reproducible.diff applied the check exits 0 with no
KNOWN-FINDING line (the fixes are validated by the same oracle).
"""
import json, os
import vlib
import mc_common as MC

LEVEL = "model_checking"
DRIVERS = {"udpor_unit_driver": MC.DRIVERS["udpor_unit_driver"]}
META = {"text": "TLC enumerates every valid unfolding (up to the order of discovery) of a small scope over alphabets of real "
                "transitions, whose dependency is the real depends() passed as data, samples unfoldings of up to 15 events, and "
                "prints from the set-theoretic definitions of Unfolding.tla the expected answer of every examined method for every "
                "event, every subset (all 2^n up to 6 events) and sampled pairs of subsets; the real UnfoldingEvent/EventSet/History/"
                "Configuration/Unfolding/maximal_subsets_iterator objects (and the xbt subset/powerset/product enumerators) are "
                "driven through the same cases and must answer the same (multiset equality for iterators); non-unique answers "
                "(topological orders) are validated by TLC; lemmas of the definitions are model-checked on each generated unfolding.",
        "note": "Trusted: TLC, the driver's printing of the methods' answers. Complete only within the stated sizes (quick: all "
                "unfoldings of <= 4 events over a 4-label alphabet plus a VERIF_SEED slice of the 5-event ones, a second alphabet "
                "to 3-4 events, samples to 12-15 events; thorough: <= 5 events (4-label alphabet, plus a slice of the 6-event ones), <= 4 events plus a slice of 5 for the three other alphabets). Enabledness of "
                "transitions is not modelled; Comb/k-partial alternatives and the U/G bookkeeping are not examined. Three "
                "deviations are recorded as known findings (conflicts_with and is_conflict_free miss purely inherited conflicts; "
                "get_minimally_reproducible_events returns the empty set).",
        "technique": "TLC behaviour generation (UnfoldingGen/IterGen, BFS + -simulate) replayed into the real udpor classes by "
                     "udpor_unit_driver + TLC validation of topological orders (UnfoldingTopo) + model-checked lemmas"}


def _classify(case, path, key, exp, got):
    """Signature of a deviation; the recorded genuine defects get a stable signature (KNOWN_FINDINGS.jsonl)."""
    node = case
    if path:
        for part in path.strip(".").split("."):
            name, idx = part[:-1].split("[")
            node = node[name][int(idx)]
    if key == "cf" and path.startswith("ev[") and got == node.get("near"):
        return "C44:conflicts_with:inherited-only"
    if key == "cf" and path.startswith("sub[") and got == node.get("cfnear") and not node.get("cc"):
        return "C44:is_conflict_free:inherited-only"
    if key == "minrep" and got == 0 and exp != 0:
        return "C44:get_minimally_reproducible_events:empty"
    return None


def _check_cases(ctx, alpha, labels, cases, tag):
    """Run the driver on the cases, compare the sheets; returns the driver sheets."""
    script = MC.alphabet_script(labels) + "".join(MC.case_script(i + 1, c) for i, c in enumerate(cases))
    rc, recs, err, sp = MC.run_udpor_driver(ctx, script, tag)
    if rc != 0 or len(recs) != len(cases):
        # a crash of the code under test on a valid unfolding: find the case, report it if it is reproducible
        k = len(recs)
        if k < len(cases):
            one = MC.alphabet_script(labels) + MC.case_script(1, cases[k])
            rc2, recs2, err2, sp2 = MC.run_udpor_driver(ctx, one, tag + "_crash")
            if rc2 != 0 and "udpor_unit_driver:" not in err2:
                ctx.violation("the UDPOR data structures abort on a valid unfolding (rc=%s)" % rc2,
                              files={"script.txt": one, "stderr.txt": err2[-4000:]},
                              signature="C44:%s:crash:%s" % (alpha, vlib.canon_hash(cases[k]["events"])), detail=err2[-1500:])
                return recs
        raise vlib.InfraError("udpor_unit_driver failed: rc=%s, %d/%d sheets: %s" % (rc, len(recs), len(cases), err[-1500:]))
    reported = ctx.__dict__.setdefault("_c44_reported", set())

    def by_signature(case, diffs):
        d = {}
        for path, key, exp, gv in diffs:
            sig = _classify(case, path, key, exp, gv) or "C44:%s:%s:%s" % (alpha, key, vlib.canon_hash(case["events"]))
            d.setdefault(sig, []).append((path, key, exp, gv))
        return d
    for i, (case, got) in enumerate(zip(cases, recs)):
        nsub = len(case["sub"])
        ncfg = sum(1 for s in case["sub"] if s["cfg"])
        nconf = sum(1 for e in case["ev"] if e["cf"])
        ctx.count({"a": alpha, "ev": case["events"], "subs": [s["s"] for s in case["sub"]][:64]},
                  nontrivial=(nconf > 0 and ncfg < nsub and any(e["h"] for e in case["ev"])))
        ctx.cov["subset_sheets"] = ctx.cov.get("subset_sheets", 0) + nsub
        ctx.cov["pair_sheets"] = ctx.cov.get("pair_sheets", 0) + len(case["pairs"])
        ctx.cov["maximal_subsets_enumerated"] = ctx.cov.get("maximal_subsets_enumerated", 0) + \
            sum(len(s["anti"]) + len(s["anti2"]) + len(s["antif"]) for s in case["sub"])
        ctx.cov["max_events"] = max(ctx.cov.get("max_events", 0), case["n"])
        diffs = list(MC.compare_sheets(case, got))
        if not diffs:
            continue
        sigs = by_signature(case, diffs)
        if all(sg in reported for sg in sigs):          # only deviations already reported in this run (recorded classes)
            ctx.cov["recorded_deviation_occurrences"] = ctx.cov.get("recorded_deviation_occurrences", 0) + len(sigs)
            continue
        # a rejection is reported only if a fresh run of this single case is rejected again
        one = MC.alphabet_script(labels) + MC.case_script(1, case)
        rc2, recs2, err2, _ = MC.run_udpor_driver(ctx, one, "%s_re%d" % (tag, i))
        if rc2 != 0 or len(recs2) != 1:
            raise vlib.InfraError("udpor_unit_driver failed on the re-run of a case: %s" % err2[-1500:])
        diffs = list(MC.compare_sheets(case, recs2[0]))
        if not diffs:
            ctx.cov["unconfirmed_rejections"] = ctx.cov.get("unconfirmed_rejections", 0) + 1
            continue
        for sig, ds in by_signature(case, diffs).items():
            if sig in reported:
                ctx.cov["recorded_deviation_occurrences"] = ctx.cov.get("recorded_deviation_occurrences", 0) + 1
                continue
            if len(reported) >= 12:
                continue
            reported.add(sig)
            detail = "alphabet %s: %s\nevents (label, immediate causes): %s\n" % (
                alpha, labels, [(e["l"], sorted(e["c"])) for e in case["events"]])
            detail += "\n".join("%s%s: expected %s, implementation answered %s" % d for d in ds[:25])
            detail += "\n(sets are bit masks: event i = bit i-1; sub[i] = subset number i of the sheet, its mask is 's')\n"
            ctx.violation("udpor set algebra disagrees with Unfolding.tla on: %s" % ", ".join(sorted({d[1] for d in ds})),
                          files={"script.txt": one, "expected_sheet.json": json.dumps(case),
                                 "implementation_sheet.json": json.dumps(recs2[0]),
                                 "howto.txt": ".build/harness/udpor_unit_driver script.txt   prints the implementation's "
                                              "sheet; expected_sheet.json is what TLC printed from spec/mc/UnfoldingGen.tla\n"},
                          signature=sig, detail=detail)
    return recs


def _topo_pass(ctx, batches):
    """batches: list of (cases, driver sheets). Validates the topological orders with TLC (UnfoldingTopo)."""
    f = os.path.join(ctx.scratch, "topo.ndjson")
    n = 0
    with open(f, "w") as o:
        for cases, recs in batches:
            for case, got in zip(cases, recs):
                checks = []
                for s in got["sub"][:24]:
                    evs = [e + 1 for e in range(case["n"]) if s["s"] >> e & 1]
                    checks.append({"s": evs, "topo": s["topo"], "rtopo": s["rtopo"]})
                n += 1
                o.write(json.dumps({"id": n, "n": case["n"], "causes": [sorted(e["c"]) for e in case["events"]],
                                    "checks": checks}) + "\n")
                if n >= (400 if ctx.quick else 4000):
                    break
    if n == 0:
        return
    r = vlib.tlc(os.path.join(MC.MCSPEC, "UnfoldingTopo.tla"), env={"TOPO": f}, timeout=900, workers=4)
    if not r.ok:
        raise vlib.InfraError("UnfoldingTopo failed (%s %s)\n%s" % (r.status, r.what[:300], r.out[-2000:]))
    ctx.add_tlc(r)
    ctx.cov["traces_validated_against_impl"] += n
    ctx.cov["topological_orders_validated"] = 2 * sum(len(json.loads(l)["checks"]) for l in open(f))
    bad = [l for l in r.prints if l.startswith('<<"MISMATCH"')]
    if bad:
        ctx.violation("EventSet::get_topological_ordering returned an order that is not topological: %s" % bad[0][:300],
                      files={"topo.ndjson": f}, signature="C44:topological_ordering", detail="\n".join(bad[:20]))


def _iterators(ctx):
    r = vlib.tlc(os.path.join(MC.MCSPEC, "IterGen.tla"), timeout=600, workers=1)
    if not r.ok:
        raise vlib.InfraError("IterGen failed (%s %s)\n%s" % (r.status, r.what[:300], r.out[-2000:]))
    ctx.add_tlc(r)
    exp = [json.loads(json.loads(l)) for l in r.prints if l.startswith('"{')]
    script = ""
    for c in exp:
        script += ("K %d %d\n" % (c["n"], c["k"])) if c["enum"] == "K" else \
                  ("F %d %s\n" % (len(c["sizes"]), " ".join(str(x) for x in c["sizes"])))
    rc, recs, err, sp = MC.run_udpor_driver(ctx, script, "iter")
    if rc != 0 or len(recs) != len(exp):
        raise vlib.InfraError("udpor_unit_driver failed on the enumerators: rc=%s %s" % (rc, err[-1500:]))
    for c, g in zip(exp, recs):
        ctx.count({"iter": c["enum"], "n": c.get("n"), "k": c.get("k"), "sizes": c.get("sizes")},
                  nontrivial=len(c.get("ksub", c.get("tuples", []))) > 1)
        if c["enum"] == "K" and c["k"] == 0:
            c, g = dict(c), dict(g)
            c.pop("ksub")       # the 0-subsets: the code yields nothing, the documentation does not say (left open)
            g.pop("ksub", None)
        ds = list(MC.compare_sheets(c, g))
        if ds:
            ctx.violation("an enumerator of src/xbt/utils/iter does not yield every element exactly once: %s" % (ds[0],),
                          files={"expected.json": json.dumps(c), "implementation.json": json.dumps(g)},
                          signature="C44:iter:%s:%s" % (c["enum"], vlib.canon_hash([c.get("n"), c.get("k"), c.get("sizes")])),
                          detail="\n".join(str(d) for d in ds))
    ctx.cov["enumerator_cases"] = len(exp)


def run(ctx):
    quick = ctx.quick
    names = list(MC.ALPHABETS)
    second = names[1 + ctx.seed % (len(names) - 1)]
    plan = []   # (alphabet, exhaustive params, sampled params, number of simulated behaviours)
    if quick:
        plan.append(("locks2", dict(maxn=5, slicefrom=5, slices=16, slice=ctx.seed % 16), dict(maxn=12, nsub=8), 3))
        plan.append((second, dict(maxn=4, slicefrom=4, slices=6, slice=ctx.seed % 6), dict(maxn=15, nsub=8), 2))
    else:
        plan.append(("locks2", dict(maxn=6, slicefrom=6, slices=6, slice=ctx.seed % 6), dict(maxn=15, nsub=16), 12))
        for a in names[1:]:
            plan.append((a, dict(maxn=5, slicefrom=5, slices=3, slice=ctx.seed % 3), dict(maxn=15, nsub=16), 8))
    batches = []
    ctx.cov["alphabets"] = {}
    jobs = []
    for alpha, exh, smp, nsim in plan:
        labels = MC.ALPHABETS[alpha]
        dep = MC.real_label_dependency(ctx, labels, "dep_" + alpha)
        ctx.cov["alphabets"][alpha] = {"labels": dep["labstr"], "actors": dep["labactor"], "real_dependency": dep["labdep"]}
        base = {"labdep": dep["labdep"], "labactor": dep["labactor"], "npairs": 10, "fmask": 0b0101101011010110 ^ (ctx.seed & 0xffff),
                "fullupto": 6, "nsub": 8, "emitfrom": 1, "lemmaupto": 4 if quick else 5, "slicefrom": 99, "slices": 1, "slice": 0}
        jobs.append((alpha, "exh", dict(base, mode="exh", **exh), nsim))
        jobs.append((alpha, "smp", dict(base, mode="sample", emitfrom=6, **smp), nsim))

    def gen(job):       # the TLC runs of the different alphabets are independent: run them side by side
        alpha, kind, p, nsim = job
        if kind == "exh":
            return MC.tlc_unfoldings(ctx, p, "exh_" + alpha, timeout=900 if quick else 3000, workers=4 if quick else 8)
        return MC.tlc_unfoldings(ctx, p, "smp_" + alpha, simulate="num=%d" % nsim, seed=ctx.seed + 1,
                                 timeout=900 if quick else 3000, workers=1 if quick else 4, lemmas=False)
    results = vlib.parallel_map(gen, jobs, nproc=4 if quick else 3)
    for (alpha, kind, p, nsim), (r, cases) in zip(jobs, results):
        labels = MC.ALPHABETS[alpha]
        ctx.add_tlc(r)
        if kind == "exh":
            ctx.cov["alphabets"][alpha]["exhaustive"] = {
                "max_events": p["maxn"], "unfoldings": r.distinct, "sheets": len(cases), "wall_s": round(r.wall, 1),
                "complete_up_to": p["slicefrom"] - 1 if p["slices"] > 1 else p["maxn"],
                "slice_of_largest_size": "%d/%d" % (p["slice"] + 1, p["slices"])}
            if not cases:
                raise vlib.InfraError("UnfoldingGen printed no case for alphabet " + alpha)
        else:
            ctx.cov["alphabets"][alpha]["sampled"] = {"simulate_num": nsim, "max_events": p["maxn"], "sheets": len(cases),
                                                      "wall_s": round(r.wall, 1)}
        tag = "%s_%s" % (kind, alpha)
        for j in range(0, len(cases), 400):
            recs = _check_cases(ctx, alpha, labels, cases[j:j + 400], "%s_%d" % (tag, j))
            batches.append((cases[j:j + 400], recs))
        for c in (cases[:1] if kind == "exh" else cases[-1:]):
            ctx.sample({"alphabet": alpha, "n": c["n"], "events": [(e["l"], sorted(e["c"])) for e in c["events"]],
                        "conflicts": [e["cf"] for e in c["ev"]], "subsets_examined": len(c["sub"])}, limit=4)
    ctx.cov["exhaustive"] = True
    ctx.cov["traces_validated_against_impl"] += sum(len(c) for c, _ in batches)
    _topo_pass(ctx, [(c, r) for c, r in batches if len(c) == len(r)])
    _iterators(ctx)
    ctx.cov["rule"] = ("cases = valid unfoldings generated by TLC (every one up to the stated size for each alphabet of real "
                       "transitions, up to the order of discovery; the largest size is sliced by VERIF_SEED in the quick tier; "
                       "plus -simulate samples up to 15 events), each with all its subsets (<= 6 events) or sampled subsets and "
                       "pairs of subsets; non-trivial = the unfolding has causality, conflicts, and both configurations and "
                       "non-configurations among the examined subsets; distinct by (alphabet, events, subsets)")
    ctx.assumptions += [
        "the dependency between labels is the real Transition::dispatch_depends (data of the specification)",
        "valid unfoldings only: histories are configurations, immediate causes are the maximal events of the history and "
        "depend on the event, one event per (actor, causes); enabledness of the transitions is not modelled",
        "'largest maximal subset' is read as the set of maximal events (what History::get_all_maximal_events documents)",
        "the 0-subsets of subsets_iterator are left open; the state of a Configuration after add_event threw is not examined",
        "Unfolding::mark_finished / G-U bookkeeping and the k-partial alternatives (Comb) are not examined"]
