"""C45 Random draws are in range, unbiased and portable (src/xbt/random.cpp), spec/lib/Random*.tla.

Proof (design of the sampler): RandomProof.tla states, for 32-bit words, that the rejection limit is a positive multiple of
the range, that x |-> (x mod r, x div r) is a bijection between accepted raw values and residues x quotients (every value
has the same number of accepted preimages) and that the value returned lies in [min, max]; Apalache discharges the three
lemmas symbolically for every range 1..2^32-1 (--length=0: all states satisfying Init), and must refute a deliberately
false predicate (non-vacuity).  TLC re-checks the same statements by brute force (counting preimages) for word sizes
4..8 (quick) / 4..11 (thorough), and checks that the 16-bit-halves arithmetic used for traces (RandomWide) agrees with
the plain operators on every (range, raw value) of an 8-bit (10-bit) word.
T (binding to the code): harness/c45drv.cpp logs (seed, min, max, raw std::mt19937 words consumed, value returned) for
seeded draws of XbtRandom objects and of the global generator, and for *crafted* engine states whose next outputs sit on
the rejection boundary (limit-1, limit, limit+1, 2^32-1, 0); Random_trace.tla recomputes every value from the raw words by
the specification's rule, for every range width (16-bit halves), and checks uniform_real in [min, max] and its agreement
with the raw word to 16 bits.

LEVEL: the lemmas are proved for the *specified* sampler; the code is tied to it by trace validation on sampled and
crafted draws only, so the level claimed for the property as a whole is "exploration".

Mutation evidence (tools/mutbuild.sh lib, quick tier):
  caught  rejection test `value > limit` (accepts value == limit)      -> crafted draw with raw == limit rejected by Random_trace
  caught  `limit = max()` (no rejection of the biased tail)            -> draws whose raw word lies in [limit, 2^32-1]
  caught  uniform_real does not redraw when numerator == divisor       -> crafted draw with raw == 2^32-1
"""
import json, os
import vlib
import lib_common as L

LEVEL = "exploration"
META = {"text": "The rejection sampler of XbtRandom::uniform_int is transcribed in spec/lib/Random.tla; RandomProof.tla states that the limit is a positive multiple of the range, that accepted raw values are in bijection with (residue, quotient) pairs (every value has the same number of preimages) and that the result lies in [min, max]; Apalache proves the three lemmas for every 32-bit range (and must refute a false predicate), TLC re-checks them by counting for word sizes 4..8 (4..11 thorough). The code is bound to the specification by trace validation: every logged draw (seeded XbtRandom objects, the global generator, and crafted engine states sitting on the rejection boundary) is recomputed by TLC from the raw std::mt19937 words it consumed, for all range widths (16-bit halves arithmetic, itself checked against plain arithmetic on small words); uniform_real is checked in [min, max], redraw rule and 16-bit agreement with the raw word. Level exploration for the property as a whole: the proof covers the specified sampler, the binding to the code is by sampled and crafted draws.",
        "note": "Trusted: Apalache 0.58 + Z3, TLC, std::mt19937 and its libstdc++ textual state format (used to craft states), the transcription of uniform_int. Unbiasedness is a property of the specified rule given uniform raw words; it is not measured statistically on the code. exponential/normal are not covered.",
        "technique": "Apalache proof of integer lemmas + TLC brute force + TLC trace validation of logged draws (T)"}
DRIVERS = {"c45drv": L.DRIVERS["c45drv"]}
M = 2 ** 32 - 1
IMIN, IMAX = -2 ** 31, 2 ** 31 - 1


def gen_ops(rng, nseeds, ndraws, ncrafted):
    ops = []
    def bounds():
        k = rng.random()
        if k < 0.35:
            lo = rng.randint(-1000, 1000); return lo, lo + rng.randint(0, 300)
        if k < 0.55:
            lo = rng.randint(IMIN, IMAX - 40000); return lo, lo + rng.randint(0, 32766)
        if k < 0.75:
            a, b = rng.randint(IMIN, IMAX), rng.randint(IMIN, IMAX); return min(a, b), max(a, b)
        if k < 0.85:
            return IMIN, IMAX - rng.choice([0, 0, 1, 2, 1000])
        if k < 0.92:
            lo = rng.randint(IMIN, IMAX); return lo, lo
        return rng.choice([(0, 1), (1, 6), (0, 2 ** 31 - 1), (IMIN, -1), (-1, 0), (0, 2 ** 16), (0, 2 ** 15 - 1)])
    for _ in range(nseeds):
        ops.append("seed %d" % rng.randint(IMIN, IMAX))
        for _ in range(ndraws):
            if rng.random() < 0.8:
                ops.append("int %d %d" % bounds())
            else:
                lo = rng.randint(-1000, 999)
                ops.append("real %d %d" % (lo, rng.randint(lo + 1, 1000)))
    for _ in range(ncrafted):
        lo, hi = bounds()
        r = hi - lo + 1
        if r <= M:
            limit = M - M % r            # only to place the raw words on the boundary; the verdict is Random_trace's
            cands = [limit, M, min(M, limit + 1), limit - 1, 0, r - 1, r % (M + 1), rng.randint(0, M)]
        else:
            cands = [0, M, 2 ** 31, 2 ** 31 - 1, rng.randint(0, M)]
        seq = [rng.choice(cands) for _ in range(rng.randint(1, 5))] + [rng.choice([limit - 1, 0, r - 1]) if r <= M else 7]
        ops.append("raws %d %s" % (len(seq), " ".join(str(x) for x in seq)))
        ops.append("int %d %d" % (lo, hi))
        if rng.random() < 0.3:
            seq = [M] * rng.randint(0, 2) + [rng.choice([0, M - 1, 1, 2 ** 31, rng.randint(0, M - 1)])]
            lo = rng.randint(-1000, 999)
            ops.append("raws %d %s" % (len(seq), " ".join(str(x) for x in seq)))
            ops.append("real %d %d" % (lo, rng.randint(lo + 1, 1000)))
    return ops


def run_ops(ctx, tag, ops):
    p = os.path.join(ctx.scratch, tag + ".txt")
    open(p, "w").write("\n".join(ops) + "\n")
    rc, out, err = L.run_driver("c45drv", [p], timeout=300)
    recs = [json.loads(l) for l in out.splitlines() if l.startswith("{")]
    ndraw = sum(1 for o in ops if o.startswith(("int", "real")))
    if rc != 0 or len(recs) != ndraw:
        raise vlib.InfraError("c45drv failed: rc=%s, %d records for %d draws\n%s" % (rc, len(recs), ndraw, err[-1500:]))
    return recs


def validate(ctx, tag, recs):
    """index of the first record that Random_trace does not accept, or None"""
    tf = os.path.join(ctx.scratch, tag + ".ndjson")
    with open(tf, "w") as f:
        for r in recs:
            f.write(json.dumps(r) + "\n")
    r = vlib.tlc(L.spec("Random_trace.tla"), env={"TRACE": tf, "JAVA_TOOL_OPTIONS": "-Xss256m"}, workers=1, timeout=1500)
    ctx.add_tlc(r)
    if r.status != "ok":
        raise vlib.InfraError("Random_trace failed to run: %s\n%s" % (r.status, L.excerpt(r)))
    prog = L.tagged_prints(r, "PROGRESS")
    if not prog:
        raise vlib.InfraError("Random_trace printed no PROGRESS line\n" + r.out[-1500:])
    reached, total = prog[-1]
    return None if reached == total + 1 else reached - 1


def run(ctx):
    q = ctx.quick
    # ---------------------------------------------------------------- proof of the sampler's design (Apalache)
    proof = {}
    for lemma in ("Lemma1", "Lemma2", "Lemma3"):
        ok, txt = L.apalache(ctx, L.spec("RandomProof.tla"), lemma, timeout=900)
        proof[lemma] = "proved" if ok else "REFUTED"
        if not ok:
            raise vlib.InfraError("Apalache refutes %s of RandomProof.tla: the specification of the sampler is wrong\n%s" % (lemma, txt[-2000:]))
    ok, txt = L.apalache(ctx, L.spec("RandomProof.tla"), "Refutable", timeout=900)
    if ok:
        raise vlib.InfraError("Apalache did not refute the false predicate Refutable: the lemmas may hold vacuously")
    proof["Refutable"] = "refuted (as it must be)"
    ctx.cov["apalache"] = proof
    # ---------------------------------------------------------------- brute force (TLC)
    cfg = L.write_cfg(ctx, "rmc", {"Wmin": 4, "Wmax": 8 if q else 11, "Wcount": 6 if q else 8})
    r = vlib.tlc(L.spec("RandomMC.tla"), cfg=cfg, workers=1, timeout=2400)
    L.need_ok(r, "RandomMC")
    ctx.add_tlc(r)
    words = [x[0] for x in L.tagged_prints(r, "WORD")]
    ctx.cov["brute_force_word_sizes"] = words
    for h in ([4] if q else [4, 5]):
        cfg = L.write_cfg(ctx, "rw%d" % h, {"H": h})
        r = vlib.tlc(L.spec("RandomWideMC.tla"), cfg=cfg, workers=1, timeout=2400)
        L.need_ok(r, "RandomWideMC")
        ctx.add_tlc(r)
    ctx.cov["wide_arithmetic_checked_for_halves_of_bits"] = [4] if q else [4, 5]
    ranges_checked = sum(2 ** w - 1 for w in words)
    ctx.count(["ranges of word sizes", words], nontrivial=True, n=ranges_checked)
    # ---------------------------------------------------------------- T
    ops = gen_ops(ctx.rng, 30 if q else 400, 12 if q else 25, 150 if q else 3000)
    recs = run_ops(ctx, "draws", ops)
    lost = [r for r in recs if r["e"] == "lost"]
    if lost:
        ctx.violation("a draw left the engine in a state that 100000 further outputs of std::mt19937 do not reach: %s" % lost[0],
                      files={"ops.txt": "\n".join(ops) + "\n"}, signature="C45:lost")
    recs = [r for r in recs if r["e"] != "lost"]
    for r in recs:
        ctx.count([r["e"], r["min"], r["max"], r["raws"]], nontrivial=r["max"] > r["min"])
    ctx.cov["draws"] = {"int": sum(1 for r in recs if r["e"] == "int"), "real": sum(1 for r in recs if r["e"] == "real"),
                        "with_rejections": sum(1 for r in recs if len(r["raws"]) > 1),
                        "ranges_wider_than_2^15": sum(1 for r in recs if r["e"] == "int" and r["max"] - r["min"] >= 2 ** 15),
                        "global_generator": sum(1 for r in recs if r.get("global"))}
    for r in recs[:2] + recs[-2:]:
        ctx.sample(r)
    chunks = [recs[i:i + 2000] for i in range(0, len(recs), 2000)]
    bad = vlib.parallel_map(lambda ic: validate(ctx, "tr%d" % ic[0], ic[1]), list(enumerate(chunks)), nproc=4)
    ctx.cov["traces_validated_against_impl"] = len(recs)
    for ci, b in enumerate(bad):
        if b is None:
            continue
        rec = chunks[ci][b]
        # reproduce: replay the same draw (crafted raws reproduce the engine state; seeded draws are replayed from their seed)
        if rec["seed"] == -1:
            raws = [h * 65536 + lo for h, lo in rec["raws"]]
            ops2 = ["raws %d %s" % (len(raws), " ".join(map(str, raws))), "%s %d %d" % (rec["e"], rec["min"], rec["max"])]
        else:
            ops2 = ops
        recs2 = [r for r in run_ops(ctx, "re%d" % ci, ops2) if r["e"] != "lost"]
        b2 = validate(ctx, "retr%d" % ci, recs2)
        if b2 is None:
            ctx.cov["unconfirmed_rejections"] = ctx.cov.get("unconfirmed_rejections", 0) + 1
            continue
        rec2 = recs2[b2]
        ctx.violation("draw not explained by the raw mt19937 words under Random.tla's rule: %s" % json.dumps(rec2),
                      files={"ops.txt": "\n".join(ops2) + "\n", "record.json": json.dumps(rec2),
                             "howto.txt": ".build/harness/c45drv ops.txt > t.ndjson; TRACE=t.ndjson tlc -workers 1 spec/lib/Random_trace.tla\n"},
                      signature="C45:%s:%d:%d" % (rec2["e"], rec2["min"], rec2["max"]))
    ctx.cov["rule"] = ("draws = seeded (seed, min, max) triples (VERIF_SEED) over narrow, medium, wide and full 32-bit ranges on XbtRandom "
                       "objects and the global generator, plus crafted engine states whose next outputs are the rejection boundary values; "
                       "each draw is validated against the raw words by TLC; non-trivial = min < max; the lemmas are proved for all ranges "
                       "by Apalache and counted by TLC for the word sizes listed (each range of each size counted as an evaluation)")
    ctx.assumptions += ["Apalache 0.58 + Z3 and the transcription of uniform_int in Random.tla are trusted for the proof; the code is bound "
                        "to the specification on the sampled/crafted draws only",
                        "std::mt19937 itself (fixed by the C++ standard) is trusted; its textual state format (libstdc++: 624 words + "
                        "position) is used to craft engine states",
                        "uniform_real: value in [min, max] and agreement with the raw word to 16 bits, for integer bounds within +-1000; "
                        "exponential/normal are not covered"]
