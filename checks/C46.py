"""C46 File system accounting is consistent (src/plugins/file_system/s4u_FileSystem.cpp), spec/lib/FileSys.tla.

M: TLC checks on every behaviour of the small scope (2 names x 2 disks, 2 handles, 4-5 steps): used = sum of the sizes of
   the stored files, handles inside their file, read <= size - position, unlink gives back exactly the size.
G: TLC generates operation sequences with everything observable after each step (BFS: every sequence of 3 steps;
   -simulate: seeded sequences of 40 steps over 5 names on 2 disks, one with initial content, 3 handles); the driver
   harness/c46drv.cpp replays each on the real plugin (platform hosts_with_disks.xml, host bob: Disk1 mounted on /scratch
   with initial content, Disk2 mounted on /) and Python compares return value, File::size, File::tell,
   sg_disk_get_size_used, total and listing of the content map after each step.
   Two families: "full" (every operation; deviations matching a known finding are reported as such) and "clean" (stays
   clear of the known call patterns, so that everything else is still compared strictly to the end of each sequence).

Genuine defects found at the pinned commit (KNOWN_FINDINGS.jsonl, proposed/fix-C46-*.diff):
  C46:write-after-seek-before-end  File::write below the end gives the tail back to the disk but keeps size_
  C46:handle-after-move            File::move renames the map entry but not the handle: growth re-creates the old name,
                                   unlink leaves the renamed entry behind
  C46:move-on-root-mount           on a disk mounted on "/" the new name is stored without its leading "/"


Mutation evidence (tools/mutbuild.sh lib, quick tier):
  caught  unlink does not give the size back (no decr_used_size)            -> sg_disk_get_size_used after unlink
  caught  move keeps the old entry of the content map                       -> clean family, number/total of stored files
  caught  growth by seek/write past the end not accounted (no incr_used_size) -> sg_disk_get_size_used after seek_cur
  the proposed fixes (proposed/fix-C46-truncating-write.diff, fix-C46-move.diff) applied to the scratch tree: the check
  passes with no deviation and no known finding left (4948 sequences).
"""
import json, os
import vlib
import lib_common as L

LEVEL = "model_checking"
META = {"text": "spec/lib/FileSys.tla models files (size), disks (used size) and handles (position) with Open/Write/Write-inside/Seek/Read/Move/Unlink/Close; TLC checks on every behaviour of the small scope (2 names x 2 disks x 2 handles, 4 steps quick / 5 thorough) that used = sum of sizes, handles stay inside their file, read <= size - position and unlink gives back exactly the size; TLC then generates every 3-step sequence of that scope and seeded 40-step sequences over 5 names x 2 disks (one with initial content) x 3 handles, each with all observables after each step; the real plugin replays every sequence (host bob of hosts_with_disks.xml) and return value, size, tell, used size, total and listing of the stored files are compared step by step. A 'clean' family avoiding the three known defective call patterns is compared strictly to the end.",
        "note": "Trusted: TLC, the driver's reading of FileSystemDiskExt::get_content() as 'the files stored on the disk'. One handle per file, moves to unused names on the same disk, capacity never approached, no remote mounts. Known findings (genuine defects, proposed fixes in /verif/proposed): truncating write keeps size_, handle not updated by move, move on a '/' mount drops the leading slash.",
        "technique": "TLC model checking of FileSys (M) + TLC-generated behaviours replayed into the plugin (G)"}
DRIVERS = {"c46drv": L.DRIVERS["c46drv"]}

PLATFORM = os.path.join(vlib.REPO, "examples/platforms/hosts_with_disks.xml")
CONTENT = os.path.join(vlib.REPO, "examples/platforms/storage/content/storage_content.txt")
INITIAL = ["/doc/simgrid/examples/platforms/g5k.xml", "/doc/simgrid/examples/smpi/mc_bugged2.c"]
DISKS = {1: ("Disk1", "/scratch"), 2: ("Disk2", "/")}


def initial_sizes():
    sizes = {}
    for line in open(CONTENT):
        t = line.split()
        if len(t) == 2 and t[0] in INITIAL:
            sizes[t[0]] = int(t[1])
    if len(sizes) != len(INITIAL):
        raise vlib.InfraError("initial files not found in " + CONTENT)
    return [sizes[p] for p in INITIAL]


def fullpath(d, n, ninit):
    """names 1..ninit of disk 1 are files of the initial content, every other name is unused at start"""
    if d == 1:
        return "/scratch" + (INITIAL[n - 1] if n <= ninit else "/verif/f%d.dat" % n)
    return "/data/f%d.dat" % n


def content_key(d, n, ninit):
    p = fullpath(d, n, ninit)
    return p[len("/scratch"):] if d == 1 else p


def ops_file(path, h, names, init):
    with open(path, "w") as f:
        for d in (1, 2):
            tracked = [s for (dd, n, s) in init if dd == d]
            f.write("K %d %s %d %d\n" % (d, DISKS[d][0], sum(tracked), len(tracked)))
            for n in names:
                f.write("N %d %d %s %s\n" % (d, n, fullpath(d, n, len(init)), content_key(d, n, len(init))))
        for e in h:
            if e["op"] == "open":
                f.write("open %d %d %d\n" % (e["h"], e["a"], e["b"]))
            else:
                f.write("%s %d %d\n" % (e["op"], e["h"], e["a"]))


def replay(ctx, idx, h, names, init):
    p = os.path.join(ctx.scratch, "ops_%d.txt" % idx)
    ops_file(p, h, names, init)
    rc, out, err = L.run_driver("c46drv", [PLATFORM, "bob", p] + L.SG_QUIET, timeout=60)
    recs = []
    for line in out.splitlines():
        if line.startswith("{"):
            try:
                recs.append(json.loads(line))
            except ValueError:
                recs.append({"garbled": line[:100]})
    return rc, recs, err[-400:]


def first_mismatch(h, recs, init):
    """Index (1-based) and description of the first step whose observation differs from the model; (0, ..) for the initial
    accounting; None when everything agrees."""
    inits = [r for r in recs if "init" in r]
    for r in inits:
        if r["used0"] != r["sum0"]:
            return 0, "initial used size %d of disk %d differs from the total size %d of its content" % (r["used0"], r["init"], r["sum0"])
    steps = {r["step"]: r for r in recs if "step" in r}
    for j, e in enumerate(h, 1):
        g = steps.get(j)
        if g is None:
            end = [r for r in recs if "end" in r]
            return j, "no observation for this step (run ended: %s)" % (end[-1] if end else "killed")
        exp_used = [e["used"][k] for k in sorted(e["used"], key=int)] if isinstance(e["used"], dict) else list(e["used"])
        nfiles = [sum(1 for x in e["files"] if x[0] == d) for d in (1, 2)]
        for what, got, exp in (("return value", g["ret"], e["ret"]), ("File::size", g["size"], e["size"]),
                               ("File::tell", g["tell"], e["tell"]), ("sg_disk_get_size_used", g["used"], exp_used),
                               ("total size of the stored files", g["sum"], exp_used),
                               ("number of stored files", g["cnt"], nfiles),
                               ("stored files [disk, name, size]", g["files"], [list(x) for x in e["files"]])):
            if got != exp:
                return j, "%s = %s, model says %s" % (what, got, exp)
    return None


def classify(h, j):
    """Signature of a deviation first seen at step j: names the call pattern."""
    if j == 0:
        return "C46:initial-accounting"
    e = h[j - 1]
    pos = size = None
    moved = False
    for p in h[:j - 1]:
        if p["h"] == e["h"]:
            if p["op"] == "open":
                moved = False
            if p["op"] == "move":
                moved = True
            pos, size = p["tell"], p["size"]
    if e["op"] == "write" and e["a"] > 0 and pos is not None and pos < size and not moved:
        return "C46:write-after-seek-before-end"
    if moved and e["op"] != "close":
        return "C46:handle-after-move"
    if e["op"] == "move":
        d = None
        for p in h[:j - 1]:
            if p["h"] == e["h"] and p["op"] == "open":
                d = p["a"]
        if d is not None and DISKS[d][1] == "/":
            return "C46:move-on-root-mount"
    return "C46:%s:%s" % (e["op"], vlib.canon_hash([[x["op"], x["h"], x["a"], x["b"]] for x in h[:j]]))


def brief(h):
    return [[e["op"], e["h"], e["a"], e["b"]] for e in h]


def run(ctx):
    q = ctx.quick
    isz = initial_sizes()
    init = [[1, i + 1, s] for i, s in enumerate(isz)]
    initf = os.path.join(ctx.scratch, "fs_init.json")
    json.dump(init, open(initf, "w"))
    small_init = os.path.join(ctx.scratch, "fs_init_small.json")
    json.dump(init[:1], open(small_init, "w"))
    base = {"Disks": [1, 2], "Sizes": [0, 3, 10], "TruncWrites": True, "AfterMove": True, "MoveDisks": [1, 2]}
    redef = ["CONSTANT InitFiles <- EnvInit", "CONSTANT Offsets <- OffsetsSmall"]

    # ---------------------------------------------------------------- M
    c = dict(base, MaxSteps=4 if q else 5, Names=[1, 2], Handles=[1, 2], Record=False)
    cfg = L.write_cfg(ctx, "fs_mc", c, invariants=["Inv"], properties=["ReadBounded", "UnlinkGivesBack", "OthersUntouched"], extra=redef)
    r = vlib.tlc(L.spec("FileSys.tla"), cfg=cfg, env={"FS_INIT": small_init}, timeout=2400, workers=8)
    L.need_ok(r, "FileSys model checking")
    vlib.log("  TLC FileSys M: %s" % r)
    ctx.add_tlc(r)
    ctx.cov["mc"] = {"steps": c["MaxSteps"], "distinct": r.distinct, "generated": r.generated, "wall_s": round(r.wall, 1),
                     "properties": ["UsedIsSum", "HandlesSound", "ReadBounded", "UnlinkGivesBack", "OthersUntouched"]}

    # ---------------------------------------------------------------- G: generation
    fams = []     # (family, names, init, sequences)
    c = dict(base, MaxSteps=3, Names=[1, 2], Handles=[1, 2], Record=True)
    r, ex = L.generate(ctx, "FileSys.tla", "fs_bfs", c, "bfs", invariants=["Inv"], env={"FS_INIT": small_init}, timeout=1500,
                       extra=redef)
    fams.append(("exhaustive", [1, 2], init[:1], ex))
    ctx.cov["exhaustive_sequences"] = {"steps": c["MaxSteps"], "sequences": len(ex)}
    for fam, restr in (("full", {}), ("clean", {"TruncWrites": False, "AfterMove": False, "MoveDisks": [1]})):
        c = dict(base, MaxSteps=40, Names=[1, 2, 3, 4, 5], Handles=[1, 2, 3], Record=True, Sizes=[0, 1, 3, 10, 100])
        c.update(restr)
        r, s = L.generate(ctx, "FileSys.tla", "fs_" + fam, c, "sim", invariants=["Inv"], env={"FS_INIT": initf},
                          num=(3 if q else 40), depth=45, seed=ctx.seed * 11 + (1 if fam == "full" else 2), workers=4,
                          timeout=1500, extra=["CONSTANT InitFiles <- EnvInit", "CONSTANT Offsets <- OffsetsWide"])
        fams.append((fam, [1, 2, 3, 4, 5], init, s))
        ctx.cov["random_sequences_" + fam] = len(s)

    # ---------------------------------------------------------------- G: replay and comparison
    jobs = []
    for fam, names, ini, seqs in fams:
        for h in seqs:
            jobs.append((fam, names, ini, h))
    results = vlib.parallel_map(lambda ij: replay(ctx, ij[0], ij[1][3], ij[1][1], ij[1][2]), list(enumerate(jobs)))
    deviations = {}
    for idx, ((fam, names, ini, h), (rc, recs, err)) in enumerate(zip(jobs, results)):
        ctx.count(["fs", fam, brief(h)], nontrivial=sum(1 for e in h if e["op"] in ("write", "write_inside", "unlink", "move") or
                                                        (e["op"].startswith("seek") and e["tell"] == e["size"])) >= 2)
        mm = first_mismatch(h, recs, ini)
        if mm:
            sig = classify(h, mm[0])
            if fam == "clean":      # this family avoids the known call patterns: nothing is excused there
                sig = "C46:clean-family:" + sig
            deviations.setdefault(sig, []).append((idx, mm))
    ctx.cov["traces_validated_against_impl"] = len(jobs)
    ctx.cov["sequences_deviating"] = {k: len(v) for k, v in deviations.items()}
    if fams[1][3]:
        ctx.sample({"family": "full", "ops": brief(fams[1][3][0])[:15]})
    if fams[2][3]:
        ctx.sample({"family": "clean", "ops": brief(fams[2][3][0])[:15]})
    for sig, lst in sorted(deviations.items()):
        lst.sort(key=lambda x: x[1][0])       # shortest failing prefix first
        idx, (j, what) = lst[0]
        fam, names, ini, h = jobs[idx]
        prefix = h[:max(j, 1)]
        rc, recs, err = replay(ctx, 100000 + idx, prefix, names, ini)     # confirm on the minimal prefix
        mm2 = first_mismatch(prefix, recs, ini)
        if not mm2:
            ctx.cov["unconfirmed_rejections"] = ctx.cov.get("unconfirmed_rejections", 0) + 1
            continue
        p = os.path.join(ctx.scratch, "bad_ops.txt")
        ops_file(p, prefix, names, ini)
        ctx.violation("file system plugin deviates from FileSys.tla at step %d (%s) of a %s sequence: %s" %
                      (mm2[0], prefix[mm2[0] - 1]["op"] if mm2[0] else "init", fam, mm2[1]),
                      files={"ops.txt": p, "expected.json": json.dumps(prefix, indent=1),
                             "observed.json": json.dumps(recs, indent=1),
                             "howto.txt": ".build/harness/c46drv %s bob ops.txt --log=root.thres:critical\n" % PLATFORM},
                      signature=sig, detail="%d sequences of this run deviate with this signature\n%s" % (len(lst), json.dumps(brief(prefix))))
    ctx.cov["exhaustive"] = True
    ctx.cov["rule"] = ("operation sequences are behaviours of FileSys.tla generated by TLC (BFS: every sequence of %d steps over 2 "
                       "names x 2 disks x 2 handles; -simulate seeded by VERIF_SEED: 40 steps over 5 names x 2 disks x 3 handles, "
                       "families full and clean); each is replayed in its own process on host bob and every step compared; "
                       "non-trivial = at least two size-changing operations; distinct by hash of (family, operation list)" %
                       3)
    ctx.assumptions += ["one handle per file at a time; moves only to unused names on the same disk; disk capacity (500 GiB) never "
                        "approached; remote mounts, remote_copy/remote_move are not exercised",
                        "write below the end of a file without write_inside is read as a truncating write (the code gives the tail "
                        "back to the disk: 'the part of the file that might disappear')",
                        "the content map of FileSystemDiskExt (public get_content()) is taken as 'the files stored on the disk'"]
