"""C47 Paje traces are well formed (src/instr). See DESIGN.md section 4 (C47).

M  spec/lib/Paje.tla: the Paje format as a state machine (types, entity values, live / destroyed containers, state
   stacks, last timestamp; Why(p, ev) = first violated condition of an event, Apply = its effect); PajeMC.tla explores
   every sequence of enabled events over a small universe: PajeInv is preserved, what the property forbids is disabled.
T  trace files written by real runs: (a) random synchronisation programs of the kernel checks (harness/kdrv.cpp),
   (b) harness/paje_drv.cpp scenarios (actors created at start and dynamically, sleeps, categorized executions and
   communications, detached sends, timeouts, suspend/resume, migration, kills, VMs, user variables, marks, user host
   states) on several platforms, (c) harness/paje_mpi.c under smpirun -trace; each x a set of tracing options drawn
   from VERIF_SEED.  A generic converter driven by the %EventDef header (checks/paje_conv.py) turns every line into an
   event; Paje_trace.tla replays the events; every event that is not enabled is reported with the reason computed by
   TLC.  Violations are grouped by signature C47:<reason>:<event kind>:<detail>.

Genuine defects found on the unchanged tree (KNOWN_FINDINGS.jsonl; the check stays strict for everything else):
  K1 decreasing timestamps: CreateContainer lines are written through while earlier-dated events wait in the buffer
     (proposed/fix-C47-create-container-order.diff; with it applied in a scratch tree the state / link / event cases vanish)
  K2 decreasing timestamps: resource-utilization variables are emitted retroactively (date of the action's last update)
  K3 PopState on an empty stack after an actor migrated with an open state (container destroyed and re-created)
  K4 PopState on an empty stack after Actor::resume() of an actor that was not suspended
Not C47 (no trace comes out), seen while building the scenarios: tracing crashes on platforms with routers, with
tracing/vm, and with tracing/categorized alone; state events carry undeclared extra fields with display-sizes /
trace-call-location (counted in the evidence as events_with_undeclared_extra_fields).

Mutations tried in a scratch worktree (tools/mutbuild.sh, VERIF_REPO / VERIF_BUILD), T part of the quick tier:
  * instr_platform.cpp: the sleep of odd actors is not pushed (their wake-up still pops): CAUGHT
    (C47:pop-without-push:PopState:ACTOR_STATE, 43 events, not masked by K3 / K4)
  * instr_paje_containers.cpp: no dump_buffer before a container destruction is written: CAUGHT (use-after-destroy of
    Push/PopState on ACTOR_STATE and MPI_STATE, time-decreases after DestroyContainer; 15 signatures)
  * instr_paje_trace.cpp insert_into_buffer compares with >= instead of <=: CAUGHT (time-decreases between buffered
    events, e.g. StartLink after PushState; 31 signatures, none masked by K1 / K2)
"""
import json, os, re
import vlib, drivers
import lib2_common as L
import paje_conv
import kernel_common as K

LEVEL = "model_checking"
META = {"text": "The Paje format is specified as a TLA+ state machine (declared types and entity values, live and destroyed "
                "containers, per-(container, state type) stacks, last timestamp; one enabling condition per event kind); TLC "
                "explores it exhaustively at small scope (invariants preserved, forbidden events disabled) and replays every "
                "event line of the trace files written by real runs - kernel synchronisation programs, tracing-oriented S4U "
                "scenarios on six platforms, an MPI code under smpirun - under tracing options drawn from the seed, reporting "
                "each event that is not enabled with the violated condition: declare-before-use, non-decreasing time, no use "
                "after destroy, pop only after push.",
        "note": "Trusted: TLC; the generic %EventDef-driven converter (timestamps -> ranks, field names normalised); link values "
                "and StartLink/EndLink key matching are not checked; states left open at destruction are not counted as "
                "unbalanced; TI traces excluded; four genuine defects are recorded as known findings (by signature) and do not "
                "fail the check; configurations that crash before writing a trace are avoided and listed in the module.",
        "technique": "TLC model checking of Paje.tla at small scope + TLC trace validation of real Paje trace files "
                     "(Paje_trace.tla), reasons computed by the specification"}
DRIVERS = {"paje_drv": (["paje_drv.cpp"], "s4u", []), "paje_mpi": (["paje_mpi.c"], "c-smpi", [])}
drivers.register(DRIVERS)

PLAT = vlib.REPO + "/examples/platforms/"
# Platforms with routers (cluster_backbone, cluster_crossbar, cloud, dogbone, griffon...) make the tracing of the platform crash
# while the platform is loaded (RouterContainer dereferences a null englobing zone), --cfg=tracing/vm:yes aborts on every
# platform (the container of each physical host is created twice), --cfg=tracing/categorized:yes alone aborts at the first
# categorized activity (resource_set_utilization looks the uncategorized variable up): no trace comes out of those runs,
# so they are outside C47 and avoided here.
S4U_PLATFORMS = ["small_platform.xml", "three_multicore_hosts.xml", "two_hosts.xml", "hosts_with_disks.xml", "cluster_fat_tree.xml",
                 "cluster_torus.xml"]
MPI_PLATFORMS = ["small_platform.xml", "cluster_fat_tree.xml", "cluster_torus.xml"]


# ------------------------------------------------------------------------------------------------- option sets
def s4u_options(rng):
    o = []
    for flag, p in (("tracing/actor", 0.7), ("tracing/uncategorized", 0.5), ("tracing/categorized", 0.5), ("tracing/platform", 0.3),
                    ("tracing/basic", 0.15), ("tracing/disable-destroy", 0.1), ("tracing/disable_link", 0.1),
                    ("tracing/disable_power", 0.1)):
        if rng.random() < p:
            o.append("--cfg=%s:yes" % flag)
    if rng.random() < 0.2:
        o.append("--cfg=tracing/platform/topology:no")
    if rng.random() < 0.2:
        o.append("--cfg=tracing/precision:%d" % rng.choice([3, 9, 12]))
    if not any(x in " ".join(o) for x in ("actor", "categorized", "platform:")):
        o.append("--cfg=tracing/actor:yes")
    if "--cfg=tracing/categorized:yes" in o and "--cfg=tracing/uncategorized:yes" not in o:
        o.append("--cfg=tracing/uncategorized:yes")
    return o


def mpi_options(rng):
    o = []
    for flag, p in (("tracing/smpi/internals", 0.5), ("tracing/smpi/computing", 0.5), ("tracing/smpi/sleeping", 0.3),
                    ("tracing/smpi/group", 0.3), ("tracing/smpi/display-sizes", 0.4), ("tracing/uncategorized", 0.3),
                    ("tracing/categorized", 0.2), ("tracing/platform", 0.2), ("tracing/basic", 0.1), ("smpi/trace-call-location", 0.15)):
        if rng.random() < p:
            o.append("--cfg=%s:yes" % flag)
    if "--cfg=tracing/categorized:yes" in o and "--cfg=tracing/uncategorized:yes" not in o:
        o.append("--cfg=tracing/uncategorized:yes")
    if rng.random() < 0.3:
        o.append("--cfg=smpi/simulate-computation:yes")
    return o


# ------------------------------------------------------------------------------------------------- scenarios for paje_drv
def gen_paje_scenario(rng, platform):
    na = rng.randint(2, 7)
    names = ["a%d" % i for i in range(na)]
    lines = ["PLATFORM " + PLAT + platform, "CAT compute", "CAT data", "HVAR load", "LVAR traffic", "MARK phase begin"]
    lines += ["HSTATE ST_%s busy" % n for n in names]      # one user state type per actor: its pushes and pops are its own
    mboxes = ["mb%d" % i for i in range(rng.randint(1, 3))]
    vm_user = rng.randrange(na) if rng.random() < 0.35 else -1
    for i, name in enumerate(names):
        start = 0 if rng.random() < 0.6 else rng.choice([0.1, 0.5, 1, 1.5, 2, 3])
        lines.append("ACTOR %s %d %g" % (name, rng.randrange(16), start))
        hdepth = 0
        vm_state = None
        for _ in range(rng.randint(1, 9)):
            k = rng.choice(["sleep", "sleep", "exec", "exec", "send", "recv", "dsend", "sendt", "recvt", "migrate", "suspend",
                            "kill", "rmigrate", "hvar", "lvar", "mark", "hstate", "yield", "vm"])
            if k == "sleep":
                lines.append("sleep %g" % rng.choice([0.1, 0.5, 1, 2]))
            elif k == "exec":
                lines.append("exec %g %s" % (rng.choice([1e6, 1e7, 1e8, 5e8]), rng.choice(["compute", "data", "-"])))
            elif k == "send":
                lines.append("send %s %d %s" % (rng.choice(mboxes), rng.choice([100, 100000, 10000000]), rng.choice(["data", "-"])))
            elif k == "dsend":
                lines.append("dsend %s %d" % (rng.choice(mboxes), rng.choice([100, 1000000])))
            elif k == "recv":
                lines.append("recv %s" % rng.choice(mboxes))
            elif k == "sendt":
                lines.append("sendt %s %d %g" % (rng.choice(mboxes), rng.choice([100, 10000000]), rng.choice([0.01, 0.5, 2])))
            elif k == "recvt":
                lines.append("recvt %s %g" % (rng.choice(mboxes), rng.choice([0.01, 0.5, 2])))
            elif k == "migrate":
                lines.append("migrate %d" % rng.randrange(16))
            elif k == "rmigrate":
                other = rng.choice(names)
                if other != name and rng.random() < 0.5:
                    lines.append("rmigrate %s %d" % (other, rng.randrange(16)))
            elif k == "suspend":
                other = rng.choice(names)
                if other != name:
                    lines += ["suspend " + other, "sleep %g" % rng.choice([0.1, 0.7]), "resume " + other]
            elif k == "kill":
                other = rng.choice(names)
                if other != name and rng.random() < 0.5:
                    lines.append("kill " + other)
            elif k == "hvar":
                lines.append("hvar %s load %g" % (rng.choice(["set", "add", "sub"]), rng.choice([1, 2.5, 10])))
            elif k == "lvar":
                lines.append("lvar %s %d traffic %g" % (rng.choice(["set", "add", "sub"]), rng.randrange(8), rng.choice([1, 3])))
            elif k == "mark":
                lines.append("mark phase begin")
            elif k == "hstate":
                if hdepth > 0 and rng.random() < 0.6:
                    lines.append("hstate pop ST_%s -" % name)
                    hdepth -= 1
                elif rng.random() < 0.2:
                    lines.append("hstate set ST_%s busy" % name)
                    hdepth = 1
                else:
                    lines.append("hstate push ST_%s busy" % name)
                    hdepth += 1
            elif k == "yield":
                lines.append("yield")
            elif k == "vm" and i == vm_user:
                nxt = {None: "create", "create": "start", "start": rng.choice(["suspend", "destroy"]), "suspend": "resume",
                       "resume": "destroy", "destroy": None}[vm_state]
                if nxt:
                    lines.append("vm %s vm%d %d" % (nxt, i, rng.randrange(16)))
                    vm_state = nxt
        while hdepth > 0:
            lines.append("hstate pop ST_%s -" % name)
            hdepth -= 1
        lines.append("END")
    return "\n".join(lines) + "\n"


# ------------------------------------------------------------------------------------------------- producing trace files
def run_case(ctx, idx, case):
    """case: dict(kind, ...). Runs the program; returns the path of the trace file (or None) and a short status"""
    d = os.path.join(ctx.scratch, "c%d" % idx)
    os.makedirs(d, exist_ok=True)
    tf = os.path.join(d, "out.trace")
    base = ["--cfg=tracing:yes", "--cfg=tracing/filename:" + tf]
    rc, err = 0, ""
    if case["kind"] == "kdrv":
        K.run_kdrv(ctx, 500000 + idx, case["prog"], cfg=base + case["opts"], timeout=30)
    elif case["kind"] == "paje_drv":
        sf = os.path.join(d, "scenario.txt")
        open(sf, "w").write(case["scenario"])
        rc, _, err = vlib.sh([drivers.get("paje_drv"), sf, "--log=root.thres:critical", "--cfg=debug/stacktrace:none"] + base + case["opts"],
                timeout=60, env=vlib.sg_env(), cwd=d)
    else:
        hf = os.path.join(d, "hostfile")
        open(hf, "w").write("\n".join(case["hosts"]) + "\n")
        rc, _, err = vlib.sh([vlib.SMPIRUN, "-np", str(case["np"]), "-platform", PLAT + case["platform"], "-hostfile", hf, "-trace",
                 "-trace-file", tf, "--cfg=smpi/host-speed:1f", "--log=root.thres:critical", "--cfg=debug/stacktrace:none"] + case["opts"] +
                [drivers.get("paje_mpi"), str(case["seed"]), str(case["rounds"])], timeout=120, env=vlib.sg_env(), cwd=d)
    # a deadlock report closes the trace properly (the process may abort afterwards, while killing the actors)
    STATUS[idx % 100000] = "ok" if rc == 0 else "deadlock" if "Deadlock detected" in err else "timeout" if rc == 124 else \
        "crash: " + (err.strip().splitlines() or ["?"])[-1][-160:]
    return tf if os.path.exists(tf) else None


STATUS = {}


def platform_hosts(platform):
    txt = open(PLAT + platform).read()
    hosts = re.findall(r'<host\s+id="([^"]+)"', txt)
    m = re.search(r'<cluster[^>]*prefix="([^"]*)"[^>]*radical="(\d+)-(\d+)"[^>]*suffix="([^"]*)"', txt)
    if m:
        hosts += ["%s%d%s" % (m.group(1), i, m.group(4)) for i in range(int(m.group(2)), int(m.group(3)) + 1)]
    return hosts


# fixed scenarios that exposed defects of the tracing code at the pinned commit (see KNOWN_FINDINGS.jsonl); the label is
# part of the signature of what they show, so that the same symptom elsewhere is still reported
REGRESSION = [
    {"kind": "paje_drv", "label": "migrate-while-asleep", "platform": "small_platform.xml", "opts": ["--cfg=tracing/actor:yes"],
     "scenario": "PLATFORM " + PLAT + "small_platform.xml\nACTOR a 0 0\nsleep 2\nEND\nACTOR b 1 0\nsleep 1\nrmigrate a 3\nEND\n"},
    {"kind": "paje_drv", "label": "resume-not-suspended", "platform": "small_platform.xml", "opts": ["--cfg=tracing/actor:yes"],
     "scenario": "PLATFORM " + PLAT + "small_platform.xml\nACTOR a 0 0\nexec 5e8 -\nEND\nACTOR b 1 0\nsleep 0.5\nfresume a\nEND\n"},
]


def gen_cases(ctx):
    rng = ctx.rng
    nk, npj, nm = (14, 36, 14) if ctx.quick else (150, 500, 120)
    cases = []
    cases += [dict(c) for c in REGRESSION]
    for _ in range(nk):
        cases.append({"kind": "kdrv", "prog": K.gen_sync_prog(rng, rng.choice(["all", "mutex", "sem", "cv", "bar"])),
                      "opts": s4u_options(rng)})
    for _ in range(npj):
        plat = rng.choice(S4U_PLATFORMS)
        cases.append({"kind": "paje_drv", "platform": plat, "scenario": gen_paje_scenario(rng, plat), "opts": s4u_options(rng)})
    for _ in range(nm):
        plat = rng.choice(MPI_PLATFORMS)
        hosts = platform_hosts(plat)
        np_ = rng.choice([1, 2, 3, 4, 6, 8])
        cases.append({"kind": "mpi", "platform": plat, "np": np_, "hosts": [hosts[i % len(hosts)] for i in range(np_)],
                      "seed": rng.randrange(1 << 30), "rounds": rng.randint(2, 12 if ctx.quick else 30), "opts": mpi_options(rng)})
    return cases


def brief(case):
    b = {"kind": case["kind"], "options": [o.replace("--cfg=", "") for o in case["opts"]]}
    if case["kind"] == "kdrv":
        b["program"] = K.prog_brief(case["prog"])["actors"]
    elif case["kind"] == "paje_drv":
        b["platform"] = case["platform"]
        b["scenario_lines"] = case["scenario"].count("\n")
    else:
        b.update(platform=case["platform"], np=case["np"], seed=case["seed"], rounds=case["rounds"])
    return b


# ------------------------------------------------------------------------------------------------- validation
def type_names(events):
    names = {"0": "0"}
    for ev in events:
        if ev["e"].startswith("Define") and ev["e"] != "DefineEntityValue":
            names[ev["alias"]] = ev["name"]
    return names


def validate(ctx, units, tag):
    """one TLC pass over all units; returns {unit index: [(line offset, reason, reason2, lastk)]}"""
    out = {}
    batches, cur, n = [], [], 0
    for i, u in enumerate(units):
        cur.append(i)
        n += len(u)
        if n > 25000:
            batches.append(cur)
            cur, n = [], 0
    if cur:
        batches.append(cur)

    def one(bi_b):
        bi, b = bi_b
        tf = os.path.join(ctx.scratch, "%s_%d.ndjson" % (tag, bi))
        starts = []
        ln = 0
        with open(tf, "w") as f:
            for i in b:
                starts.append(ln + 1)
                for r in units[i]:
                    f.write(json.dumps(r, separators=(",", ":")) + "\n")
                    ln += 1
        r = vlib.tlc(os.path.join(L.LSPEC, "Paje_trace.tla"), env={"TRACE": tf}, workers=1, timeout=1500, xmx="4g")
        if not r.ok:
            raise vlib.InfraError("Paje trace validation failed to run (%s %s)\n%s" % (r.status, r.what[:300], r.out[-3000:]))
        prog = [vlib.parse_tla_value(x) for x in r.prints if x.startswith('<<"PROGRESS"')]
        if not prog or prog[-1][1] != ln + 1 or prog[-1][2] != ln:
            raise vlib.InfraError("Paje trace validation did not consume the whole batch: %s" % prog)
        res = {}
        for x in r.prints:
            if x.startswith('<<"REJECT"'):
                v = vlib.parse_tla_value(x)
                gl = v[1]
                j = max(k for k in range(len(b)) if starts[k] <= gl)
                res.setdefault(b[j], []).append((gl - starts[j], v[2], v[3], v[4] + ("|" + v[5] if v[5] else "")))
        return res, r

    for res, r in vlib.parallel_map(one, list(enumerate(batches)), nproc=6):
        out.update(res)
        ctx.add_tlc(r)
    return out


def signature(ev, reason, reason2, lastk, tnames, case=None):
    lastk, _, reinc = lastk.partition("|")
    if reason == "time-decreases":
        return "C47:time-decreases:%s:after:%s" % (ev["e"], lastk)
    return "C47:%s:%s:%s%s%s" % (reason, ev["e"], tnames.get(ev["type"], ev["type"]), ":" + reinc if reinc else "",
                                 ":regression=" + case["label"] if case and case.get("label") else "")


def run_mc(ctx):
    cfg = os.path.join(ctx.scratch, "pajemc.cfg")
    L.write_cfg(cfg, {"MaxSteps": 7 if ctx.quick else 9, "MaxT": 1}, invariants=["Inv", "Forbidden"], deadlock=False)
    r = vlib.tlc(os.path.join(L.LSPEC, "PajeMC.tla"), cfg=cfg, workers=8, timeout=2400)
    if not r.ok:
        raise vlib.InfraError("Paje.tla fails on its own (%s %s)\n%s" % (r.status, r.what[:200], r.out[-3000:]))
    ctx.add_tlc(r)
    ctx.cov["mc"] = {"distinct": r.distinct, "generated": r.generated, "diameter": r.diameter, "wall_s": round(r.wall, 1)}


def run(ctx):
    ctx.cov["rule"] = ("cases = (program, tracing options) pairs drawn from VERIF_SEED: kdrv synchronisation programs, paje_drv "
                       "scenarios on 5 platforms, paje_mpi under smpirun on 3 platforms; every event line of every produced "
                       "trace file is evaluated by TLC; non-trivial = the trace creates and destroys containers after date 0 "
                       "or pushes states; distinct by hash of program + options")
    run_mc(ctx)
    cases = gen_cases(ctx)
    files = vlib.parallel_map(lambda ic: run_case(ctx, ic[0], ic[1]), list(enumerate(cases)), nproc=12)
    conv = []
    kinds = {}
    nev = 0
    for case, f in zip(cases, files):
        if f is None:
            conv.append(None)
            continue
        ev, info = paje_conv.convert(f)
        conv.append(ev)
        nev += len(ev)
        for e in ev:
            kinds[e["e"]] = kinds.get(e["e"], 0) + 1
            if e.get("extra_fields"):
                ctx.cov["events_with_undeclared_extra_fields"] = ctx.cov.get("events_with_undeclared_extra_fields", 0) + 1
        dyn = any(e["e"] in ("CreateContainer", "DestroyContainer") and e["time"] for e in ev) or \
            any(e["e"] == "PushState" for e in ev)
        ctx.count([case.get("prog"), case.get("scenario"), case.get("seed"), case.get("np"), case.get("platform"), case["opts"]],
                  nontrivial=dyn)
    for case in cases[:2] + cases[-2:]:
        ctx.sample(brief(case))
    st = {}
    for i in range(len(cases)):
        k = STATUS.get(i, "?").split(":")[0]
        st[k] = st.get(k, 0) + 1
    ctx.cov["run_status"] = st
    ctx.cov["crash_messages"] = sorted({v for v in STATUS.values() if v.startswith("crash")})[:8]
    if st.get("crash", 0) + st.get("timeout", 0) > len(cases) // 5:
        raise vlib.InfraError("too many runs ended abnormally (their traces are truncated): %s %s" % (st, ctx.cov["crash_messages"]))
    ctx.cov["trace_files"] = sum(1 for c in conv if c is not None)
    ctx.cov["no_trace_file"] = sum(1 for c in conv if c is None)
    ctx.cov["events"] = nev
    ctx.cov["events_by_kind"] = kinds
    if ctx.cov["no_trace_file"] > len(cases) // 4:
        raise vlib.InfraError("%d of %d runs produced no trace file" % (ctx.cov["no_trace_file"], len(cases)))
    idx = [i for i, c in enumerate(conv) if c is not None]
    rej = validate(ctx, [paje_conv.to_unit(conv[i]) for i in idx], "pv")
    ctx.cov["traces_validated_against_impl"] += len(idx)
    ctx.cov["ill_formed_events"] = sum(len(v) for v in rej.values())
    # group by signature; confirm each signature by running one of its cases again
    groups = {}
    for j, lst in rej.items():
        i = idx[j]
        tn = type_names(conv[i])
        for off, reason, reason2, lastk in lst:
            ev = conv[i][off - 1]          # offset 0 is the Reset line
            groups.setdefault(signature(ev, reason, reason2, lastk, tn, cases[i]), []).append((i, off, reason2))
    ctx.cov["signatures"] = {k: len(v) for k, v in groups.items()}
    for sig, occ in sorted(groups.items()):
        i, off, reason2 = occ[0]
        f2 = run_case(ctx, 100000 + i, cases[i])
        again = False
        if f2:
            ev2, _ = paje_conv.convert(f2)
            r2 = validate(ctx, [paje_conv.to_unit(ev2)], "re%d" % i)
            tn2 = type_names(ev2)
            again = any(signature(ev2[o - 1], a, b, c, tn2, cases[i]) == sig for o, a, b, c in r2.get(0, []))
        if not again:
            ctx.cov["unconfirmed_rejections"] = ctx.cov.get("unconfirmed_rejections", 0) + 1
            continue
        ev = conv[i][off - 1]
        fl = {"case.json": json.dumps(brief(cases[i]), indent=1), "trace.paje": files[i],
              "howto.txt": "run the program of case.json with --cfg=tracing:yes and the listed options; convert with "
                           "checks/paje_conv.py; validate with spec/lib/Paje_trace.tla\n"}
        if cases[i]["kind"] == "paje_drv":
            fl["scenario.txt"] = cases[i]["scenario"]
        elif cases[i]["kind"] == "kdrv":
            fl["program.txt"] = K.prog_to_txt(cases[i]["prog"])
        ctx.violation("Paje trace of a %s run: line %d `%s` is ill formed: %s%s (%d such events in %d trace files of this run)" %
                      (cases[i]["kind"], ev["lineno"], ev["raw"], sig.split(":")[1],
                       " (latest date so far set by a %s event)" % sig.split(":")[-1] if "time-decreases" in sig else "",
                       len(occ), len({o[0] for o in occ})),
                      files=fl, signature=sig,
                      detail="options %s\nevent %s" % (" ".join(cases[i]["opts"]), json.dumps({k: ev[k] for k in ev if k != "raw"})))
    ctx.assumptions += ["the values of links (free strings in SimGrid's traces) and the matching of StartLink / EndLink keys are not checked",
                        "states left open when a container is destroyed or at the end of the trace are not counted as unbalanced",
                        "TI traces (tracing/smpi/format:TI) are excluded"]
