"""C48 Configuration flags parse and validate values (src/xbt/config.cpp, src/simgrid/sg_config.cpp), spec/lib/Config.tla.

M: ConfigMC.tla: every sequence of 3 Set/SetDefault operations on a small registry (names, aliases, unknown keys, parsable
   and unparsable literals): a rejected operation changes nothing, an accepted one stores exactly the parsed value, unsets
   is_default and runs the visible callback exactly once.
T: the driver harness/c48drv.cpp declares flags of every type (callbacks that log, a validating callback, aliases), lists
   *all registered items* (public listing = the message of the out_of_range thrown for an unknown key; aliases from
   --help-aliases), and applies generated literals through set_as_string, set_parse ("--cfg" syntax), the real command
   line (--cfg=key:literal given to the Engine), set_value<T>, set_default<T> and the sg_cfg_* C API; every operation logs
   outcome / callbacks fired / value and is_default afterwards.  SimGrid's own items are exercised in forked children
   (their callbacks may refuse a value or end the process: left open by the specification; an unparsable literal must be
   refused with nothing changed, a stored value must read back exactly).  Config_trace.tla validates every trace.
   The literal -> value ground truth (pv) comes from the generator below, as DESIGN.md says.

Mutation evidence (tools/mutbuild.sh lib, quick tier):
  caught  parse_long accepts trailing garbage ("1.5" stored as 1 into int items)   -> trace line res ok for an unparsable literal
  caught  set_string_value does not run the callback                             -> callbacks missing (command line batch, set_*)
  caught  set_string_value does not unset is_default                             -> is_default still true after an accepted set
"""
import json, os, re
import vlib
import lib_common as L

LEVEL = "model_checking"
META = {"text": "spec/lib/Config.tla gives, for a registry of items (name, aliases, type, default, callback visibility), the outcomes allowed for Set by string / typed Set / SetDefault / Get / IsDefault: unknown key => error and nothing changes; unparsable literal => error, nothing changes, no callback; else the parsed value is stored, is_default falls, the callback runs once with it. ConfigMC model-checks these properties on a small registry. The driver lists every item registered in the running library (147 of SimGrid + 7 of its own with logging/validating callbacks and aliases), applies generated valid and invalid literals through set_as_string, set_parse (--cfg syntax), the real command line, set_value<T>, set_default<T> and the sg_cfg_* C API, logs outcome, callbacks, value and is_default after each operation, and Config_trace.tla validates every trace.",
        "note": "Trusted: TLC; the literal -> value ground truth is the generator's (decimal ints, decimal floats, the eight boolean words); callbacks of SimGrid's own items are invisible: for them refusal or process end after a successful parse is left open, parse rejection and exact read-back are decided. Octal/hex integers, hex floats, inf/nan not generated.",
        "technique": "TLC model checking of Config (M) + TLC trace validation of logged configuration operations (T)"}
DRIVERS = {"c48drv": L.DRIVERS["c48drv"]}

OWN_FLAGS = [   # the flags declared by c48drv.cpp, in declaration order
    {"name": "verif/int", "aliases": ["verif/int-old", "verif_int_legacy"], "type": "int", "dflt": "5", "cb": "yes"},
    {"name": "verif/double", "aliases": ["verif/double-old"], "type": "double", "dflt": "1.5", "cb": "yes"},
    {"name": "verif/bool", "aliases": ["verif/bool-old"], "type": "boolean", "dflt": "0", "cb": "yes"},
    {"name": "verif/string", "aliases": ["verif/string-old"], "type": "string", "dflt": "abc", "cb": "yes"},
    {"name": "verif/int-pos", "aliases": [], "type": "int", "dflt": "1", "cb": "yes"},
    {"name": "verif/nocb-int", "aliases": [], "type": "int", "dflt": "7", "cb": "no"},
    {"name": "verif/nocb-string", "aliases": ["verif/nocb-string-old"], "type": "string", "dflt": "x", "cb": "no"},
]
UNKNOWN_KEYS = ["verif/nope", "verif_int", "verif/int/old", "Verif/int", "verif/int "]

INT_LITS = ["0", "42", "-7", "+5", "2147483647", "-2147483648", "2147483648", "-2147483649", "99999999999999999999",
            "12abc", "abc", "", "1.5", "1e3", "--1", "-", "3 "]
DBL_LITS = ["0", "1.5", "-2.25", "1e3", "1E-3", ".5", "5.", "1e308", "1e999", "1.5x", "1,5", "", "0.1", "123456789.125", "-0.001"]
BOOL_LITS = ["yes", "no", "on", "off", "true", "false", "1", "0", "YES", "True", "oN", "OFF", "2", "maybe", "tru", "y", "10", "-1"]
STR_LITS = ["abc", "", "with:colon", "x y", "Some/Path.txt", "-"]


# ---------------------------------------------------------------------------------------- ground truth literal -> value
def canon_double(x):
    return "%.17g" % x


def parse_all(lit):
    """Value of the literal for each type, canonical rendering, or ERR. Only unambiguous forms are ever generated
    (no octal/hexadecimal integers, no hexadecimal floats, inf, nan, no subnormal results)."""
    pv = {"string": lit}
    m = re.fullmatch(r"[+-]?(0|[1-9][0-9]*)", lit)
    pv["int"] = str(int(lit)) if m and -2 ** 31 <= int(lit) <= 2 ** 31 - 1 else "ERR"
    pv["double"] = "ERR"
    if re.fullmatch(r"[+-]?([0-9]+\.?[0-9]*|\.[0-9]+)([eE][+-]?[0-9]+)?", lit):
        x = float(lit)
        if x not in (float("inf"), float("-inf")):
            if x == 0 and re.search(r"[1-9]", re.split(r"[eE]", lit)[0]):
                pv["double"] = "ERR"        # underflow: ERANGE
            else:
                pv["double"] = canon_double(x)
    low = lit.lower()
    pv["boolean"] = "1" if low in ("yes", "on", "true", "1") else "0" if low in ("no", "off", "false", "0") else "ERR"
    return pv


def typed_pv(typ, value):
    """pv of a value handed to a typed entry point (only the entry of its own type is meaningful)."""
    pv = {"int": "ERR", "double": "ERR", "boolean": "ERR", "string": "ERR"}
    pv[typ] = value
    return pv


# ---------------------------------------------------------------------------------------- generation
def pool(rng, typ, thorough):
    lits = {"int": INT_LITS, "double": DBL_LITS, "boolean": BOOL_LITS, "string": STR_LITS}[typ]
    if thorough and typ == "int" and rng.random() < 0.5:
        return str(rng.randint(-2 ** 31, 2 ** 31 - 1))
    if thorough and typ == "double" and rng.random() < 0.5:
        return repr(rng.uniform(-1e6, 1e6)) if rng.random() < 0.7 else "%de%d" % (rng.randint(1, 999), rng.randint(-200, 200))
    return rng.choice(lits)


def gen_session(rng, sid, nops, thorough):
    """An in-process session on the driver's flags: (argv items, op lines)."""
    keys = [(f, k) for f in OWN_FLAGS for k in [f["name"]] + f["aliases"]]
    argv = []
    for _ in range(rng.randint(0, 3)):
        f, k = rng.choice(keys)
        while True:
            lit = pool(rng, f["type"], thorough)
            pv = parse_all(lit)
            if pv[f["type"]] != "ERR" and not re.search(r"[ \t,]", lit) and lit != "" and not (f["name"] == "verif/int-pos" and int(lit) < 0):
                break
        argv.append({"key": k, "type": f["type"], "lit": lit})
    ops = []
    for _ in range(nops):
        r = rng.random()
        f, k = rng.choice(keys)
        if rng.random() < 0.12:
            k = rng.choice(UNKNOWN_KEYS)
        typ = f["type"]
        if r < 0.45:
            kind = "set_string" if rng.random() < 0.5 else "set_parse"
            lit = pool(rng, typ if rng.random() < 0.75 else rng.choice(["int", "double", "boolean", "string"]), thorough)
            if kind == "set_parse" and (re.search(r"[ \t\n,]", lit + k) or k == ""):
                kind = "set_string"
            ops.append({"k": kind, "key": k, "type": typ, "lit": lit})
        elif r < 0.65:
            kind = rng.choice(["set_typed", "c_api", "set_default"])
            while True:
                lit = pool(rng, typ, thorough)
                pv = parse_all(lit)
                if pv[typ] != "ERR":
                    break
            if kind == "c_api" and typ == "boolean":
                lit = rng.choice(BOOL_LITS)                  # sg_cfg_set_boolean takes the literal
                ops.append({"k": kind, "key": k, "type": typ, "lit": lit, "pvmode": "literal"})
            else:
                v = parse_all(lit)[typ]                       # the driver converts the canonical rendering back to the type
                ops.append({"k": kind, "key": k, "type": typ, "lit": v, "pvmode": "typed"})
        elif r < 0.88:
            ops.append({"k": "get", "key": k, "type": typ, "lit": ""})
        else:
            ops.append({"k": "isdef", "key": k, "type": typ, "lit": ""})
    return argv, ops


def gen_child(rng, item, aliases, thorough):
    """Operations on one of SimGrid's own items (run in a forked child)."""
    typ, cur, name = item["type"], item["val"], item["name"]
    ops = [{"k": "get", "key": name, "type": typ, "lit": ""}, {"k": "isdef", "key": name, "type": typ, "lit": ""}]
    bad = {"int": ["12abc", "1.5", "", "99999999999999999999"], "double": ["1.5x", "abc", "", "1e999"],
           "boolean": ["2", "maybe", ""], "string": []}[typ]
    for lit in (bad if thorough else rng.sample(bad, min(2, len(bad)))):
        ops.append({"k": rng.choice(["set_string", "set_parse"]) if lit else "set_string", "key": rng.choice([name] + aliases),
                    "type": typ, "lit": lit})
        ops.append({"k": "get", "key": name, "type": typ, "lit": ""})
        ops.append({"k": "isdef", "key": name, "type": typ, "lit": ""})
    # a literal that re-states the current value (most callbacks accept it), then a different one (may be refused)
    same = {"int": cur, "double": cur, "boolean": "yes" if cur == "1" else "no", "string": cur}[typ]
    other = {"int": "3", "double": "0.5", "boolean": "no" if cur == "1" else "yes", "string": "verif"}[typ]
    for lit in (same, other):
        kind = "set_parse" if lit and not re.search(r"[ \t\n,]", lit) and rng.random() < 0.5 else "set_string"
        ops.append({"k": kind, "key": rng.choice([name] + aliases), "type": typ, "lit": lit})
        ops.append({"k": "get", "key": name, "type": typ, "lit": ""})
        ops.append({"k": "isdef", "key": rng.choice([name] + aliases), "type": typ, "lit": ""})
    return ops


def op_line(o):
    return "\t".join([o["k"], o["key"], o["type"], o["lit"]])


def pv_of(o):
    if o["k"] in ("get", "isdef"):
        return typed_pv("string", "")
    if o.get("pvmode") == "typed":
        return typed_pv(o["type"], o["lit"])
    return parse_all(o["lit"])


NORMAL = {"e": "", "sid": "", "declared": [], "at_init": [], "argv": [], "k": "", "key": "", "pv": typed_pv("string", ""),
          "res": "", "got": "", "cbs": [], "val": "", "isdef": False, "nokey": False}


def norm(rec):
    out = dict(NORMAL)
    for k in NORMAL:
        if k in rec:
            out[k] = rec[k]
    return out


def run_process(ctx, pid, session, children):
    """One driver process: an in-process session (argv, ops) followed by forked children. Returns the list of traces:
    [(sid, description, [normalised trace lines])]."""
    argv, ops = session
    p = os.path.join(ctx.scratch, "ops_%d.txt" % pid)
    with open(p, "w") as f:
        f.write("session\ts%d\n" % pid)
        for o in ops:
            f.write(op_line(o) + "\n")
        for ci, (item, cops) in enumerate(children):
            f.write("child\tc%d_%d\n" % (pid, ci))
            if item["name"] != "debug/stacktrace":
                f.write("quiet\n")
            for o in cops:
                f.write(op_line(o) + "\n")
            f.write("endchild\n")
    args = ["run", p] + ["--cfg=%s:%s" % (a["key"], a["lit"]) for a in argv] + ["--log=root.thres:critical"]
    rc, out, err = L.run_driver("c48drv", args, timeout=300)
    recs = []
    for line in out.splitlines():
        if line.startswith("{"):
            try:
                recs.append(json.loads(line))
            except ValueError:
                raise vlib.InfraError("c48drv printed a garbled line: " + line[:200])
    if rc != 0 or not recs:
        raise vlib.InfraError("c48drv failed (rc=%s): %s" % (rc, err[-1500:]))
    # split into sessions and attach the generator's ground truth
    traces = []
    plans = [("s%d" % pid, ops, argv)] + [("c%d_%d" % (pid, ci), cops, []) for ci, (item, cops) in enumerate(children)]
    by_sid = {}
    cur = None
    for r in recs:
        if r["e"] == "reset":
            cur = r["sid"]
            by_sid[cur] = [r]
        elif r["e"] == "childend":
            cur = None
        elif cur is not None:
            by_sid[cur].append(r)
    for sid, plan, av in plans:
        got = by_sid.get(sid)
        if not got:
            raise vlib.InfraError("c48drv: no trace for session " + sid)
        reset = norm(got[0])
        reset["argv"] = [{"key": a["key"], "pv": parse_all(a["lit"])} for a in av]
        lines = [reset]
        oplines = [r for r in got[1:] if r["e"] == "op"]
        tries = [r for r in got[1:] if r["e"] == "try"]
        for j, o in enumerate(plan):
            if j < len(oplines):
                r = norm(oplines[j])
                if (r["k"], r["key"]) != (o["k"], o["key"]):
                    raise vlib.InfraError("c48drv trace out of step in %s: %s vs %s" % (sid, r, o))
                r["pv"] = pv_of(o)
                lines.append(r)
            elif j < len(tries):           # attempted, never answered: the process ended inside the call
                r = norm({"e": "op", "k": o["k"], "key": o["key"], "res": "died"})
                r["pv"] = pv_of(o)
                lines.append(r)
                break
            else:
                raise vlib.InfraError("c48drv: session %s stopped before operation %d without attempting it" % (sid, j))
        traces.append((sid, plan, lines))
    return traces


def validate(ctx, regf, traces, tag):
    """Batch the traces through Config_trace.tla; returns rejected (sid, plan, lines, line index, reason)."""
    rejected = []
    todo = list(traces)
    rounds = 0
    while todo and len(rejected) < 6:
        rounds += 1
        tf = os.path.join(ctx.scratch, "%s_%d.ndjson" % (tag, rounds))
        ranges = []
        n = 0
        with open(tf, "w") as f:
            for sid, plan, lines in todo:
                s = n + 1
                for r in lines:
                    f.write(json.dumps(r) + "\n")
                    n += 1
                ranges.append((s, n))
        r = vlib.tlc(L.spec("Config_trace.tla"), env={"REG": regf, "TRACE": tf, "JAVA_TOOL_OPTIONS": "-Xss256m"}, timeout=1800,
                     workers=1)     # long traces: TLC's evaluation recursion needs a deeper thread stack
        ctx.add_tlc(r)
        if r.status not in ("ok", "invariant"):
            raise vlib.InfraError("Config_trace failed to run: %s\n%s" % (r.status, L.excerpt(r)))
        prog = [x for x in L.tagged_prints(r, "PROGRESS")]
        if r.status == "ok" and not prog:
            raise vlib.InfraError("Config_trace printed no PROGRESS line\n" + r.out[-2000:])
        if r.status == "ok" and prog[-1][0] == prog[-1][1] + 1:
            break
        line = prog[-1][0] if r.status == "ok" else max([int(x) for x in re.findall(r"/\\ l = (\d+)", r.out)] or [1])
        bad = next((j for j, (s, e) in enumerate(ranges) if s <= line <= e), len(ranges) - 1)
        sid, plan, lines = todo[bad]
        rejected.append((sid, plan, lines, line - ranges[bad][0],
                         "invariant %s" % r.what if r.status == "invariant" else "no outcome allowed by Config.tla matches this line"))
        todo = todo[bad + 1:]
    ctx.cov["traces_validated_against_impl"] += len(traces)
    return rejected


def run(ctx):
    q = ctx.quick
    rng = ctx.rng
    # ---------------------------------------------------------------- M
    r = vlib.tlc(L.spec("ConfigMC.tla"), timeout=1500, workers=8)
    L.need_ok(r, "ConfigMC")
    ctx.add_tlc(r)
    ctx.cov["mc"] = {"distinct": r.distinct, "generated": r.generated, "wall_s": round(r.wall, 1),
                     "properties": ["RejectedChangesNothing", "AcceptedStores", "DefaultDoesNotOverride"]}
    # ---------------------------------------------------------------- the registry of the running SimGrid
    rc, out, err = L.run_driver("c48drv", ["list", "--log=root.thres:critical"], timeout=120)
    items = [json.loads(l) for l in out.splitlines() if l.startswith("{")]
    if rc != 0 or len(items) < 20:
        raise vlib.InfraError("c48drv list failed: rc=%s %s" % (rc, err[-1000:]))
    rc, out, err = L.run_driver("c48drv", ["--help-aliases"], timeout=120)
    aliases = {}
    for l in (out + err).splitlines():
        t = l.split()
        if len(t) >= 2 and t[-1] in {i["name"] for i in items} and "/" in t[-2] + t[-1] and not l.lstrip().startswith("Here"):
            aliases.setdefault(t[-1], []).append(t[-2])
    mine = {f["name"] for f in OWN_FLAGS}
    for f in OWN_FLAGS:
        it = next((i for i in items if i["name"] == f["name"]), None)
        if it is None or it["type"] != f["type"] or it["val"] != f["dflt"] or sorted(aliases.get(f["name"], [])) != sorted(f["aliases"]):
            raise vlib.InfraError("driver flag %s not listed as declared: %s aliases %s" % (f["name"], it, aliases.get(f["name"])))
    theirs = [i for i in items if i["name"] not in mine]
    neg = sorted({parse_all(l)["int"] for l in INT_LITS if parse_all(l)["int"] not in ("ERR",) and int(parse_all(l)["int"]) < 0})
    reg = []
    for f in OWN_FLAGS:
        reg.append(dict(f, rejects=[]))
    for i in theirs:
        reg.append({"name": i["name"], "aliases": aliases.get(i["name"], []), "type": i["type"], "dflt": i["val"], "cb": "unknown",
                    "rejects": []})
    ctx.cov["registered_items"] = len(items)
    ctx.cov["simgrid_items_exercised"] = len(theirs)
    ctx.cov["aliases"] = sum(len(v) for v in aliases.values())

    # ---------------------------------------------------------------- generate and run
    nproc = 4 if q else 24
    nops = 40 if q else 120
    plans = []
    per = (len(theirs) + nproc - 1) // nproc
    rejects = set(neg)
    for pidx in range(nproc):
        sess = gen_session(rng, pidx, nops, not q)
        for o in sess[1]:
            if o["type"] == "int":
                v = pv_of(o).get("int", "ERR")
                if v != "ERR" and int(v) < 0:
                    rejects.add(v)
        kids = [(it, gen_child(rng, it, aliases.get(it["name"], []), not q)) for it in theirs[pidx * per:(pidx + 1) * per]]
        plans.append((pidx, sess, kids))
    for x in reg:
        if x["name"] == "verif/int-pos":
            x["rejects"] = sorted(rejects)
    regf = os.path.join(ctx.scratch, "reg.json")
    json.dump(reg, open(regf, "w"))
    results = vlib.parallel_map(lambda p: run_process(ctx, p[0], p[1], p[2]), plans)
    traces = [t for res in results for t in res]
    nset = 0
    for sid, plan, lines in traces:
        for r in lines[1:]:
            case = [r["k"], r["key"], r["pv"]]
            ctx.count(case, nontrivial=r["k"] not in ("get", "isdef"))
            nset += r["k"] not in ("get", "isdef")
    ctx.cov["operations"] = sum(len(l) - 1 for _, _, l in traces)
    ctx.cov["set_operations"] = nset
    ctx.cov["died"] = sum(1 for _, _, l in traces for r in l if r["res"] == "died")
    ctx.cov["refused_by_callback"] = sum(1 for _, _, l in traces for r in l[1:] if r["res"] in ("range_error", "other_exception")
                                         and r["k"] != "get" and r["pv"].get("string") is not None and r["cbs"])
    for sid, plan, lines in traces[:1] + traces[-2:]:
        ctx.sample({"session": sid, "lines": [{k: r[k] for k in ("k", "key", "res", "cbs", "val", "isdef")} for r in lines[1:6]]})

    chunks = [traces[i:i + 50] for i in range(0, len(traces), 50)]
    rejected = [x for res in vlib.parallel_map(lambda ic: validate(ctx, regf, ic[1], "cfg%d" % ic[0]), list(enumerate(chunks)), nproc=6)
                for x in res]
    for sid, plan, lines, off, reason in rejected:
        # re-run the same plan alone: a rejection is reported only if it reproduces
        if sid.startswith("s"):
            pidx = int(sid[1:])
            again = run_process(ctx, 1000 + pidx, plans[pidx][1], [])
        else:
            pidx, ci = [int(x) for x in sid[1:].split("_")]
            again = run_process(ctx, 1000 + pidx * 1000 + ci, ([], []), [plans[pidx][2][ci]])[1:]
        rej2 = validate(ctx, regf, again, "re_" + sid)
        if not rej2:
            ctx.cov["unconfirmed_rejections"] = ctx.cov.get("unconfirmed_rejections", 0) + 1
            continue
        sid2, plan2, lines2, off2, reason2 = rej2[0]
        bad = lines2[off2] if off2 < len(lines2) else None
        ctx.violation("configuration trace rejected by Config.tla at %s: %s" % (json.dumps({k: bad[k] for k in (("e", "sid", "declared", "at_init", "argv") if bad["e"] == "reset" else ("k", "key", "res", "cbs", "val", "isdef", "got"))}) if bad else "?", reason2),
                      files={"registry.json": regf, "trace.ndjson": "\n".join(json.dumps(r) for r in lines2) + "\n",
                             "howto.txt": "REG=registry.json TRACE=trace.ndjson tlc -workers 1 spec/lib/Config_trace.tla (accepted iff PROGRESS = lines + 1)\n"},
                      signature="C48:%s:%s:%s" % (bad["k"] if bad else "?", bad["key"] if bad else "?", bad["res"] if bad else "?"),
                      detail="first unconsumed line #%d of session %s" % (off2, sid2))
    ctx.cov["rule"] = ("every item registered in the running library (%d, listed by the library itself) gets: get/is_default, 2+ unparsable "
                       "literals of its type, a literal restating its value and a different one, through set_as_string / set_parse and "
                       "its aliases, in a forked child; the driver's 7 flags get %d seeded sessions of %d random operations (names, "
                       "aliases, unknown keys; literals of the right and of the wrong type; typed API, C API, set_default, command "
                       "line); non-trivial = a set operation; distinct by (entry point, key, literal ground truth)" %
                       (len(theirs), nproc, nops))
    ctx.assumptions += ["the literal -> value ground truth is the generator's (decimal integers in int range, decimal floating-point "
                        "literals, the eight boolean words); octal/hexadecimal integers, hex floats, inf/nan and surrounding blanks are "
                        "not generated",
                        "callbacks of SimGrid's own items are not observable: for them only parse rejection (nothing changes) and exact "
                        "read-back of an accepted value are decided; a refusal or the end of the process after parsing is left open",
                        "what an item holds after its validation callback refused a value is left open (old or new value)"]
