"""C49 Parallel map processes each element exactly once (src/xbt/parmap.hpp). See DESIGN.md section 4 (C49).

M  spec/lib/Parmap.tla = the algorithm of parmap.hpp, one TLA+ process per thread, one step per atomic operation, the three
   synchronisation modes (futex / posix / busy_wait), plain and "stealing" use (fun() drains the vector through next(),
   as SwappedContextFactory does).  TLC explores every interleaving and checks: refinement of ParmapAbs (every element
   exactly once per apply, return only when all are processed), apply returns only after every worker signalled and
   left work(), values of the shared words at return, no deadlock (lost wake-up); FairSpec: every apply and the
   destructor terminate.  Seeded design errors (constant Bug) must be rejected by the same configurations.
T  harness/parmap_driver.cpp runs the real Parmap<int*> / Parmap<int> (vector sizes 0..500, 1..16 threads, 3 modes,
   repeated applies on the same object, plain / delayed / stealing functions); the merged per-thread logs are
   validated by TLC against ParmapAbs (spec/lib/Parmap_trace.tla), including the shared words read at each return.

Mutations of src/xbt/parmap.hpp tried in a scratch worktree (tools/mutbuild.sh, VERIF_REPO / VERIF_BUILD), quick tier:
  * FutexSynchro::worker_wait does not compare the round (`while (false && round != expected_round)`): CAUGHT (exit 1;
    the workers run work() with no data: crash / wrong shared words at return, 8 scenarios reported)
  * PosixSynchro::master_wait satisfied, and the master notified, one signal early (`thread_counter + 1 >= num_workers`):
    CAUGHT (exit 1; the next master_signal races with the late worker and the parmap hangs: watchdog line `hang`,
    confirmed by the re-runs)
  * work(): `fetch_add` on common_index replaced by load + store: CAUGHT (exit 1; proc lines of elements already
    processed in the apply, 5 scenarios confirmed by re-run)
  The same three design errors seeded in the specification (constant Bug of Parmap.tla) are rejected by TLC in every run.
"""
import json, os
import vlib, drivers
import lib2_common as L

LEVEL = "model_checking"
META = {"text": "TLC explores every interleaving of the algorithm of parmap.hpp (one TLA+ process per thread, one step per atomic "
                "operation, futex / posix / busy_wait, plain and work-stealing use) up to 4 threads x 4 elements x 3 successive "
                "applies and shows that it implements the abstract parallel map (every element exactly once per apply, return "
                "only when all are processed and every worker has signalled), never deadlocks and always terminates under "
                "fairness; the merged per-thread logs of the real Parmap<int*> / Parmap<int> (sizes 0..500, 1..16 threads, "
                "3 modes, repeated applies) and the shared words read at each return are validated by TLC against the same "
                "abstract specification.",
        "note": "Trusted: TLC; sequentially consistent atomics and the documented semantics of futex / mutex / condition "
                "variable in the model; the global atomic sequence counter that orders the log; the operating system "
                "schedules the real threads, so the runs sample interleavings (exhaustiveness holds for the specification "
                "only, within the stated bounds). Liveness in posix mode needs strongly fair mutex acquisition.",
        "technique": "TLC model checking of Parmap.tla (refinement of ParmapAbs, invariants, deadlock, liveness; seeded design "
                     "errors rejected) + TLC trace validation of the real Parmap's logs (Parmap_trace.tla)"}
DRIVERS = {"parmap_driver": (["parmap_driver.cpp"], "s4u", ["-std=c++20"])}
drivers.register(DRIVERS)

MODES = ["futex", "posix", "busy"]
VARIANTS = {0: "plain", 1: "delayed", 2: "steal", 3: "plain-int"}


# ------------------------------------------------------------------------------------------------- M
ACTIONS = {"MBegin", "MIndex", "MDestroy", "MJoin", "MReturn", "MsLock", "MsCnt", "MsRnd", "MsWake", "MsUnlock", "MwLoad",
           "MwFwait", "MwLock", "MwChk", "MwUnlock", "WkLen", "WkFetch", "Fun", "StFetch", "WTop", "WChk",
           "WwLoad", "WwFwait", "WwLock", "WwChk", "WwUnlock", "WsLock", "WsInc", "WsTst", "WsWake", "WsUnlock",
           "SpuriousWake"}


def mc_jobs(ctx):
    """(name, constants, kind) ; kind: safe | live | bug:<status expected>"""
    jobs = []
    W = {1: "{}", 2: "{w1}", 3: "{w1, w2}", 4: "{w1, w2, w3}"}
    pairs = [(m, s) for m in MODES for s in (False, True)]
    full = pairs if not ctx.quick else [pairs[ctx.seed % len(pairs)]]
    for m, s in pairs:
        base = {"M": "m", "Mode": '"%s"' % m, "Steal": "TRUE" if s else "FALSE", "Spurious": "TRUE", "Bug": '"none"'}
        for n in ((1, 2, 3) if (not ctx.quick or not s) else (3,)):
            c = dict(base, W=W[n], MaxE=3, Applies=3, Sizes=L.tla_set(range(4)))
            jobs.append(("safe-%s-%s-n%d" % (m, "steal" if s else "plain", n), c, "safe"))
        if (m, s) in full:      # the stated bound: 4 threads x 4 elements x 3 applies, every size sequence
            c = dict(base, W=W[4], MaxE=4, Applies=3, Sizes=L.tla_set(range(5)))
            jobs.append(("safe-%s-%s-n4" % (m, "steal" if s else "plain"), c, "safe"))
        elif ctx.quick:
            c = dict(base, W=W[4], MaxE=4, Applies=2, Sizes=L.tla_set([0, 4]))
            jobs.append(("safe-%s-%s-n4r" % (m, "steal" if s else "plain"), c, "safe"))
    for m in MODES:
        base = {"M": "m", "Mode": '"%s"' % m, "Spurious": "TRUE", "Bug": '"none"'}
        jobs.append(("live-%s-n3" % m, dict(base, W=W[3], MaxE=2, Applies=2, Sizes="{0, 2}", Steal="FALSE"), "live"))
        if not ctx.quick:
            jobs.append(("live-%s-n2-steal" % m, dict(base, W=W[2], MaxE=2, Applies=3, Sizes="{0, 1, 2}", Steal="TRUE"), "live"))
            jobs.append(("live-%s-n4" % m, dict(base, W=W[4], MaxE=3, Applies=2, Sizes="{3}", Steal="FALSE"), "live"))
    bugs = (("noround", "futex", "invariant"), ("earlyret", "posix", "invariant"), ("nowake", "futex", "deadlock"),
            ("noround", "posix", "invariant"), ("earlyret", "busy", "invariant"), ("nowake", "posix", "deadlock"))
    for bug, m, expect in (bugs[:3] if ctx.quick else bugs):
        c = {"M": "m", "W": W[3], "MaxE": 2, "Applies": 2, "Mode": '"%s"' % m, "Steal": "FALSE", "Spurious": "FALSE",
             "Sizes": "{0, 2}", "Bug": '"%s"' % bug}
        jobs.append(("bug-%s-%s" % (bug, m), c, "bug:" + expect))
    return jobs


def run_mc(ctx):
    jobs = mc_jobs(ctx)
    spec = os.path.join(L.LSPEC, "Parmap.tla")

    def one(job):
        name, c, kind = job
        cfg = os.path.join(ctx.scratch, name + ".cfg")
        if kind == "live":
            L.write_cfg(cfg, c, spec="FairSpec", properties=["Terminates", "EveryApplyReturns"])
        else:
            L.write_cfg(cfg, c, spec="Spec", invariants=["Inv"], properties=["Refines"], symmetry="Sym")
        r = vlib.tlc(spec, cfg=cfg, deadlock=True, workers=4 if name.endswith("n4") else 2, coverage=(kind == "safe"),
                     timeout=1500 if ctx.quick else 3000, xmx="6g")
        return name, kind, r

    res = vlib.parallel_map(one, jobs, nproc=8)
    summary = {}
    never = None
    for name, kind, r in res:
        summary[name] = {"status": r.status, "distinct": r.distinct, "generated": r.generated, "diameter": r.diameter,
                         "wall_s": round(r.wall, 1)}
        if kind.startswith("bug:"):
            if r.status != kind[4:]:
                raise vlib.InfraError("seeded design error %s is not rejected as expected (%s, got %s %s): the "
                                      "properties of Parmap.tla are vacuous\n%s" % (name, kind[4:], r.status, r.what[:200], r.out[-1500:]))
            continue
        ctx.add_tlc(r)
        if not r.ok:
            raise vlib.InfraError("Parmap.tla fails on its own in configuration %s (%s %s): the specification (or the "
                                  "design of parmap.hpp it transcribes) is wrong\n%s" % (name, r.status, r.what[:200], r.out[-4000:]))
        if kind == "safe":
            taken = {a for a, (d, g) in r.coverage.items() if g > 0}
            never = taken if never is None else (never | taken)
    ctx.cov["mc"] = summary
    ctx.cov["mc_actions_taken"] = sorted(never or [])
    missing = ACTIONS - (never or set())
    if missing:
        raise vlib.InfraError("actions of Parmap.tla never taken in any configuration (nothing was checked about them): %s"
                              % sorted(missing))
    ctx.cov["exhaustive"] = True


# ------------------------------------------------------------------------------------------------- T
def gen_sizes(rng, n, count):
    pool = [0, 1, 2, max(0, n - 1), n, n + 1, 2 * n, 499, 500]
    out = []
    for _ in range(count):
        x = rng.random()
        if x < 0.35:
            out.append(rng.choice(pool))
        elif x < 0.65:
            out.append(rng.randint(0, 40))
        else:
            out.append(rng.randint(0, 500))
    return out


def scenarios(ctx):
    """list of (mode, nthreads, variant, sizes)"""
    rng = ctx.rng
    sc = []
    if ctx.quick:
        for m in MODES:
            for n in range(1, 17):
                for v in rng.sample([0, 1, 2, 3], 2):
                    sc.append((m, n, v, gen_sizes(rng, n, 4)))
    else:
        allsizes = list(range(0, 501))
        for m in MODES:
            for n in range(1, 17):
                if n in (1, 2, 3, 4, 8, 16):
                    # every size 0..500 once per (mode, n), split over the variants, in random order, 25 applies per object
                    rng.shuffle(allsizes)
                    for j in range(0, 501, 25):
                        sc.append((m, n, rng.choice([0, 1, 2, 3]), allsizes[j:j + 25]))
                for v in (0, 1, 2, 3):
                    sc.append((m, n, v, gen_sizes(rng, n, 8)))
    return sc


def run_driver(ctx, tag, scs, timeout=300, watchdog=120):
    """runs the scenarios in one driver process; returns the list of units (one per scenario, possibly truncated)"""
    drv = drivers.get("parmap_driver")
    sf = os.path.join(ctx.scratch, tag + ".txt")
    of = os.path.join(ctx.scratch, tag + ".ndjson")
    with open(sf, "w") as f:
        for m, n, v, sizes in scs:
            f.write("P %s %d %d %s\n" % (m, n, v, " ".join(map(str, sizes))))
    rc, out, err = vlib.sh([drv, sf, of, "--log=root.thres:critical", "--cfg=debug/stacktrace:none"], timeout=timeout,
                           env=vlib.sg_env({"PARMAP_WATCHDOG": str(watchdog)}))
    units, cur = [], None
    if os.path.exists(of):
        for line in open(of):
            line = line.strip()
            if not line:
                continue
            try:
                r = json.loads(line)
            except ValueError:
                r = {"e": "garbled"}
            if r.get("e") == "new":
                cur = [r]
                units.append(cur)
            elif cur is not None:
                cur.append(r)
    while len(units) < len(scs):          # the driver died / was killed: the missing instances are empty, hence rejected
        units.append([{"e": "crash", "rc": rc}])
    for u in units:
        if u[-1].get("e") != "del":
            u.append({"e": "crash", "rc": rc})
    os.unlink(of) if os.path.exists(of) else None
    return units


def concurrency(unit):
    """per apply: number of distinct threads that processed an element"""
    per = {}
    for r in unit:
        if r.get("e") == "proc":
            per.setdefault(r["k"], set()).add(r["t"])
    return per


def run_traces(ctx):
    scs = scenarios(ctx)
    groups = {}
    for i, s in enumerate(scs):
        groups.setdefault((s[0], s[1]), []).append(i)
    keys = sorted(groups)

    def one(gk):
        idxs = groups[gk]
        return idxs, run_driver(ctx, "g_%s_%d" % gk, [scs[i] for i in idxs], timeout=600 if ctx.quick else 1800,
                                watchdog=150 if ctx.quick else 600)

    units = [None] * len(scs)
    for idxs, us in vlib.parallel_map(one, keys, nproc=6):
        for i, u in zip(idxs, us):
            units[i] = u
    napply = nconc = nproc = 0
    for s, u in zip(scs, units):
        per = concurrency(u)
        for k, size in enumerate(s[3], start=1):
            nt = len(per.get(k, ()))
            napply += 1
            nconc += nt >= 2
            ctx.count([s[0], s[1], s[2], size, k], nontrivial=nt >= 2)
        nproc += sum(1 for r in u if r.get("e") == "proc")
    for s, u in list(zip(scs, units))[:3]:
        ctx.sample({"mode": s[0], "threads": s[1], "variant": VARIANTS[s[2]], "sizes": s[3],
                    "threads_that_worked_per_apply": {str(k): len(v) for k, v in concurrency(u).items()}})
    ctx.cov["parmap_objects"] = len(scs)
    ctx.cov["applies"] = napply
    ctx.cov["applies_with_2plus_working_threads"] = nconc
    ctx.cov["elements_processed"] = nproc
    rej = L.validate_units(ctx, "Parmap_trace.tla", units, "pt", chunk_lines=30000)
    for x in rej:
        s = scs[x["unit"]]
        again = None
        for attempt in range(3):           # same scenario, alone; the schedule of the threads is not ours to repeat
            u2 = run_driver(ctx, "re_%d_%d" % (x["unit"], attempt), [s], timeout=300, watchdog=60)
            r2 = L.validate_units(ctx, "Parmap_trace.tla", u2, "re%d_%d" % (x["unit"], attempt))
            if r2:
                again = (u2[0], r2[0])
                break
        if again is None:
            ctx.cov["unconfirmed_rejections"] = ctx.cov.get("unconfirmed_rejections", 0) + 1
            continue
        u2, r2 = again
        ctx.violation("log of the real Parmap (%s, %d threads, %s function, sizes %s) is not a behaviour of ParmapAbs: record "
                      "%s: %s" % (s[0], s[1], VARIANTS[s[2]], s[3], json.dumps(r2["record"]), r2["reason"]),
                      files={"scenario.txt": "P %s %d %d %s\n" % (s[0], s[1], s[2], " ".join(map(str, s[3]))),
                             "trace.ndjson": "\n".join(json.dumps(r) for r in u2) + "\n",
                             "first_trace.ndjson": "\n".join(json.dumps(r) for r in units[x["unit"]]) + "\n",
                             "howto.txt": ".build/harness/parmap_driver scenario.txt out.ndjson; TRACE=out.ndjson tlc "
                                          "spec/lib/Parmap_trace.tla -workers 1\n"},
                      signature="C49:%s:%d:%s" % (s[0], s[1], VARIANTS[s[2]]),
                      detail="first unconsumed record #%d of the re-run; first run: record #%d %s\n%s" %
                             (r2["line"], x["line"], json.dumps(x["record"]), r2["tlc_tail"]))


def run(ctx):
    ctx.cov["rule"] = ("cases = one apply() of the real Parmap, identified by (mode, threads, function variant, vector size, "
                       "rank of the apply on its object); objects = 3 modes x 1..16 threads x variants drawn from "
                       "VERIF_SEED (thorough: every size 0..500 for every mode and 1, 2, 3, 4, 8, 16 threads); non-trivial = at least two "
                       "threads processed elements in that apply; M = every interleaving of Parmap.tla for <= 4 threads "
                       "x <= 4 elements x 3 applies")
    run_mc(ctx)
    run_traces(ctx)
    ctx.assumptions += [
        "Parmap.tla assumes sequentially consistent atomics and models futex / mutex / condition variable by their "
        "documented semantics; TLC explores the specification, the binding to the code is the validated logs",
        "liveness needs strong fairness of mutex acquisition in posix mode (weak fairness elsewhere)",
        "the merged log is ordered by a global atomic counter read inside fun(): a linearisation of the calls",
        "the scheduling of the real threads is the operating system's: the runs sample interleavings, TLC enumerates them "
        "only for the specification"]
