"""C50 Legacy xbt containers behave like their models: xbt_dynar = finite sequence (spec/lib/Dynar.tla), xbt_dict =
finite function from keys to values (spec/lib/Dict.tla).

G: TLC generates operation sequences from the two specifications (BFS = *every* sequence of the small scope;
-simulate = seeded random sequences up to 200 operations, plus a family that drives the dict through its rehash
threshold) together with the expected return value, visited elements and full content after each step; the driver
harness/c50drv.cpp replays them on real xbt_dynar_t / xbt_dict_t objects; Python only compares, step by step.

Mutation evidence (tools/mutbuild.sh lib, quick tier):
  caught  xbt_dynar_insert_at_ptr shifts one element too few        -> content after insert_at / unshift
  caught  xbt_dynar_remove_at moves one element too few             -> content after remove_at / shift
  caught  xbt_dict_remove_ext does not decrement the count          -> length after remove
  caught  xbt_dict_rehash leaves some buckets in the wrong half      -> content after the bulk insertion that crosses the threshold
"""
import json, os
import vlib
import lib_common as L

LEVEL = "model_checking"
META = {"text": "spec/lib/Dynar.tla (finite sequence: push, pop, shift, unshift, insert_at, remove_at, get, set, sort, member, foreach, map, length, is_empty, reset) and spec/lib/Dict.tla (finite function: set, get_or_null, get_elm_or_null, remove, length, is_empty, cursor traversal, bulk insertion/removal) are the models; TLC generates every 3-step operation sequence of the small scope (2-3 values, 3 keys; 4 steps on 2 keys in the thorough tier) and seeded random sequences of 200 / 60 / 14 steps (one family crosses the dict's rehash threshold) with the expected return value, traversal and full content after each step; the driver replays them on real xbt_dynar_t (elements of 4 and 24 bytes) and xbt_dict_t objects and every step is compared. Traversal order of the dict is left open (each key exactly once).",
        "note": "Trusted: TLC, the driver's rendering of key identifiers as strings (three naming schemes; the default string hash is a sum of squares, so anagram keys share hash codes). Containers of pointers with free functions, operations outside their preconditions and xbt_dict_cursor_* used by hand are not exercised.",
        "technique": "TLC-generated behaviours (BFS + -simulate) replayed into the real containers (G)"}
DRIVERS = {"c50drv": L.DRIVERS["c50drv"]}

DYN_MUTATING = {"push", "pop", "unshift", "shift", "insert_at", "remove_at", "set", "sort", "map", "reset"}


def _write_cases(path, kind, seqs, params):
    with open(path, "w") as f:
        for i, h in enumerate(seqs):
            f.write("%s %d\n" % (kind, params[i]))
            for e in h:
                c = e.get("c", 0)
                f.write("%s %d %d %d\n" % (e["op"], e.get("a", 0), e.get("b", 0), c if isinstance(c, int) else 0))


def _replay(ctx, tag, kind, seqs, params):
    """Replay sequences; returns dict (seq, step) -> parsed output line."""
    res = {}
    if not seqs:
        return res
    chunks = []
    n = max(1, (len(seqs) + vlib.NCPU - 1) // vlib.NCPU)
    for c in range(0, len(seqs), n):
        chunks.append((c, seqs[c:c + n], params[c:c + n]))

    def one(ch):
        base, ss, pp = ch
        p = os.path.join(ctx.scratch, "%s_%d.txt" % (tag, base))
        _write_cases(p, kind, ss, pp)
        rc, out, err = L.run_driver("c50drv", [p], timeout=600)
        got = {}
        if " T255 " in out or " T511 " in out:
            ctx.cov["dict_runs_with_rehash"] = ctx.cov.get("dict_runs_with_rehash", 0) + 1
        for line in out.splitlines():
            try:
                head, rs, content = line.split("|")
                s, st, ret, err_ = [int(x) for x in head.split()]
                rs = rs.split()
                content = content.split()
                got[(base + s, st)] = {"ret": ret, "err": err_ % 10, "corrupt": err_ // 10,
                                       "rs": [int(x) for x in rs[1:]], "content": content}
            except ValueError:
                got[("garbled", line[:80])] = None
        return rc, got, err[-500:]

    for rc, got, err in vlib.parallel_map(one, chunks):
        res.update(got)
        if rc != 0:
            res.setdefault("crashes", []).append((rc, err))
    return res


def _dyn_mismatch(e, g):
    if g is None:
        return "no output for this step (driver aborted?)"
    if g["err"] or g["corrupt"]:
        return "error/corruption flag %s" % g
    if g["ret"] != e["ret"]:
        return "returned %d, model says %d" % (g["ret"], e["ret"])
    if e["op"] == "foreach" and g["rs"] != e["rs"]:
        return "traversal visited %s, model says %s" % (g["rs"], e["rs"])
    c = g["content"]
    if "CORRUPT" in c:
        return "element bytes corrupted: %s" % c
    if [int(x) for x in c[1:]] != e["c"] or int(c[0]) != len(e["c"]):
        return "content %s, model says %s" % (c[1:], e["c"])
    return None


def _dict_mismatch(e, g):
    if g is None:
        return "no output for this step (driver aborted?)"
    if g["corrupt"]:
        return "corruption flag (size/length disagree or foreign key)"
    if g["err"] != e["err"]:
        return "error status %d, model says %d" % (g["err"], e["err"])
    if g["ret"] != e["ret"]:
        return "returned %d, model says %d" % (g["ret"], e["ret"])
    exp = [list(x) for x in e["content"]]
    if e["op"] == "foreach":
        pairs = [[g["rs"][i], g["rs"][i + 1]] for i in range(0, len(g["rs"]) - 1, 2)]
        if sorted(pairs) != exp:      # each key exactly once with its value; the order is left open
            return "cursor yielded %s, model says the set %s" % (pairs, exp)
    c = g["content"]
    n = int(c[0])
    pairs = [[int(c[1 + 2 * i]), int(c[2 + 2 * i])] for i in range(n)]
    if pairs != exp:
        return "content %s, model says %s" % (pairs, exp)
    if c[-1] != "L%d" % len(exp):
        return "length %s, model says %d" % (c[-1], len(exp))
    return None


def _compare(ctx, tag, kind, seqs, params, mismatch):
    got = _replay(ctx, tag, kind, seqs, params)
    bad = []
    for i, h in enumerate(seqs):
        for j, e in enumerate(h):
            m = mismatch(e, got.get((i, j + 1)))
            if m:
                bad.append((i, j + 1, m))
                break
    # a rejection is reported only if replaying the same sequence alone rejects again
    reported = 0
    for i, j, m in bad:
        if reported >= 5:
            break
        g2 = _replay(ctx, tag + "_re%d" % i, kind, [seqs[i]], [params[i]])
        m2 = None
        for jj, e in enumerate(seqs[i]):
            m2 = mismatch(e, g2.get((0, jj + 1)))
            if m2:
                j = jj + 1
                break
        if not m2:
            ctx.cov["unconfirmed_rejections"] = ctx.cov.get("unconfirmed_rejections", 0) + 1
            continue
        reported += 1
        ops = [[e["op"], e.get("a", 0), e.get("b", 0)] for e in seqs[i][:j]]
        cases = os.path.join(ctx.scratch, "%s_bad%d.txt" % (tag, i))
        _write_cases(cases, kind, [seqs[i][:j]], [params[i]])
        ctx.violation("%s: step %d (%s) of a generated sequence: %s" % ("xbt_dynar" if kind == "D" else "xbt_dict", j,
                                                                         seqs[i][j - 1]["op"], m2),
                      files={"cases.txt": cases, "expected.json": json.dumps(seqs[i][:j], indent=1),
                             "howto.txt": ".build/harness/c50drv cases.txt   # compare with expected.json (spec/lib/%s.tla)\n" %
                                          ("Dynar" if kind == "D" else "Dict")},
                      signature="C50:%s:%s" % (kind, seqs[i][j - 1]["op"]), detail=json.dumps(ops))
    return len(bad)


def run(ctx):
    q = ctx.quick
    nw = 4
    # ------------------------------------------------------------------ dynar
    r, ex = L.generate(ctx, "Dynar.tla", "dyn_bfs", {"MaxSteps": 3, "Vals": [1, 2] if q else [1, 2, 3], "MaxLen": 6, "Wide": True},
                       "bfs", timeout=1500)
    ctx.cov["dynar_exhaustive"] = {"steps": 3, "values": 2 if q else 3, "sequences": len(ex), "states": r.distinct}
    sim = []
    for k, (steps, vals, maxlen, num) in enumerate([(200, range(10), 60, 2 if q else 40), (60, range(4), 12, 4 if q else 40)]):
        r, s = L.generate(ctx, "Dynar.tla", "dyn_sim%d" % k, {"MaxSteps": steps, "Vals": list(vals), "MaxLen": maxlen, "Wide": False},
                          "sim", num=num, depth=steps + 5, seed=ctx.seed * 7 + k + 1, workers=nw, timeout=1500)
        sim += s
    ctx.cov["dynar_random_sequences"] = len(sim)
    dyn = ex + sim
    params = [4 if i % 2 == 0 else 24 for i in range(len(dyn))]
    for h in dyn:
        ops = [(e["op"], e["a"], e["b"]) for e in h]
        ctx.count(["dynar", ops], nontrivial=sum(1 for e in h if e["op"] in DYN_MUTATING) >= 2)
    ctx.sample({"dynar": [[e["op"], e["a"], e["b"], e["ret"], e["c"]] for e in sim[0][:12]]})
    nbad = _compare(ctx, "dyn", "D", dyn, params, _dyn_mismatch)

    # ------------------------------------------------------------------ dict
    r, ex = L.generate(ctx, "Dict.tla", "dict_bfs", {"MaxSteps": 3, "Keys": [0, 1, 2], "Vals": [1, 2], "BulkMax": 0,
                                                    "Wide": True}, "bfs", timeout=1500)
    ctx.cov["dict_exhaustive"] = {"steps": 3, "keys": 3, "sequences": len(ex), "states": r.distinct}
    if not q:        # one more step on two keys
        r, ex4 = L.generate(ctx, "Dict.tla", "dict_bfs4", {"MaxSteps": 4, "Keys": [0, 1], "Vals": [1, 2], "BulkMax": 0,
                                                           "Wide": True}, "bfs", timeout=1500)
        ctx.cov["dict_exhaustive_4_steps_2_keys"] = len(ex4)
        ex = ex + ex4
    r, s1 = L.generate(ctx, "Dict.tla", "dict_sim", {"MaxSteps": 200, "Keys": list(range(16)), "Vals": [1, 2, 3, 4, 5], "BulkMax": 0,
                                                    "Wide": False}, "sim", num=1 if q else 30, depth=205, seed=ctx.seed * 7 + 3,
                      workers=nw, timeout=1500)
    r, s2 = L.generate(ctx, "Dict.tla", "dict_rehash", {"MaxSteps": 14, "Keys": list(range(6)), "Vals": [1, 2, 3], "BulkMax": 300,
                                                       "Wide": False}, "sim", num=8 if q else 24, depth=20, seed=ctx.seed * 7 + 4,
                      workers=nw, timeout=1500)
    ctx.cov["dict_random_sequences"] = len(s1) + len(s2)
    dct = ex + s1 + s2
    params = [3] * len(ex) + [16] * len(s1) + [6 + 1 + 100 + 300] * len(s2)
    for h in dct:
        ops = [(e["op"], e["a"], e["b"], e["c"]) for e in h]
        ctx.count(["dict", ops], nontrivial=sum(1 for e in h if e["op"] in ("set", "remove", "bulk", "rmrange")) >= 2)
    ctx.sample({"dict": [[e["op"], e["a"], e["b"], e["ret"], e["err"], e["content"]] for e in s1[0][:12]]})
    nbad += _compare(ctx, "dict", "H", dct, params, _dict_mismatch)

    ctx.cov["exhaustive"] = True
    ctx.cov["traces_validated_against_impl"] = len(dyn) + len(dct)
    ctx.cov["rule"] = ("operation sequences are behaviours of Dynar.tla / Dict.tla generated by TLC: BFS enumerates every "
                       "sequence of the small scope (%d steps; 2-3 values; 3 keys), -simulate (seed = f(VERIF_SEED)) draws "
                       "sequences of 200/60/14 steps; each sequence is replayed on the real container and every step is "
                       "compared (return value, traversal, full content); non-trivial = at least two mutating operations; "
                       "distinct by hash of the operation list" % 3)
    ctx.assumptions += ["dynar elements are scalars of 4 and 24 bytes (memcpy/memmove paths); containers of pointers with "
                        "free functions are not exercised",
                        "operations outside their documented preconditions (xbt_assert) are not generated",
                        "dict keys are rendered by the driver from key identifiers (three naming schemes); the order of "
                        "xbt_dict_foreach is left open, each key must appear exactly once with its current value"]
