"""Driver registry. Each check module may define DRIVERS = {name: (sources, kind, extra_flags)}; sources are relative
to /verif/harness; kind is s4u | smpi | c-smpi | plain (see vlib.build_driver). `vcheck setup` builds them all."""
import glob, importlib, os
import vlib

DRIVERS = {
    "kdrv": (["kdrv.cpp"], "s4u", []),
}
_built = {}


def register(table):
    DRIVERS.update(table)


def get(name):
    """Path of the driver binary, (re)built at most once per process."""
    if name not in _built:
        src, kind, extra = DRIVERS[name]
        _built[name] = vlib.build_driver(name, src, kind, extra)
    return _built[name]


def build_all():
    for f in sorted(glob.glob(os.path.join(vlib.VERIF, "checks", "*.py"))):
        mod = os.path.basename(f)[:-3]
        if mod in ("drivers",):
            continue
        try:
            m = importlib.import_module(mod)
        except Exception as e:  # a broken module must not break setup of the others
            print("setup: cannot import %s: %s" % (mod, e))
            continue
        if hasattr(m, "DRIVERS"):
            register(m.DRIVERS)
    for n in sorted(DRIVERS):
        get(n)
        print("driver", n, "ok")
