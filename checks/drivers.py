"""Driver registry: name -> (sources, kind, extra flags). build_all() is used by `vcheck setup`."""
import vlib

DRIVERS = {
    "kdrv": (["kdrv.cpp"], "s4u", []),
}


_built = {}


def get(name):
    """Path of the driver binary, (re)built at most once per process."""
    if name not in _built:
        src, kind, extra = DRIVERS[name]
        _built[name] = vlib.build_driver(name, src, kind, extra)
    return _built[name]


def build_all():
    for n in DRIVERS:
        get(n)
        print("driver", n, "ok")
