"""Driver registry: name -> (sources, kind, extra flags). build_all() is used by `vcheck setup`."""
import vlib

DRIVERS = {
    "kdrv": (["kdrv.cpp"], "s4u", []),
}


def get(name):
    src, kind, extra = DRIVERS[name]
    return vlib.build_driver(name, src, kind, extra)


def build_all():
    for n in DRIVERS:
        get(n)
        print("driver", n, "ok")
