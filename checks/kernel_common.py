"""Shared code of the kernel-level checks (C03-C14, C01, C02): program representation, generators, the runner of the
real kernel (driver kdrv + hook H1), TLC exploration of SgKernel (M) and TLC trace validation (T)."""
import itertools, json, os, random
import vlib, drivers

KSPEC = os.path.join(vlib.SPEC, "kernel")


def op(name, o=0, p=0, t=0):
    return {"op": name, "o": o, "p": p, "t": t}


def new_prog(rec=(), cap=(), ncv=0, bar=(), actors=(), hosts=0, perm=(), nmq=0, timed=True, spawn=None, gran="run", lat=0):
    """perm[b] = permanent receiver (actor number, 0 = none) of mailbox b+1; timed = exact durations (one host per actor,
    dedicated FATPIPE link, 1 byte = 1 tick, 1 exec unit = 1 tick)."""
    return {"rec": list(rec), "cap": list(cap), "ncv": ncv, "bar": list(bar), "hosts": hosts or max(1, len(actors)),
            "perm": list(perm), "nmq": nmq, "timed": bool(timed), "actors": [list(a) for a in actors],
            "spawn": [bool(x) for x in spawn] if spawn is not None else [False] * len(actors), "gran": gran,
            "lat": lat}      # latency of the link in ticks (timed platform): a communication lasts lat + size


TIMED_CFG = ["--cfg=network/model:CM02", "--cfg=network/crosstraffic:0"]


def prog_to_txt(p, tick_exp=10):
    out = ["@tick %d" % tick_exp, "@hosts %d" % p.get("hosts", 1)]
    out += ["@mutex %d" % (1 if r else 0) for r in p["rec"]]
    out += ["@sem %d" % c for c in p["cap"]]
    out += ["@cv"] * p["ncv"]
    out += ["@bar %d" % b for b in p["bar"]]
    out += ["@mbox %d" % r for r in p.get("perm", [])]
    out += ["@mq"] * p.get("nmq", 0)
    out += ["@timed %d" % (1 if p.get("timed", True) else 0), "@lat %d" % p.get("lat", 0)]
    for i, a in enumerate(p["actors"]):
        out.append("@actor %d %d" % (i % max(1, p.get("hosts", 1)), 1 if p.get("spawn", [False] * 99)[i] else 0))
        for o in a:
            out.append("%s %d %d %d" % (o["op"], o["o"], o["p"], o["t"]))
    out.append("@end")
    return "\n".join(out) + "\n"


def prog_brief(p):
    def f(o):
        s = o["op"] + (str(o["o"]) if o["o"] else "")
        if o["op"] in ("cvwait", "cvwaitfor"):
            s += "/m%d" % o["p"]
        if o["op"] == "trylock" and o["p"]:
            s += "?"
        if o["op"] in ("sendt", "recvf"):
            s += "#%d" % o["p"]
        if o["op"] in ("acqt", "cvwaitfor", "sleep", "put", "puta", "putd", "exec", "execa", "waitfor", "join", "killtime", "sendt"):
            s += "@%d" % o["t"]
        return s
    return {"rec": p["rec"], "cap": p["cap"], "ncv": p["ncv"], "bar": p["bar"], "perm": p.get("perm", []),
            "nmq": p.get("nmq", 0), "timed": p.get("timed", True), "actors": [" ".join(f(o) for o in a) for a in p["actors"]]}


def shared_objects(p):
    """non-trivial = at least two actors touch a common object"""
    seen = {}
    for i, a in enumerate(p["actors"]):
        for o in a:
            kind = {"lock": "m", "trylock": "m", "unlock": "m", "acq": "s", "acqt": "s", "rel": "s", "cvwait": "c",
                    "cvwaitfor": "c", "sig": "c", "bcast": "c", "bar": "b", "put": "x", "puta": "x", "putd": "x",
                    "get": "x", "geta": "x", "sendt": "x", "recvf": "x", "mput": "q", "mputa": "q", "mget": "q", "mgeta": "q"}.get(o["op"])
            if kind:
                seen.setdefault((kind, o["o"]), set()).add(i)
                if kind == "c":
                    seen.setdefault(("m", o["p"]), set()).add(i)
    return any(len(v) >= 2 for v in seen.values())


# ------------------------------------------------------------------------------------------- generators

def gen_sync_prog(rng, focus="all", max_actors=4, max_ops=6, illformed=0.03):
    """Random, mostly well-formed synchronisation program. focus in mutex|sem|cv|bar|all."""
    na = rng.randint(2, max_actors)
    nm = rng.randint(1, 3) if focus in ("mutex", "all") else (rng.randint(1, 2) if focus == "cv" else 0)
    ns = rng.randint(1, 3) if focus in ("sem", "all") else 0
    nc = rng.randint(1, 2) if focus in ("cv", "all") else 0
    if nc and nm < nc:
        nm = nc
    nb = rng.randint(1, 2) if focus in ("bar", "all") else 0
    rec = [rng.random() < 0.5 for _ in range(nm)]
    cap = [rng.choice([0, 0, 1, 1, 2, 3]) for _ in range(ns)]
    bar = [rng.randint(1, min(na, 4)) for _ in range(nb)]
    cvm = [i + 1 for i in range(nc)]  # cv c is used with mutex c (one mutex per condition variable)
    actors = []
    for a in range(na):
        held = [0] * nm
        ops = []
        n = rng.randint(1, max_ops)
        while len(ops) < n:
            kinds = []
            if nm:
                kinds += ["lock", "trylock", "unlock", "unlock"]
            if ns:
                kinds += ["acq", "acqt", "rel", "rel"]
            if nc:
                kinds += ["cvwait", "cvwaitfor", "sig", "bcast"]
            if nb:
                kinds += ["bar"]
            kinds += ["sleep"]
            k = rng.choice(kinds)
            bad = rng.random() < illformed
            if k == "lock":
                m = rng.randrange(nm)
                if held[m] and not rec[m] and not bad:
                    continue
                ops.append(op("lock", m + 1))
                held[m] += 1
            elif k == "trylock":
                m = rng.randrange(nm)
                # "trylock?": when it fails the next operation (the matching unlock) is skipped
                ops.append(op("trylock", m + 1, 1))
                ops.append(op("unlock", m + 1))
            elif k == "unlock":
                cand = [m for m in range(nm) if held[m] > 0]
                if cand and not bad:
                    m = rng.choice(cand)
                    held[m] -= 1
                    ops.append(op("unlock", m + 1))
                elif bad and nm:
                    ops.append(op("unlock", rng.randrange(nm) + 1))
            elif k == "acq":
                ops.append(op("acq", rng.randrange(ns) + 1))
            elif k == "acqt":
                ops.append(op("acqt", rng.randrange(ns) + 1, 0, rng.choice([0, 1, 1, 2, 3, 4])))
            elif k == "rel":
                ops.append(op("rel", rng.randrange(ns) + 1))
            elif k in ("cvwait", "cvwaitfor"):
                c = rng.randrange(nc)
                m = cvm[c] - 1
                pre = []
                if held[m] == 0 and not bad:
                    pre = [op("lock", m + 1)]
                    held[m] += 1
                if held[m] > 1 and not bad:
                    continue
                ops += pre
                if k == "cvwait":
                    ops.append(op("cvwait", c + 1, m + 1))
                else:
                    ops.append(op("cvwaitfor", c + 1, m + 1, rng.choice([0, 1, 2, 2, 3, 4])))
                if rng.random() < 0.7 and held[m] > 0:
                    ops.append(op("unlock", m + 1))
                    held[m] -= 1
            elif k in ("sig", "bcast"):
                c = rng.randrange(nc)
                m = cvm[c] - 1
                if rng.random() < 0.6 and held[m] == 0:
                    ops += [op("lock", m + 1), op(k, c + 1), op("unlock", m + 1)]
                else:
                    ops.append(op(k, c + 1))
            elif k == "bar":
                ops.append(op("bar", rng.randrange(nb) + 1))
            elif k == "sleep":
                ops.append(op("sleep", 0, 0, rng.choice([1, 1, 2, 3, 4])))
        # release what is still held, most of the time
        for m in range(nm):
            while held[m] > 0 and rng.random() < 0.8:
                ops.append(op("unlock", m + 1))
                held[m] -= 1
        actors.append(ops)
    return new_prog(rec, cap, nc, bar, actors)


def enum_small(alphabet, nactors, nops, **objs):
    """All programs with `nactors` actors of exactly `nops` operations over the given alphabet of ops."""
    seqs = list(itertools.product(alphabet, repeat=nops))
    for combo in itertools.product(seqs, repeat=nactors):
        yield new_prog(actors=[list(c) for c in combo], **objs)


# ------------------------------------------------------------------------------------------- running the real kernel

def run_kdrv(ctx, idx, prog, cfg=(), timeout=120, env=None, wrapper=()):
    """Run program `prog` on the real kernel; returns the list of trace records (dicts). A missing `end` line is
    turned into end(hang) / end(crash:<rc>)."""
    drv = drivers.get("kdrv")
    d = os.path.join(ctx.scratch, "k%d_%d" % (os.getpid(), idx))
    os.makedirs(d, exist_ok=True)
    ptxt = os.path.join(d, "p.txt")
    open(ptxt, "w").write(prog_to_txt(prog))
    tr = os.path.join(d, "t.ndjson")
    if os.path.exists(tr):
        os.unlink(tr)
    e = vlib.sg_env({"VERIF_KTRACE": tr})
    if env:
        e.update(env)
    rc, out, err = vlib.sh(list(wrapper) + [drv, ptxt, "--log=root.thres:critical", "--cfg=debug/stacktrace:none"] +
                           (TIMED_CFG if prog.get("timed", True) else []) + list(cfg), timeout=timeout, env=e)
    recs = []
    if os.path.exists(tr):
        for line in open(tr):
            line = line.strip()
            if line:
                try:
                    recs.append(json.loads(line))
                except ValueError:
                    recs.append({"e": "garbled", "raw": line[:200]})
    # actors are identified by their program index: rewrite the pids of the kernel-side lines (hook H1) and drop "born"
    pidmap = {r["pid"]: r["a"] for r in recs if r.get("e") == "born"}
    out_recs = []
    for r in recs:
        if r.get("e") == "born":
            continue
        if r.get("e") in ("handle", "answer"):
            r = dict(r, a=pidmap.get(r["a"], -r["a"]))
        out_recs.append(r)
    recs = out_recs
    if not any(r.get("e") == "end" for r in recs):
        recs.append({"e": "end", "how": "hang" if rc == 124 else "crash", "rc": rc})
    return recs


def run_many(ctx, progs, cfg=(), timeout=60, env=None, wrapper=()):
    drivers.get("kdrv")
    res = vlib.parallel_map(lambda ip: run_kdrv(ctx, ip[0], ip[1], cfg, timeout, env, wrapper), list(enumerate(progs)))
    # a run killed by the wall-clock limit on a busy machine is run again, alone, with a generous limit: only a run that
    # hangs twice is kept as a hang (the specification never accepts it)
    for i, t in enumerate(res):
        if t and t[-1].get("e") == "end" and t[-1].get("how") in ("hang", "crash"):
            res[i] = run_kdrv(ctx, 500000 + i, progs[i], cfg, 300, env, wrapper)
    return res


# ------------------------------------------------------------------------------------------- TLC: exploration (M)

def write_progs(path, progs):
    json.dump(progs, open(path, "w"))


def mc_explore(ctx, progs, timeout=900, tag="mc", workers=None, coverage=False):
    """Exhaustive exploration of SgKernel over all programs; returns (TlcResult, outcomes: list of list-of-dict)."""
    pf = os.path.join(ctx.scratch, tag + "_progs.json")
    write_progs(pf, progs)
    r = vlib.tlc(os.path.join(KSPEC, "SgKernelMC.tla"), env={"PROGS": pf}, timeout=timeout, workers=workers,
                 coverage=coverage)
    outs = [[] for _ in progs]
    seen = [set() for _ in progs]
    for line in r.prints:
        if line.startswith('<<"OUT"'):
            try:
                v = vlib.parse_tla_value(line)
                o = json.loads(v[2])
            except Exception:
                continue
            key = json.dumps(o, sort_keys=True)
            if key not in seen[v[1] - 1]:
                seen[v[1] - 1].add(key)
                outs[v[1] - 1].append(o)
    return r, outs


# ------------------------------------------------------------------------------------------- TLC: trace validation (T)

def _batch_file(path, runs, eof=False):
    """runs: list of (pid1based, records). Writes the ndjson batch; returns line ranges per run."""
    ranges = []
    n = 0
    with open(path, "w") as f:
        for j, (pid, recs) in enumerate(runs):
            start = n + 1
            f.write(json.dumps({"e": "reset", "pid": pid, "run": j + 1}) + "\n")
            n += 1
            for r in recs:
                if r.get("e") == "xend":
                    r = dict(r, run=j + 1)       # the outcome printed by TXEnd is attributed to this execution
                f.write(json.dumps(r) + "\n")
                n += 1
            ranges.append((start, n))
        if eof:
            f.write(json.dumps({"e": "eof"}) + "\n")
    return ranges


def streams(recs, nactors):
    """Projection of a trace on its streams (maestro lines; per-actor lines), for SgKernelTraceEq."""
    m, a = [], [[] for _ in range(nactors)]
    for r in recs:
        if r.get("e") in ("issue", "ret", "killed", "onexit") and 1 <= r.get("a", 0) <= nactors:
            a[r["a"] - 1].append(r)
        else:
            m.append(r)
    return {"m": m, "a": a}


def validate_traces(ctx, progs, traces, tag="tv", timeout=1200, spec="SgKernelTrace.tla", chunk=400, max_rej=10,
                    refs=None, outcomes=None):
    """... outcomes: optional list; receives (index of the trace in `traces`, still_enabled: bool, outcome dict) for every
    execution closed by an xend line (executions explored by simgrid-mc)."""
    """traces[i] = records of the run of progs[i] (or list of (prog index, records)). Returns a list of rejections
    {run, prog, line, record, reason, tlc}. A rejected run is removed and the rest of its batch re-validated, so every
    run is examined."""
    if traces and not isinstance(traces[0], tuple):
        traces = list(enumerate(traces))
    if refs is not None:   # refs[j] = reference trace (records) of traces[j]; carried along as a third component
        traces = [(pi, recs, ref) for (pi, recs), ref in zip(traces, refs)]
    else:
        traces = [(pi, recs, None) for (pi, recs) in traces]
    traces = [t + (k,) for k, t in enumerate(traces)]     # fourth component: index in the caller's list
    pf = os.path.join(ctx.scratch, tag + "_progs.json")
    write_progs(pf, progs)
    rejections = []
    accepted = 0
    chunks = [traces[i:i + chunk] for i in range(0, len(traces), chunk)]

    def do_chunk(ci_chunk):
        ci, ch = ci_chunk
        rej = []
        acc = 0
        todo = list(ch)
        rounds = 0
        stats = [0, 0]
        while todo and len(rej) < max_rej:
            rounds += 1
            tf = os.path.join(ctx.scratch, "%s_%d_%d.ndjson" % (tag, ci, rounds))
            ranges = _batch_file(tf, [(t[0] + 1, t[1]) for t in todo], eof=refs is not None)
            env = {"PROGS": pf, "TRACE": tf}
            if refs is not None:
                rf = tf + ".ref.json"
                json.dump([streams(t[2], len(progs[t[0]]["actors"])) for t in todo], open(rf, "w"))
                env["REF"] = rf
            r = vlib.tlc(os.path.join(KSPEC, spec), env=env, timeout=timeout, workers=1)
            stats[0] += r.distinct
            stats[1] += r.generated
            if outcomes is not None:
                for line in r.prints:
                    if line.startswith('<<"TOUT"'):
                        try:
                            v = vlib.parse_tla_value(line)
                            outcomes.append((todo[v[1] - 1][3], bool(v[2]), json.loads(v[3])))
                        except Exception:
                            pass
            if r.status in ("parse", "eval", "timeout", "error", "assumption", "deadlock", "property"):
                raise vlib.InfraError("trace validation failed to run: %s\n%s" % (r.status, r.what[-3000:]))
            prog_line = None
            total = None
            for line in r.prints:
                if line.startswith('<<"PROGRESS"'):
                    v = vlib.parse_tla_value(line)
                    prog_line, total = v[1], v[2]
            if r.status == "ok" and prog_line is not None and prog_line == total + 1:
                os.unlink(tf)
                acc += len(todo)
                break
            if r.status == "ok" and prog_line is None:
                raise vlib.InfraError("trace validation: no PROGRESS line\n" + r.out[-2000:])
            # rejected: prog_line = first line that no behaviour of the specification consumes
            reason = "no behaviour of the specification consumes this line"
            if r.status == "invariant":
                reason = "invariant %s violated in the state reached by the recorded execution" % r.what
            if prog_line is None:
                # invariant violation: TLC prints the trace; take the highest l in the printed states
                import re
                ls = [int(x) for x in re.findall(r"/\\ l = (\d+)", r.out)]
                prog_line = max(ls) if ls else 1
            bad = None
            for j, (s, e) in enumerate(ranges):
                if s <= prog_line <= e:
                    bad = j
            if bad is None:
                bad = len(ranges) - 1
            if prog_line == ranges[bad][0] and bad > 0 and refs is not None:
                bad -= 1   # stuck on the reset line of the next execution: this one ended before its reference did
                reason = "the execution stops before its reference execution does"
            pi, recs = todo[bad][0], todo[bad][1]
            off = prog_line - ranges[bad][0]  # index into recs of the first unconsumed record (+1 for reset)
            rej.append({"prog": pi, "index": todo[bad][3], "line": off, "record": recs[off - 1] if 0 < off <= len(recs) else None,
                        "reason": reason, "tlc_tail": r.out[-1500:] if r.status == "invariant" else ""})
            acc += bad
            todo = todo[bad + 1:]
        return rej, acc, stats

    results = vlib.parallel_map(do_chunk, list(enumerate(chunks)), nproc=min(8, vlib.NCPU))
    for rej, acc, stats in results:
        rejections += rej
        accepted += acc
        ctx.cov["states"] += stats[0]
        ctx.cov["transitions"] += stats[1]
    ctx.cov["traces_validated_against_impl"] += accepted + len(rejections)
    return rejections


def impl_outcome(prog, recs):
    """Outcome of a real run in the same shape as SgKernel!Outcome (obs per actor, end kind)."""
    na = len(prog["actors"])
    obs = [[] for _ in range(na)]
    ov = [[] for _ in range(na)]
    end = None
    for r in recs:
        if r.get("e") == "ret" and 1 <= r["a"] <= na:
            a = r["a"] - 1
            o = prog["actors"][a][r["k"] - 1]
            obs[a].append(r["res"])
            ov[a].append(r.get("val", 0))
            if o["op"] == "trylock" and o["p"] == 1 and r["res"] == "false" and r["k"] < len(prog["actors"][a]):
                obs[a].append("skip")
                ov[a].append(0)
        elif r.get("e") == "end" and end is None:
            # an xbt_assert of an ill-formed program may die on a signal while formatting its message (e.g. the owner of a free
            # mutex is dereferenced by the message of "Cannot wait on a condvar with a mutex owned by another actor"): same
            # outcome as the abort the semantics predicts, as in the trace specification (TEnd)
            end = "abort" if r["how"] == "signal" else r["how"]
    return {"obs": obs, "ov": ov, "end": end}


# ------------------------------------------------------------------------------------------- more generators

def gen_comm_prog(rng, max_actors=5, max_ops=6, timed=None, mess=False):
    """Mailbox (or message-queue) program: blocking / asynchronous / detached sends, blocking / asynchronous receives,
    wait / test on handles, permanent receivers; mostly balanced so that most programs terminate."""
    na = rng.randint(2, max_actors)
    nb = rng.randint(1, 3)
    if timed is None:
        timed = rng.random() < 0.75
    perm = [0] * nb
    if not mess:
        for b in range(nb):
            if rng.random() < 0.3:
                perm[b] = rng.randint(1, na)
    actors = [[] for _ in range(na)]
    nh = [0] * na   # handles created so far
    pending = [[] for _ in range(na)]  # handles not yet waited
    budget = rng.randint(2, max_ops * na // 2 + 1)
    P, PA, PD, G, GA = ("mput", "mputa", None, "mget", "mgeta") if mess else ("put", "puta", "putd", "get", "geta")
    for _ in range(budget):
        b = rng.randrange(nb)
        s = rng.randrange(na)
        r = perm[b] - 1 if perm[b] else rng.randrange(na)
        if s == r:
            s = (s + 1) % na
        sz = rng.choice([1, 2, 3, 5, 8]) if timed else rng.choice([1, 100, 5000, 70000])
        if timed and rng.random() < 0.3:
            actors[rng.choice([s, r])].append(op("sleep", 0, 0, rng.choice([1, 2, 3])))
        ks = rng.choice([P, P, PA, PA] + ([PD] if PD else []))
        if len(actors[s]) < max_ops + 2:
            actors[s].append(op(ks, b + 1, 0, 0 if mess else sz))
            if ks == PA:
                nh[s] += 1
                pending[s].append(nh[s])
        if rng.random() < 0.9 and len(actors[r]) < max_ops + 2:
            kr = rng.choice([G, G, GA])
            actors[r].append(op(kr, b + 1))
            if kr == GA:
                nh[r] += 1
                pending[r].append(nh[r])
        for a in (s, r):
            if pending[a] and rng.random() < 0.5:
                h = pending[a].pop(rng.randrange(len(pending[a])))
                k = rng.choice(["wait", "wait", "test"] + (["waitfor"] if timed else []))
                actors[a].append(op(k, h, 0, rng.choice([0, 1, 2, 4, 6]) if k == "waitfor" else 0))
                if k != "wait":
                    pending[a].append(h)
    for a in range(na):
        rng.shuffle(pending[a])
        for h in pending[a]:
            if rng.random() < 0.8:
                actors[a].append(op("wait", h))
    return new_prog(actors=actors, perm=[] if mess else perm, nmq=nb if mess else 0, timed=timed)


def gen_timed_prog(rng, max_actors=4, max_ops=6):
    """Timed operations with deliberately coinciding dates: sleeps, timed acquires / waits, executions, asynchronous
    activities waited with a timeout placed before / at / after their completion date."""
    na = rng.randint(1, max_actors)
    actors = []
    ns = rng.randint(0, 2)
    nb = rng.randint(0, 1)
    cap = [rng.choice([0, 0, 1]) for _ in range(ns)]
    for a in range(na):
        ops = []
        nh = 0
        for _ in range(rng.randint(1, max_ops)):
            k = rng.choice(["sleep", "sleep", "exec", "execa+wf", "acqt", "rel", "puta+wf", "geta+wf", "cvwf"])
            if k == "sleep":
                ops.append(op("sleep", 0, 0, rng.randint(1, 4)))
            elif k == "exec":
                ops.append(op("exec", 0, 0, rng.randint(1, 4)))
            elif k == "execa+wf":
                d = rng.randint(1, 4)
                ops.append(op("execa", 0, 0, d))
                nh += 1
                ops.append(op("waitfor", nh, 0, max(0, d + rng.choice([-1, 0, 0, 1]))))
                ops.append(op("wait", nh))     # always: two executions must never overlap on the actor's host (exact durations)
            elif k == "acqt" and ns:
                ops.append(op("acqt", rng.randint(1, ns), 0, rng.randint(0, 4)))
            elif k == "rel" and ns:
                ops.append(op("rel", rng.randint(1, ns)))
            elif k in ("puta+wf", "geta+wf") and nb and na > 1:
                ops.append(op("puta" if k[0] == "p" else "geta", 1, 0, rng.randint(1, 4) if k[0] == "p" else 0))
                nh += 1
                ops.append(op("waitfor", nh, 0, rng.randint(0, 5)))
                if rng.random() < 0.5:
                    ops.append(op("wait", nh))
        actors.append(ops)
    return new_prog(cap=cap, actors=actors, perm=[0] * nb, timed=True)


def gen_susp_prog(rng, max_actors=4, max_ops=6):
    """Suspension (C11): actors sleep, join, wait on a semaphore (with and without timeout) or on a mutex, register on_exit
    callbacks, and suspend / resume each other or themselves at arbitrary dates. No execution nor communication (suspending those
    is not modelled); programs with a mutex have no kill (a killed actor stays in the mutex queue: out of C11's scope)."""
    na = rng.randint(2, max_actors)
    with_mutex = rng.random() < 0.4
    ns = rng.randint(0, 1)
    actors = []
    for a in range(na):
        ops = []
        nid = 0
        held = 0
        others = [x for x in range(na) if x != a]
        for _ in range(rng.randint(1, max_ops)):
            k = rng.choice(["sleep", "sleep", "suspend", "suspend", "resume", "resume", "resume", "self", "join", "joint", "acq", "rel",
                            "lock", "onexit", "kill", "yield"])
            if k == "sleep":
                ops.append(op("sleep", 0, 0, rng.randint(1, 5)))
            elif k == "suspend":
                ops.append(op("suspend", rng.choice(others) + 1))
            elif k == "resume":
                ops.append(op("resume", rng.choice(others) + 1))
            elif k == "self" and rng.random() < 0.5:
                ops.append(op("suspend", a + 1))
            elif k in ("join", "joint"):
                ops.append(op("join", rng.choice(others) + 1, 0, -1 if k == "join" else rng.randint(0, 4)))
            elif k == "acq" and ns:
                ops.append(op("acq" if rng.random() < 0.5 else "acqt", 1, 0, rng.randint(1, 4)))
            elif k == "rel" and ns:
                ops.append(op("rel", 1))
            elif k == "lock" and with_mutex:
                if held:
                    ops.append(op("unlock", 1))
                    held = 0
                else:
                    ops.append(op("lock", 1))
                    held = 1
            elif k == "onexit":
                nid += 1
                ops.append(op("onexit", 10 * (a + 1) + nid))
            elif k == "kill" and not with_mutex and rng.random() < 0.5:
                ops.append(op("kill", rng.choice(others) + 1))
            elif k == "yield":
                ops.append(op("yield"))
        if held:
            ops.append(op("unlock", 1))
        actors.append(ops)
    return new_prog(rec=[False] if with_mutex else [], cap=[rng.choice([0, 1])] * ns, actors=actors, timed=True)


def gen_restart_prog(rng, max_actors=4, max_ops=5):
    """Auto-restart (C11): victims register on_exit callbacks, ask to be restarted with their host, then sleep / wait; a controller
    turns their hosts off and on again (always at a later date: a reboot while the previous incarnation is still dying is not
    modelled), possibly twice; bystanders join, kill or suspend the victims. One host per actor."""
    na = rng.randint(2, max_actors)
    nv = rng.randint(1, max(1, na - 1))
    victims = list(range(1, 1 + nv))         # actor 0 is the controller
    ns = rng.randint(0, 1)
    actors = [[] for _ in range(na)]
    ctl = actors[0]
    for _ in range(rng.randint(1, 3)):
        v = rng.choice(victims)
        ctl.append(op("sleep", 0, 0, rng.randint(1, 3)))
        ctl.append(op("hostoff", v + 1))
        if rng.random() < 0.3:
            ctl.append(op("join", v + 1, 0, rng.choice([-1, 2])))
        ctl.append(op("sleep", 0, 0, rng.randint(1, 3)))
        ctl.append(op("hoston", v + 1))
    if rng.random() < 0.5:
        ctl.append(op("sleep", 0, 0, rng.randint(1, 4)))
        ctl.append(op("kill", rng.choice(victims) + 1))
    for a in range(1, na):
        ops = actors[a]
        nid = 0
        if a in victims:
            pre = rng.randint(0, 2)
            for _ in range(pre):
                nid += 1
                ops.append(op("onexit", 10 * (a + 1) + nid))
            if rng.random() < 0.2:
                ops.append(op("daemon"))
            if rng.random() < 0.9:          # (no kill time: the restarted incarnation would arm a second one, left unspecified)
                ops.append(op("autorestart"))
            if rng.random() < 0.4:
                nid += 1
                ops.append(op("onexit", 10 * (a + 1) + nid))
        for _ in range(rng.randint(1, max_ops)):
            k = rng.choice(["sleep", "sleep", "sleep", "acq", "rel", "join", "yield", "suspend", "resume"])
            others = [x for x in range(na) if x != a]
            if k == "sleep":
                ops.append(op("sleep", 0, 0, rng.randint(1, 4)))
            elif k == "acq" and ns:
                ops.append(op("acq" if rng.random() < 0.5 else "acqt", 1, 0, rng.randint(1, 4)))
            elif k == "rel" and ns:
                ops.append(op("rel", 1))
            elif k == "join":
                ops.append(op("join", rng.choice(others) + 1, 0, rng.choice([-1, 1, 3])))
            elif k == "yield":
                ops.append(op("yield"))
            elif k in ("suspend", "resume") and a not in victims and rng.random() < 0.5:
                ops.append(op(k, rng.choice(victims) + 1))
    return new_prog(cap=[rng.choice([0, 1])] * ns, actors=actors, timed=True)


def gen_dying_prog(rng, max_peers=4):
    """An actor starts several asynchronous communications (one mailbox each) on which peers block, then ends, is killed, or has
    its host turned off while they are in flight: the order in which its activities are cancelled is the order in which the
    peers are woken up (C01: it must not depend on addresses)."""
    k = rng.randint(2, max_peers)
    a1 = []
    for b in range(k):
        a1.append(op("puta", b + 1, 0, rng.randint(4, 8)) if rng.random() < 0.6 else op("geta", b + 1))
    how = rng.choice(["end", "end", "sleepend", "kill", "hostoff"])
    if how == "sleepend":
        a1.append(op("sleep", 0, 0, 1))
    elif how in ("kill", "hostoff"):
        a1.append(op("sleep", 0, 0, 9))
    actors = [a1]
    for b in range(k):
        peer = [op("get", b + 1)] if a1[b]["op"] == "puta" else [op("put", b + 1, 0, rng.randint(4, 8))]
        if rng.random() < 0.5:
            peer.append(op("sleep", 0, 0, 1))
        actors.append(peer)
    if how in ("kill", "hostoff"):
        actors.append([op("sleep", 0, 0, rng.randint(1, 2)), op(how, 1)])
    rng.shuffle(actors[1:1 + k])
    return new_prog(actors=actors, perm=[0] * k, timed=True)


def gen_life_prog(rng, max_actors=5, max_ops=6):
    """Actor lifecycle: create, on_exit callbacks, join with/without timeout, kill, kill_all, daemons, kill times, mixed with
    sleeps, executions and semaphore waits (no mutex / barrier: their queues keep killed actors, out of C11's scope)."""
    na = rng.randint(2, max_actors)
    spawn = [False] * na
    parent = {}
    for c in range(1, na):
        if rng.random() < 0.35:
            spawn[c] = True
            parent[c] = rng.randrange(0, c)
    ns = rng.randint(0, 1)
    actors = []
    for a in range(na):
        ops = []
        if rng.random() < 0.2 and a > 0:
            ops.append(op("daemon"))
        kids = [c for c in parent if parent[c] == a]
        n = rng.randint(1, max_ops)
        nid = 0
        for _ in range(n):
            k = rng.choice(["sleep", "sleep", "exec", "onexit", "onexit", "join", "joint", "kill", "killtime", "acq", "rel", "killall"])
            if kids and rng.random() < 0.5:
                c = kids.pop(0)
                ops.append(op("create", c + 1))
                if rng.random() < 0.5:
                    ops.append(op("join", c + 1, 0, rng.choice([-1, -1, 1, 2, 4])))
                continue
            if k == "sleep":
                ops.append(op("sleep", 0, 0, rng.randint(1, 5)))
            elif k == "exec":
                ops.append(op("exec", 0, 0, rng.randint(1, 3)))
            elif k == "onexit":
                nid += 1
                ops.append(op("onexit", 10 * (a + 1) + nid))
            elif k in ("join", "joint"):
                cand = [x for x in range(na) if x != a and not spawn[x]]
                if cand:
                    ops.append(op("join", rng.choice(cand) + 1, 0, -1 if k == "join" else rng.randint(0, 4)))
            elif k == "kill":
                cand = [x for x in range(na) if x != a]
                ops.append(op("kill", rng.choice(cand) + 1))
            elif k == "killtime":
                if not any(o["op"] == "killtime" for o in ops):   # re-arming a kill time is left unspecified
                    ops.append(op("killtime", 0, 0, rng.randint(1, 8)))
            elif k == "acq" and ns:
                ops.append(op("acq" if rng.random() < 0.5 else "acqt", 1, 0, rng.randint(1, 4)))
            elif k == "rel" and ns:
                ops.append(op("rel", 1))
            elif k == "killall" and rng.random() < 0.15:
                ops.append(op("killall"))
        for c in kids:
            ops.append(op("create", c + 1))
        if ops and ops[0]["op"] == "daemon":
            ops.append(op("sleep", 0, 0, 60))
        actors.append(ops)
    return new_prog(cap=[rng.choice([0, 1])] * ns, actors=actors, spawn=spawn, timed=True)
