"""Common body of C01 (reproducibility, ASLR on/off) and C02 (context factory / worker threads / synchro):
run A is taken as the specification of run B (spec/kernel/SgKernelTraceEq.tla): every line of B must be consumable by
the reference semantics SgKernel and equal to A's next line in its stream."""
import json, os
import vlib
import kernel_common as K
import kernel_sync


def programs(ctx, n):
    progs = list(kernel_sync.REGRESSION)
    for i in range(n):
        focus = ["all", "all", "mutex", "sem", "cv", "bar"][i % 6]
        # larger programs: many actors created in one round (any pointer-ordered container would change the order)
        big = i % 4 == 0
        progs.append(K.gen_sync_prog(ctx.rng, focus, max_actors=8 if big else 5, max_ops=10 if big else 7, illformed=0.01))
    # other families: communications, timed waits, lifecycle, suspension, restarts, and actors dying with several activities in
    # flight (the order in which they are cancelled wakes the peers up)
    others = [lambda r: K.gen_dying_prog(r), lambda r: K.gen_comm_prog(r, max_actors=5, max_ops=6), lambda r: K.gen_dying_prog(r),
              lambda r: K.gen_timed_prog(r, max_actors=4, max_ops=5), lambda r: K.gen_life_prog(r, max_actors=5, max_ops=6),
              lambda r: K.gen_susp_prog(r), lambda r: K.gen_restart_prog(r)]
    for i in range(max(7, n // 2)):
        progs.append(others[i % len(others)](ctx.rng))
    return progs


def run(ctx, variants, ref_variant, n_quick, n_thorough, what):
    """variants: list of (name, cfg list, env dict, wrapper list). ref_variant: same shape, the reference run."""
    progs = programs(ctx, n_quick if ctx.quick else n_thorough)
    for p in progs:
        ctx.count(p, nontrivial=K.shared_objects(p))
    for p in progs[-3:]:
        ctx.sample(K.prog_brief(p))
    ctx.cov["rule"] = ("seeded random synchronisation programs (up to 8 actors x 10 ops) + regression cases; each is run "
                       "under the reference configuration and under every variant; non-trivial = two actors share an object; "
                       "distinct by canonical JSON hash. " + what)
    ctx.cov["programs"] = len(progs)
    name0, cfg0, env0, wrap0 = ref_variant
    ref = K.run_many(ctx, progs, cfg=cfg0, env=env0, wrapper=wrap0)
    # the reference runs themselves must conform to the semantics
    rej0 = K.validate_traces(ctx, progs, ref, tag="ref")
    for x in rej0:
        i = x["prog"]
        ctx.violation("reference run rejected by SgKernel at record %s: %s" % (json.dumps(x["record"]), x["reason"]),
                      files={"program.json": json.dumps(progs[i]), "program.txt": K.prog_to_txt(progs[i]),
                             "trace.ndjson": "\n".join(json.dumps(r) for r in ref[i]) + "\n"},
                      signature="%s:conformance:%s" % (ctx.prop, vlib.canon_hash(progs[i])), detail=json.dumps(K.prog_brief(progs[i])))
    bad = {x["prog"] for x in rej0}
    # an ill-formed program that makes the process die inside an actor (xbt_assert of the kernel, or a signal while it formats its
    # message) is not compared: under a parallel factory the other actors get more or less far before the process dies
    crashing = {i for i, t in enumerate(ref) if any(r.get("e") == "end" and r.get("how") in ("signal", "abort") for r in t)}
    ctx.cov["programs_ending_in_a_crash_not_compared"] = len(crashing)
    bad |= crashing
    ctx.cov["variants"] = [v[0] for v in variants]
    ctx.cov["comparisons"] = 0
    for name, cfg, env, wrap in variants:
        sel = [i for i in range(len(progs)) if i not in bad]
        tr = K.run_many(ctx, [progs[i] for i in sel], cfg=cfg, env=env, wrapper=wrap)
        pairs = list(zip(sel, tr))
        rej = K.validate_traces(ctx, progs, pairs, tag="eq_" + name.replace("/", "_"), spec="SgKernelTraceEq.tla",
                                refs=[ref[i] for i in sel])
        ctx.cov["comparisons"] += len(sel)
        for x in rej:
            i = x["prog"]
            # confirm: re-run both and compare again
            a2 = K.run_kdrv(ctx, 700000 + i, progs[i], cfg=cfg0, env=env0, wrapper=wrap0)
            b2 = K.run_kdrv(ctx, 800000 + i, progs[i], cfg=cfg, env=env, wrapper=wrap)
            if not K.validate_traces(ctx, progs, [(i, b2)], tag="re", spec="SgKernelTraceEq.tla", refs=[a2]):
                ctx.cov["unconfirmed_rejections"] = ctx.cov.get("unconfirmed_rejections", 0) + 1
                continue
            ctx.violation("run under '%s' differs from the reference run '%s' at record %s: %s" %
                          (name, name0, json.dumps(x["record"]), x["reason"]),
                          files={"program.json": json.dumps(progs[i]), "program.txt": K.prog_to_txt(progs[i]),
                                 "trace_ref.ndjson": "\n".join(json.dumps(r) for r in a2) + "\n",
                                 "trace_variant.ndjson": "\n".join(json.dumps(r) for r in b2) + "\n",
                                 "howto.txt": "reference: %s %s ; variant: %s %s\n" % (wrap0, cfg0, wrap, cfg)},
                          signature="%s:%s:%s" % (ctx.prop, name, vlib.canon_hash(progs[i])),
                          detail=json.dumps(K.prog_brief(progs[i])))
    ctx.assumptions += ["TLC is the comparator: run A is the specification of run B; determinism of the code itself is not proved",
                        "actors of generated programs share no unsynchronised memory (they only touch kernel objects and their own log)"]
