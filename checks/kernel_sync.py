"""Common body of the synchronisation checks C04 (mutex), C05 (semaphore), C06 (condvar), C07 (barrier), C14 (all):
  M  TLC explores every interleaving of every program under SgKernel (invariants + action properties, outcome sets)
  T  the real kernel runs the same programs (kdrv + hook H1, the three context factories); every trace must be a
     behaviour of SgKernel (SgKernelTrace), and the run's outcome must be in TLC's outcome set (C14 criterion)."""
import json, os
import vlib
import kernel_common as K
from kernel_common import op, new_prog

FACTORIES = ["raw", "boost", "thread"]

# programs that exposed defects at the pinned commit (kept as permanent regression cases)
REGRESSION = [
    # C04: try_lock on a free recursive mutex did not set the depth: one unlock released it
    new_prog(rec=[True], cap=[0], actors=[[op("trylock", 1), op("lock", 1), op("unlock", 1), op("rel", 1), op("unlock", 1)],
                                         [op("acq", 1), op("lock", 1), op("sleep", 0, 0, 3), op("unlock", 1)]]),
    new_prog(rec=[True], actors=[[op("trylock", 1), op("trylock", 1), op("unlock", 1), op("sleep", 0, 0, 2), op("unlock", 1)],
                                 [op("sleep", 0, 0, 1), op("trylock", 1, 1), op("unlock", 1)]]),
    # C05/C06: zero timeouts blocked for ever
    new_prog(cap=[0], actors=[[op("acqt", 1, 0, 0), op("rel", 1)], [op("sleep", 0, 0, 1), op("acqt", 1, 0, 0)]]),
    new_prog(rec=[False], ncv=1, actors=[[op("lock", 1), op("cvwaitfor", 1, 1, 0), op("unlock", 1)],
                                         [op("lock", 1), op("unlock", 1)]]),
    # C05: the timeout of a waiter that is not first in the queue must take exactly that waiter out
    new_prog(cap=[0], actors=[[op("acq", 1)], [op("sleep", 0, 0, 1), op("acqt", 1, 0, 1)],
                              [op("sleep", 0, 0, 3), op("rel", 1), op("rel", 1), op("acq", 1)]]),
    new_prog(cap=[0], actors=[[op("acq", 1), op("rel", 1)], [op("sleep", 0, 0, 1), op("acqt", 1, 0, 1), op("sleep", 0, 0, 4), op("acqt", 1, 0, 1)],
                              [op("sleep", 0, 0, 3), op("rel", 1), op("sleep", 0, 0, 1), op("rel", 1)]]),
    # C06: same for a condition variable: the second waiter times out, the first is still there
    new_prog(rec=[False], ncv=1, actors=[[op("lock", 1), op("cvwait", 1, 1), op("unlock", 1)],
                                         [op("sleep", 0, 0, 1), op("lock", 1), op("cvwaitfor", 1, 1, 1), op("unlock", 1)],
                                         [op("sleep", 0, 0, 3), op("lock", 1), op("sig", 1), op("sig", 1), op("unlock", 1)],
                                         [op("sleep", 0, 0, 4), op("lock", 1), op("cvwaitfor", 1, 1, 2), op("unlock", 1)]]),
]


def small_scope(focus, quick):
    progs = []
    if focus == "mutex":
        alpha = [op("lock", 1), op("trylock", 1), op("unlock", 1)]
        for rec in (False, True):
            progs += list(K.enum_small(alpha, 2, 3, rec=[rec]))
        if not quick:
            alpha2 = alpha + [op("lock", 2), op("unlock", 2)]
            for rec in (False, True):
                progs += list(K.enum_small(alpha, 3, 2, rec=[rec]))
                progs += list(K.enum_small(alpha2, 2, 2, rec=[rec, not rec]))
    elif focus == "sem":
        alpha = [op("acq", 1), op("rel", 1), op("acqt", 1, 0, 0), op("acqt", 1, 0, 2), op("sleep", 0, 0, 2)]
        for cap in (0, 1):
            progs += list(K.enum_small(alpha, 2, 2, cap=[cap]))
            if not quick:
                progs += list(K.enum_small(alpha[:4], 2, 3, cap=[cap]))
            progs += list(K.enum_small(alpha[:4] if not quick else [alpha[0], alpha[1], alpha[3]], 3, 2, cap=[cap]))
        for t in (1, 2):
            for r in (1, 2, 3, 4):
                progs.append(new_prog(cap=[0], actors=[[op("acq", 1)], [op("sleep", 0, 0, 1), op("acqt", 1, 0, t), op("rel", 1)],
                                                       [op("sleep", 0, 0, r), op("rel", 1), op("rel", 1), op("acq", 1)]]))
                progs.append(new_prog(cap=[0], actors=[[op("acqt", 1, 0, 5)], [op("sleep", 0, 0, 1), op("acqt", 1, 0, t)],
                                                       [op("sleep", 0, 0, 1), op("acqt", 1, 0, t + 1)],
                                                       [op("sleep", 0, 0, r), op("rel", 1), op("sleep", 0, 0, 1), op("rel", 1), op("rel", 1)]]))
    elif focus == "cv":
        # each actor: lock; <x>; unlock with x in wait / wait_for / signal / broadcast, preceded by an optional sleep
        bodies = []
        for pre in ([], [op("sleep", 0, 0, 1)], [op("sleep", 0, 0, 2)]):
            for x in (op("cvwait", 1, 1), op("cvwaitfor", 1, 1, 0), op("cvwaitfor", 1, 1, 1), op("cvwaitfor", 1, 1, 2),
                      op("sig", 1), op("bcast", 1)):
                bodies.append(pre + [op("lock", 1), x, op("unlock", 1)])
            bodies.append(pre + [op("sig", 1)])
            bodies.append(pre + [op("bcast", 1)])
        import itertools
        for n in ((2, 3) if quick else (2, 3, 4)):
            combos = list(itertools.product(bodies, repeat=n))
            if len(combos) > (1500 if quick else 5000):
                import random
                rng = random.Random(7)
                combos = rng.sample(combos, 1500 if quick else 5000)
            for c in combos:
                for rec in ((False,) if quick else (False, True)):
                    progs.append(new_prog(rec=[rec], ncv=1, actors=[list(b) for b in c]))
    elif focus == "bar":
        import itertools
        for size in range(1, 5 if quick else 7):
            for na in range(1, 5 if quick else 7):
                for reps in (1, 2):
                    progs.append(new_prog(bar=[size], actors=[[op("bar", 1)] * reps for _ in range(na)]))
                    progs.append(new_prog(bar=[size], actors=[[op("sleep", 0, 0, 1 + (i % 3))] + [op("bar", 1)] * reps
                                                               for i in range(na)]))
        for sizes in itertools.product((1, 2, 3), repeat=2):
            for na in (2, 3, 4):
                progs.append(new_prog(bar=list(sizes), actors=[[op("bar", 1 + (i % 2)), op("bar", 2 - (i % 2))]
                                                               for i in range(na)]))
    elif focus == "life":
        # suspension: every program of 2 controllers x 2 operations over {suspend, resume, yield, sleep} acting on a third actor
        # that sleeps / suspends itself / joins / waits on a semaphore: all relative orders of suspend, resume and the victim's
        # own simcall inside one scheduling round
        import itertools
        ctl = [op("suspend", 3), op("resume", 3), op("yield"), op("sleep", 0, 0, 1)]
        victims = [[op("sleep", 0, 0, 2), op("onexit", 31)], [op("yield"), op("sleep", 0, 0, 2)], [op("suspend", 3), op("sleep", 0, 0, 1)],
                   [op("join", 1, 0, 2), op("yield")], [op("acqt", 1, 0, 1), op("sleep", 0, 0, 1)], [op("yield"), op("acq", 1), op("yield")]]
        if not quick:
            ctl += [op("rel", 1)]
            victims += [[op("lock", 1), op("sleep", 0, 0, 1), op("unlock", 1)], [op("sleep", 0, 0, 1), op("join", 2, 0, -1)]]
        for c1 in itertools.product(ctl, repeat=2):
            for c2 in itertools.product(ctl, repeat=2):
                if not any(o["op"] in ("suspend", "resume") for o in c1 + c2):
                    continue
                for v in victims:
                    progs.append(new_prog(cap=[0], rec=[False], actors=[list(c1), list(c2), list(v)]))
    return progs


def run(ctx, focus, n_random_quick, n_random_thorough, max_actors=4, max_ops=6, gen=None, extra=(), nontrivial=None,
        compare_outcomes=True, rule_note=""):
    quick = ctx.quick
    scope = small_scope(focus, quick)
    if not quick and len(scope) > 5000:      # thorough tier: a seeded sample of the enumerated scope (the whole of it does not
        import random                        # fit in an hour on a shared machine); the quick tier enumerates its scope entirely
        scope = random.Random(ctx.seed * 977 + 5).sample(scope, 5000)
        ctx.cov["small_scope_sampled"] = 5000
    progs = list(REGRESSION) + list(extra) + scope
    n_rand = n_random_quick if quick else n_random_thorough
    for _ in range(n_rand):
        if gen is not None:
            progs.append(gen(ctx.rng, quick))
        else:
            progs.append(K.gen_sync_prog(ctx.rng, focus, max_actors=max_actors, max_ops=max_ops if quick else max_ops + 1))
    # de-duplicate
    seen = set()
    uniq = []
    for p in progs:
        h = vlib.canon_hash(p)
        if h not in seen:
            seen.add(h)
            uniq.append(p)
    progs = uniq
    for p in progs:
        ctx.count(p, nontrivial=(nontrivial or K.shared_objects)(p))
    for p in progs[:2] + progs[-3:]:
        ctx.sample(K.prog_brief(p), limit=6)
    ctx.cov["programs"] = len(progs)
    ctx.cov["rule"] = ("programs = regression cases + small-scope enumeration for focus '%s' + %d seeded random programs; "
                       "non-trivial = %s; distinct by canonical JSON hash" %
                       (focus, n_rand, rule_note or "at least two actors touch a common object"))

    # ---------------- M: exhaustive exploration of the reference semantics
    r, outs = K.mc_explore(ctx, progs, timeout=600 if quick else 3000, coverage=False)
    ctx.add_tlc(r)
    ctx.cov["mc"] = {"status": r.status, "distinct": r.distinct, "generated": r.generated, "diameter": r.diameter,
                     "wall_s": round(r.wall, 1), "properties": ["KernelInv", "ClockMonotone", "MutexFifoHandoff", "SemFifo", "CvFifo",
                                                                 "MailboxFifo", "MessFifo"]}
    if not r.ok:
        raise vlib.InfraError("the specification itself fails on the generated programs (%s %s): fix the spec\n%s" %
                              (r.status, r.what[:200], r.out[-3000:]))
    ctx.cov["exhaustive"] = True
    ctx.cov["outcomes_total"] = sum(len(o) for o in outs)
    ctx.cov["programs_with_several_outcomes"] = sum(1 for o in outs if len(o) > 1)
    ctx.cov["programs_with_reachable_deadlock"] = sum(1 for o in outs if any(x["end"] == "deadlock" for x in o))

    # ---------------- T: the real kernel
    facs = FACTORIES if not quick else [FACTORIES[ctx.seed % 3], FACTORIES[(ctx.seed + 1) % 3]]
    runs = []  # (prog index, factory, records)
    for fi, fac in enumerate(facs):
        sel = list(range(len(progs))) if (not quick or fi == 0) else list(range(0, len(progs), 3))
        traces = K.run_many(ctx, [progs[i] for i in sel], cfg=["--cfg=contexts/factory:" + fac])
        runs += [(i, fac, t) for i, t in zip(sel, traces)]
    ctx.cov["impl_runs"] = len(runs)
    ctx.cov["factories"] = facs
    rej = K.validate_traces(ctx, progs, [(i, t) for i, _, t in runs])
    # confirm each rejection by re-running the same case (guards against killed processes / resource failures)
    confirmed = []
    for x in rej:
        i = x["prog"]
        t2 = K.run_kdrv(ctx, 900000 + i, progs[i])
        if K.validate_traces(ctx, progs, [(i, t2)], tag="re"):
            confirmed.append((x, t2))
        else:
            ctx.cov.setdefault("unconfirmed_rejections", 0)
            ctx.cov["unconfirmed_rejections"] += 1
    for x, t2 in confirmed:
        i = x["prog"]
        ctx.violation("trace of the real kernel rejected by SgKernel at record %s: %s" % (json.dumps(x["record"]), x["reason"]),
                      files={"program.json": json.dumps(progs[i]), "program.txt": K.prog_to_txt(progs[i]),
                             "trace.ndjson": "\n".join(json.dumps(r) for r in t2) + "\n",
                             "howto.txt": "VERIF_KTRACE=t.ndjson .build/harness/kdrv program.txt; validate with "
                                          "spec/kernel/SgKernelTrace.tla (PROGS=[program.json], TRACE=reset+t.ndjson)\n"},
                      signature="%s:%s" % (ctx.prop, vlib.canon_hash(progs[i])),
                      detail=json.dumps(K.prog_brief(progs[i])) + "\nfirst unconsumed record #%d\n%s" % (x["line"], x["tlc_tail"]))
    # C14 criterion: the outcome of each accepted run is one of the outcomes the semantics can reach
    bad_prog = {x["prog"] for x in rej}
    n_out = 0
    for i, fac, t in runs:
        if i in bad_prog or not compare_outcomes:
            continue
        io = K.impl_outcome(progs[i], t)
        n_out += 1
        if any(o["end"] == "undefined" for o in outs[i]):
            continue  # the program can reach behaviour the semantics leaves undefined
        if io["end"] in ("abort", "signal"):
            # an ill-formed program stopped by an xbt_assert: the S4U layer may assert in the actor itself, before the simcall
            # and before the other actors of the round have observed their answers, where the semantics aborts in the handler.
            # The trace validation above has accepted the run (TEnd allows both places); the observations are not comparable
            ctx.cov["aborting_runs_not_compared"] = ctx.cov.get("aborting_runs_not_compared", 0) + 1
            continue
        ok = any(o["obs"] == io["obs"] and o["ov"] == io["ov"] and (o["end"] == io["end"] or (o["end"] == "abort" and io["end"] == "signal"))
                 for o in outs[i])
        if not ok:
            ctx.violation("outcome of the real run is not reachable in the reference semantics: %s" % json.dumps(io),
                          files={"program.json": json.dumps(progs[i]), "program.txt": K.prog_to_txt(progs[i]),
                                 "reference_outcomes.json": json.dumps(outs[i], indent=1)},
                          signature="%s:outcome:%s" % (ctx.prop, vlib.canon_hash(progs[i])),
                          detail=json.dumps(K.prog_brief(progs[i])))
    ctx.cov["outcomes_compared"] = n_out
    # ---------------- T under the model checker: "every interleaving explored by the model checker" (C04, C05, C07, C08)
    if focus in ("mutex", "sem", "bar", "comm", "cv"):
        import mcbind_common as M
        MC_OPS = {"lock", "trylock", "unlock", "acq", "rel", "bar", "put", "get", "puta", "geta", "putd", "wait", "test",
                  "cvwait", "cvwaitfor", "sig", "bcast", "sleep"}
        cand = [p for p in progs if len(p["actors"]) <= 3 and sum(len(a) for a in p["actors"]) <= (12 if focus == "cv" else 9) and K.shared_objects(p)
                and all(o["op"] in MC_OPS for a in p["actors"] for o in a) and not any(p.get("perm", []))]
        ctx.rng.shuffle(cand)
        mcp = [dict(json.loads(json.dumps(p)), gran="mc", timed=False) for p in cand[: (5 if quick else 25)]]
        # plus the fixed MC-granularity programs that concern this focus (e.g. two waiters and one notify_all for "cv")
        want = {"mutex": {"lock", "trylock"}, "sem": {"acq"}, "bar": {"bar"}, "comm": {"put", "puta", "get", "geta"},
                "cv": {"cvwait", "cvwaitfor"}}[focus]
        mcp += [p for p in M.regression_progs() if any(o["op"] in want for a in p["actors"] for o in a)]
        if mcp:
            res = M.explore_all(ctx, mcp, ["dpor"], ["--cfg=model-check/max-errors:-1"], timeout=120)
            mrej, _ = M.validate_explorations(ctx, mcp, res)
            ctx.cov["mc_programs"] = len(mcp)
            ctx.cov["mc_executions_validated"] = sum(len(r["traces"]) for r in res.values())
            for x in mrej:
                j, red = x["key"]
                ctx.violation("execution explored by simgrid-mc (%s) rejected by SgKernel at record %s: %s" % (red, json.dumps(x["record"]), x["reason"]),
                              files={"program.json": json.dumps(mcp[j]), "program.txt": K.prog_to_txt(mcp[j]),
                                     "trace.ndjson": "\n".join(json.dumps(r) for r in x["trace"]) + "\n"},
                              signature="%s:mc:%s" % (ctx.prop, vlib.canon_hash(mcp[j])), detail=json.dumps(K.prog_brief(mcp[j])))
    ctx.assumptions += ["TLC explores the specification, not the code: the binding is the trace validation of the runs made",
                        "ties between a grant and a timeout at the same date are left open by the specification",
                        "hook H1 (handle/answer lines) and the driver's issue/ret lines are trusted to be emitted in program order"]
