"""Shared code of the checks C13 (Dag), C47 (Paje), C49 (Parmap): batched TLC trace validation with the progress register
(see spec/kernel/SgKernelTrace.tla for the idiom), cfg-file generation for model-checking runs."""
import json, os, re
import vlib

LSPEC = os.path.join(vlib.SPEC, "lib")


def write_cfg(path, constants, spec="Spec", invariants=(), properties=(), symmetry=None, deadlock=True, extra=()):
    with open(path, "w") as f:
        if constants:
            f.write("CONSTANTS\n")
            for k, v in constants.items():
                f.write("  %s = %s\n" % (k, v))
        f.write("SPECIFICATION %s\n" % spec)
        for i in invariants:
            f.write("INVARIANT %s\n" % i)
        for p in properties:
            f.write("PROPERTY %s\n" % p)
        if symmetry:
            f.write("SYMMETRY %s\n" % symmetry)
        f.write("CHECK_DEADLOCK %s\n" % ("TRUE" if deadlock else "FALSE"))
        for e in extra:
            f.write(e + "\n")
    return path


def tla_set(xs):
    return "{" + ", ".join(str(x) for x in xs) + "}"


def validate_units(ctx, spec, units, tag, env=None, chunk_lines=40000, timeout=900, max_rej=8, nproc=None, xmx="4g"):
    """units: list of lists of records (dicts); each unit is a self-contained segment of the trace language of `spec`
    (the spec must be back in its between-units state at the end of every unit).  Units are concatenated into ndjson
    batches of about chunk_lines lines, one TLC run (-workers 1) per batch; when a batch is rejected the unit holding
    the first unconsumed line is recorded and the rest of the batch re-validated, so every unit is examined.
    Returns the list of rejections {unit, line (0-based index in the unit), record, reason, tlc_tail}."""
    spec_path = spec if os.path.isabs(spec) else os.path.join(LSPEC, spec)
    batches, cur, n = [], [], 0
    for ui, u in enumerate(units):
        cur.append(ui)
        n += len(u)
        if n >= chunk_lines:
            batches.append(cur)
            cur, n = [], 0
    if cur:
        batches.append(cur)

    def do_batch(bi_b):
        bi, b = bi_b
        todo = list(b)
        rej, acc, stats, rounds = [], 0, [0, 0], 0
        while todo and len(rej) < max_rej:
            rounds += 1
            tf = os.path.join(ctx.scratch, "%s_%d_%d.ndjson" % (tag, bi, rounds))
            ranges, ln = [], 0
            with open(tf, "w") as f:
                for ui in todo:
                    start = ln + 1
                    for r in units[ui]:
                        f.write(json.dumps(r, separators=(",", ":")) + "\n")
                        ln += 1
                    ranges.append((start, ln))
            e = {"TRACE": tf}
            if env:
                e.update(env)
            r = vlib.tlc(spec_path, env=e, timeout=timeout, workers=1, xmx=xmx)
            stats[0] += r.distinct
            stats[1] += r.generated
            if r.status not in ("ok", "invariant"):
                raise vlib.InfraError("trace validation (%s) failed to run: %s\n%s" % (spec, r.status, r.what[-3000:]))
            prog, total = None, None
            for line in r.prints:
                if line.startswith('<<"PROGRESS"'):
                    v = vlib.parse_tla_value(line)
                    prog, total = v[1], v[2]
            if r.status == "ok":
                if prog is None:
                    raise vlib.InfraError("trace validation (%s): no PROGRESS line\n%s" % (spec, r.out[-2000:]))
                if total != ln:
                    raise vlib.InfraError("trace validation (%s): TLC read %s lines, %d written" % (spec, total, ln))
                if prog == total + 1:
                    acc += len(todo)
                    break
            reason = "no action of the specification consumes this line"
            if r.status == "invariant":
                reason = "invariant %s violated in the state reached by the recorded execution" % r.what
                ls = [int(x) for x in re.findall(r"/\\ l = (\d+)", r.out)]
                prog = (max(ls) - 1) if ls else 1    # the state after consuming line l-1 violates
                prog = max(prog, 1)
            bad = len(ranges) - 1
            for j, (s, e2) in enumerate(ranges):
                if s <= prog <= e2:
                    bad = j
            ui = todo[bad]
            off = prog - ranges[bad][0]
            rej.append({"unit": ui, "line": off, "record": units[ui][off] if 0 <= off < len(units[ui]) else None,
                        "reason": reason, "tlc_tail": r.out[-1200:] if r.status == "invariant" else ""})
            acc += bad
            todo = todo[bad + 1:]
        return rej, acc, stats

    results = vlib.parallel_map(do_batch, list(enumerate(batches)), nproc=nproc or min(8, vlib.NCPU))
    rejections = []
    for rej, acc, stats in results:
        rejections += rej
        ctx.cov["states"] += stats[0]
        ctx.cov["transitions"] += stats[1]
        ctx.cov["traces_validated_against_impl"] += acc + len(rej)
    return rejections
