"""Shared code of the library-level checks (C27 units, C45 random, C46 file system, C48 configuration, C50 containers):
TLC as generator of cases/behaviours (G), TLC as validator of traces recorded from the real code (T), Apalache for the
integer lemmas of C45, and the runners of the drivers of this area."""
import json, os, re
import vlib, drivers

LSPEC = os.path.join(vlib.SPEC, "lib")

DRIVERS = {
    "c27drv": (["c27drv.cpp"], "s4u", []),
    "c45drv": (["c45drv.cpp"], "s4u", []),
    "c46drv": (["c46drv.cpp"], "s4u", []),
    "c48drv": (["c48drv.cpp"], "s4u", []),
    "c50drv": (["c50drv.cpp"], "s4u", []),
}
drivers.register(DRIVERS)

SG_QUIET = ["--log=root.thres:critical", "--cfg=debug/stacktrace:none"]


def spec(name):
    return os.path.join(LSPEC, name)


def tla_set(xs):
    return "{" + ", ".join(str(x) for x in xs) + "}"


def tla_const(v):
    if isinstance(v, bool):
        return "TRUE" if v else "FALSE"
    if isinstance(v, (list, tuple, set, range)):
        return tla_set(v)
    if isinstance(v, str):
        return '"%s"' % v
    return str(v)


def write_cfg(ctx, tag, constants, invariants=(), spec_name="Spec", properties=(), extra=()):
    """Write a TLC configuration into the scratch directory (the committed *.cfg are the documented defaults; the
    checks vary the constants with the tier)."""
    p = os.path.join(ctx.scratch, tag + ".cfg")
    with open(p, "w") as f:
        f.write("SPECIFICATION %s\n" % spec_name)
        if constants:
            f.write("CONSTANTS\n")
            for k, v in constants.items():
                f.write("  %s = %s\n" % (k, tla_const(v)))
        for i in invariants:
            f.write("INVARIANT %s\n" % i)
        for i in properties:
            f.write("PROPERTY %s\n" % i)
        for line in extra:
            f.write(line + "\n")
    return p


def excerpt(r, n=1800):
    """The part of TLC's output that says what went wrong (the tail is often a state dump)."""
    i = r.out.find("Error:")
    return r.out[i:i + n] if i >= 0 else r.out[-n:]


def need_ok(r, what):
    """A TLC run of the specification on its own must succeed: anything else is a failure of the machinery."""
    if not r.ok:
        raise vlib.InfraError("%s: TLC %s %s\n%s" % (what, r.status, str(r.what)[:300], excerpt(r)))
    return r


def tagged_prints(r, tag):
    """Values printed by PrintT(<<tag, ...>>): list of parsed tuples (without the tag). JSON payloads (strings produced
    by ToJson) are decoded."""
    res = []
    head = '<<"%s"' % tag
    for line in r.prints:
        if not line.startswith(head):
            continue
        v = vlib.parse_tla_value(line)
        items = []
        for x in v[1:]:
            if isinstance(x, str) and x[:1] in "[{":
                try:
                    x = json.loads(x)
                except ValueError:
                    pass
            items.append(x)
        res.append(items)
    return res


def generate(ctx, module, tag, constants, mode, invariants=("ModelSanity",), num=None, depth=None, seed=None, workers=None,
             timeout=900, env=None, print_tag="SEQ", coverage=False, extra=()):
    """Run TLC on spec/lib/<module> as a generator. mode 'bfs': every behaviour within the constants; mode 'sim':
    `num` random behaviours per worker (seeded). Returns (TlcResult, list of printed payloads)."""
    cfg = write_cfg(ctx, tag, constants, invariants, extra=extra)
    if mode == "bfs":
        r = vlib.tlc(spec(module), cfg=cfg, timeout=timeout, workers=workers, env=env, coverage=coverage)
    else:
        r = vlib.tlc(spec(module), cfg=cfg, timeout=timeout, workers=workers or 4, env=env,
                     simulate="num=%d" % num, depth=depth, seed=seed)
    need_ok(r, "%s (%s, %s)" % (module, mode, tag))
    vlib.log("  TLC %s %s: %s" % (module, tag, r))
    ctx.add_tlc(r)
    if mode != "bfs":     # -simulate reports only the number of states it generated
        m = re.search(r"The number of states generated: (\d+)", r.out)
        if m:
            ctx.cov["states"] += int(m.group(1))
            ctx.cov["transitions"] += int(m.group(1))
    out = [x[0] if len(x) == 1 else x for x in tagged_prints(r, print_tag)]
    if not out:
        raise vlib.InfraError("%s (%s): TLC printed no %s line\n%s" % (module, tag, print_tag, r.out[-2000:]))
    return r, out


def run_driver(name, args, timeout=120, env=None, stdin=None, cwd=None):
    drv = drivers.get(name)
    e = vlib.sg_env(env)
    return vlib.sh([drv] + list(args), timeout=timeout, env=e, stdin=stdin, cwd=cwd)


def apalache(ctx, module_path, inv, timeout=300, length=0, init=None, extra=()):
    """apalache-mc check --length=0 --inv=Inv: symbolic check of Inv over *all* states satisfying Init (unbounded SMT
    integers). Returns (ok, output). Any failure to run is an infrastructure error, a counter-example is ok=False."""
    out_dir = os.path.join(ctx.scratch, "apalache-" + inv)
    os.makedirs(out_dir, exist_ok=True)
    cmd = ["apalache-mc", "check", "--length=%d" % length, "--inv=" + inv, "--out-dir=" + out_dir,
           "--run-dir=" + os.path.join(out_dir, "run")]
    if init:
        cmd.append("--init=" + init)
    cmd += list(extra) + [module_path]
    rc, out, err = vlib.sh(cmd, timeout=timeout, cwd=os.path.dirname(module_path), env={"JVM_ARGS": "-Xmx4g"})
    txt = out + "\n" + err
    if rc == 124:
        raise vlib.InfraError("apalache timed out on %s" % inv)
    if "The outcome is: NoError" in txt:
        return True, txt
    if "The outcome is: Error" in txt and ("invariant" in txt.lower() or "counterexample" in txt.lower()):
        return False, txt
    raise vlib.InfraError("apalache failed on %s (rc=%s):\n%s" % (inv, rc, txt[-3000:]))
