"""Common body of the LMM checks C15 (capacities), C16 (fairness), C17 (selective = full = fresh), C18 (concurrency).

Each check runs the same pipeline (lmm_common) with its own generation parameters and looks at its own predicates:
  C15  Feasible (every solver), a solver that aborts (other than the explicit error of BMF) or does not terminate
  C16  MaxMinFair + Exact (maxmin: selective, full, fresh), BmfFair (bmf)
  C17  SelFresh, SelFull (+ the wrap-around family through the driver's seam, + Visited.tla, + the mirror of the
       modified-set bookkeeping explored by TLC, whose counter-example is replayed on the real code)
  C18  TransOk, ConcOk, NoStarv after every operation (+ the families of waiting queues: `-simulate` with LmmGen!NextQ and
       the exhaustive scopes LmmGen fam = 2, see wake_scopes / checks/C18.py)
A failed predicate is a violation when re-running the same history fails again.  Its signature is
  <property>:<kind>:<predicate>:cause=<tags>
where the tags are the cause tags Lmm.tla raised on that history (situations in which the pinned commit is known to
deviate: KNOWN_FINDINGS.jsonl) restricted to the ones that can explain this (kind, predicate); `cause=none` otherwise.
For the predicates of C18 the tags are those of the rejected step itself (Lmm!Pinned evaluated by LmmTrace.tla: the
observed state is what a recorded deviation does there), not sticky ones.
"""
import json, os, time
import vlib
import lmm_common as L
from lmm_common import O

PREDS = {
    "C15": {"Feasible", "Abort", "Hang", "Shape"},
    "C16": {"MaxMinFair", "BmfFair", "Exact"},
    "C17": {"SelFresh", "SelFull"},
    "C18": {"TransOk", "ConcOk", "NoStarv"},
}
CONC = {"TransOk", "ConcOk", "NoStarv"}


def relevant(kind, pred):
    """cause tags that can explain a failure of (kind, predicate)"""
    if pred in CONC:
        return {"suspstaged", "suspnorelease"}
    if pred in ("SelFresh",):
        return {"modset", "wrap", "zerocap"}
    if pred in ("SelFull",):
        return {"modset", "wrap", "zerocap", "inactive"}
    if kind == "mmsel":
        return {"modset", "wrap", "zerocap"}
    if kind == "mmfull":
        return {"zerocap", "inactive"}
    if kind == "fresh":
        return {"zerocap"}
    if kind == "bmf":
        return {"penbound", "inactive"}
    if kind == "fb":
        return {"fatpipe", "inactive"}
    return set()


def tags_at(h, i):
    """cause tags of the generator's (reference) system at operation i: only used for aborts, which TLC does not see"""
    o = h[i - 1]
    return set(o.get("flags", [])) | set(o.get("now", []))


def signature(prop, tags, kind, pred):
    c = sorted(set(tags) & relevant(kind, pred))
    return "%s:%s:%s:cause=%s" % (prop, kind, pred, "+".join(c) if c else "none")


# ------------------------------------------------------------------------------------------- generation parameters
def gen_params(prop, quick):
    if prop in ("C15", "C16"):
        return L.params(maxc=3 if quick else 5, minc=2, maxv=5 if quick else 8, len=20 if quick else 34,
                        cbounds=[0, 1, 2, 4, 7, 10, 10], vbounds=[-1, -1, 1, 3, 5], pens=[0, 1, 1, 2, 3],
                        ws=[0, 1, 2, 2, 3, 4], lims=[-1, -1, -1, 2], caps=[2, 3], pols=[0, 1, 1, 1])
    if prop == "C17":
        return L.params(maxc=3 if quick else 5, minc=2, maxv=5 if quick else 8, len=26 if quick else 60,
                        cbounds=[0, 1, 2, 4, 7, 10, 10], vbounds=[-1, -1, 1, 3, 5], pens=[0, 1, 1, 2],
                        ws=[1, 2, 2, 4], lims=[-1, -1, -1, 2], caps=[2, 3], pols=[0, 1, 1, 1, 1])
    return L.params(maxc=3 if quick else 4, minc=2, maxv=7 if quick else 10, len=26 if quick else 60,
                    cbounds=[1, 4, 10], vbounds=[-1, 3], pens=[0, 1, 1, 1, 2], ws=[1, 2, 2, 2, 4],
                    lims=[1, 1, 1, 2, 2, 3, 4, -1], caps=[2, 3], pols=[0, 1, 1, 1, 1])


def queue_params(quick, wide):
    """C18: the `-simulate` family of waiting queues (LmmGen!NextQ): few limited SHARED constraints, variables created
    suspended or not, elements that take a slot (weight >= 1) or not (0, 0.5); `wide`: 2-3 constraints instead of 1-2"""
    return L.params(maxc=3 if wide else 2, minc=2 if wide else 1, maxv=10 if quick else 14, len=32 if quick else 60, cbounds=[10],
                    vbounds=[-1], pens=[0, 0, 1, 1, 2], ws=[0, 1, 1, 2, 2, 4], lims=[1, 1, 2] if quick else [1, 1, 2, 3],
                    caps=[2, 3], pols=[1], late=0, fam=1)


def wake_scopes(quick):
    """C18: the exhaustive scopes of waiting queues (LmmGen fam = 2): (name, parameters).  ln = 0: the scope is finite by
    itself (limits, variables and cumulated weights are bounded) and explored completely; otherwise ln operations."""
    def sc(name, bases, maxv, ws, ln=0):
        return name, L.params(bases=bases, maxc=1, minc=1, maxv=maxv, len=ln or 60, bounded=1 if ln else 0, cbounds=[10],
                              vbounds=[-1], pens=[0, 1], ws=ws, lims=[1], caps=[2], pols=[1], late=1, fam=2, susp=0, maxw=2)
    def cn(limsets):
        return [[O("cnew", 10, 1, l) for l in ls] for ls in limsets]
    # from empty systems with one or two limited constraints; and every continuation (3 operations, 5 in the thorough tier)
    # of the queues of QUEUE_BASE, where an enabled variable can also run into the other, full, constraint
    qb = [L.strip(L.QUEUE_BASE[:-1])]
    if quick:
        return [sc("1c_4v_w02", cn([[1], [2]]), 4, [0, 2]), sc("1c_3v_w012", cn([[1]]), 3, [0, 1, 2]), sc("2c_queues", qb, 6, [1, 2], 4)]
    return [sc("1c_4v_w012", cn([[1], [2]]), 4, [0, 1, 2]), sc("2c_3v_w12", cn([[1, 1], [1, 2], [2, 1]]), 3, [1, 2], 11),
            sc("2c_queues", qb, 7, [0, 1, 2], 6)]


def wake_histories(ctx, quick):
    """Every history of the scopes in which a release wakes >= 2 staged variables waiting on one constraint (+ solve)."""
    def one(sc):
        name, par = sc
        pf = os.path.join(ctx.scratch, "wake_%s_params.json" % name)
        json.dump(par, open(pf, "w"))
        r = vlib.tlc(os.path.join(L.LSPEC, "LmmGen.tla"), cfg=os.path.join(L.LSPEC, "LmmGen_wake.cfg"), env={"LMM_PARAMS": pf},
                     workers=2 if quick else None, timeout=900 if quick else 2400, xmx="3g")
        L._check_tlc(r, "exhaustive scope of waiting queues (%s)" % name)
        return name, r, L._parse_hists(r)
    out, info, seen = [], {}, set()
    for name, r, hs in vlib.parallel_map(one, wake_scopes(quick), nproc=3):
        ctx.add_tlc(r)
        new = [h for h in hs if json.dumps(L.strip(h), sort_keys=True) not in seen]
        seen |= {json.dumps(L.strip(h), sort_keys=True) for h in new}
        info[name] = {"distinct_states": r.distinct, "generated": r.generated, "depth": r.diameter, "wall_s": round(r.wall, 1),
                      "histories": len(hs), "invariants": ["ConcurrencyOk", "NoStarvation"]}
        out += new
    ctx.cov["wake_scopes"] = info
    return out


def wake_stats(hs):
    """measured concurrency coverage of a family (the annotations are LmmGen!WakeInfo, computed by TLC)"""
    ev = [o for h in hs for o in h if o.get("wake", {}).get("q", 0) >= 2]
    return {"histories": len(hs),
            "with_staged_variable_enabled": sum(1 for h in hs if any(o.get("wake", {}).get("n", 0) >= 1 for o in h)),
            "with_multi_wake": sum(1 for h in hs if any(o.get("wake", {}).get("q", 0) >= 2 for o in h)),
            "multi_wake_events": len(ev), "with_slotless_element": sum(1 for o in ev if o["wake"]["z"]),
            "by_free": sum(1 for o in ev if o["op"] == "free"), "by_staging_expand": sum(1 for o in ev if o["op"] == "expand")}


def ext_params(prop, par):
    """alphabets of the exhaustive extensions of base histories (small on purpose: every combination is replayed)"""
    p = dict(par)
    p.update(len=3, cbounds=[0, 3] if prop == "C17" else [3, 6] if prop != "C18" else [3], vbounds=[-1, 2],
             pens=[0, 1, 2] if prop != "C15" else [0, 1], ws=[1, 2], lims=[1], pols=[1], caps=[2],
             maxc=3, maxv=6, fam=0, late=0)
    if prop == "C18":      # its bases hold up to 5 variables: a bound is never changed, no third constraint
        p.update(vbounds=[-1], pens=[0, 1], minc=1, maxc=2)
    return p


def cut_after_solve(h, rng):
    """prefix of a history ending with one of its solves (a base for the exhaustive extensions)"""
    idx = [i for i, o in enumerate(h) if o["op"] == "solve"]
    if not idx:
        return None
    return h[:rng.choice(idx) + 1]


def small_prefix(h, maxv):
    """the longest prefix of a history that ends with a solve and creates at most maxv variables (None: there is none)"""
    nv, best = 0, None
    for i, o in enumerate(h):
        nv += o["op"] == "vnew"
        if nv > maxv:
            break
        if o["op"] == "solve" and nv >= 3:
            best = i
    return h[:best + 1] if best is not None else None


def nontrivial(prop, h, rec):
    """the rule that makes a history count as non-trivial for `prop`"""
    solves = [o for o in h if o["op"] == "solve"]
    if prop in ("C15", "C16"):
        return any(sum(1 for e in o["exp"] if e[0] > 0) >= 2 for o in solves)
    if prop == "C17":
        return sum(1 for o in solves if any(e[0] > 0 for e in o["exp"])) >= 2
    return any(r is not None and any(x > 0 for x in r.get("stg", [])) for r in rec["mmsel"])


# ------------------------------------------------------------------------------------------- evaluation of one batch
def evaluate(ctx, prop, hists, tag, mm_only=()):
    """Replays the histories, lets TLC judge them; returns (hdr, recs, aborts, failures) where failures maps
    (history index, kind, predicate) relevant to `prop` to (first operation index where it fails, cause tags).
    mm_only: indices of the histories replayed on the two MaxMin systems only (C18: the concurrency bookkeeping is the
    code of lmm::System, shared by every solver)."""
    mm_only = set(mm_only)
    if mm_only:
        ia = [n for n in range(len(hists)) if n not in mm_only]
        ib = sorted(mm_only)
        recs, aborts = [None] * len(hists), [None] * len(hists)
        for idx, kinds in ((ia, L.KINDS), (ib, ["mmsel", "mmfull"])):
            if idx:
                hdr, r, a = L.run_driver(ctx, [hists[n] for n in idx], tag="%s_drv%d" % (tag, len(kinds)), kinds=kinds)
                for j, n in enumerate(idx):
                    recs[n], aborts[n] = r[j], a[j]
    else:
        hdr, recs, aborts = L.run_driver(ctx, hists, tag=tag + "_drv")
    bad = L.validate(ctx, hists, hdr, recs, tag=tag + "_tv")
    fails = {}
    # one failure is kept per (history, kind, predicate): the first one.  The tags of the concurrency predicates (C18) are
    # those of the failing step itself (LmmTrace.tla), not sticky ones: the first step that no recorded finding explains
    # comes before any explained one, so that a known deviation earlier in a history cannot hide an unexplained one
    def rank(i, k, w, tags):
        return (1 if w in CONC and set(tags) & relevant(k, w) else 0, i) if w in CONC else (0, i)
    for (h, i, k, w), tags in bad.items():
        if w in PREDS[prop]:
            key = (h, k, w)
            if key not in fails or rank(i, k, w, tags) < rank(fails[key][0], k, w, fails[key][1]):
                fails[key] = (i, tags)
    if prop == "C15":
        for h, ab in enumerate(aborts):
            for k, a in ab.items():
                if a.get("bmf_error"):
                    continue          # the explicit error of the BMF solver is an allowed outcome (C16)
                i = max(1, a["i"])
                fails[(h, k, "Hang" if a["sig"] in (14, 24) else "Abort")] = (i, sorted(tags_at(hists[h], i)))
    return hdr, recs, aborts, fails


def report(ctx, prop, hists, recs, aborts, fails, origin_of, mm_only=()):
    """Confirm by re-running each failing history, then report (violation or known finding, decided by the signature)."""
    if not fails:
        return
    # a few representatives per signature are enough for a recorded finding; every unexplained failure is kept
    by_sig = {}
    for (h, k, w), (i, tags) in sorted(fails.items()):
        by_sig.setdefault(signature(prop, tags, k, w), []).append((h, k, w, i, tags))
    todo = []
    ctx.cov.setdefault("rejections_by_signature", {})
    for sig, lst in sorted(by_sig.items()):
        known = any(f.get("status") == "known" and vlib._sig_match(f.get("signature", ""), sig) for f in ctx.findings)
        ctx.cov["rejections_by_signature"][sig] = ctx.cov["rejections_by_signature"].get(sig, 0) + len(lst)
        todo += [(sig, x) for x in (lst[:2] if known else lst[:8])]
    hs = sorted({x[0] for _, x in todo})
    _, recs2, aborts2, fails2 = evaluate(ctx, prop, [hists[h] for h in hs], "re", mm_only=[j for j, h in enumerate(hs) if h in mm_only])
    again = {(hs[h], k, w): v for (h, k, w), v in fails2.items()}
    for sig, (h, k, w, i, tags) in todo:
        if (h, k, w) not in again or again[(h, k, w)][0] != i:
            ctx.cov["unconfirmed_rejections"] = ctx.cov.get("unconfirmed_rejections", 0) + 1
            continue
        hist = hists[h]
        rec = {kk: recs[h][kk][i - 1] for kk in L.ALLKINDS}
        detail = "history (%s): %s\nfails at operation %d (%s) for system kind %s: predicate %s of spec/lmm/Lmm.tla\n" \
                 "cause tags of the abstract system following the implementation: %s\n" \
                 "exact reference allocation of that solve (generator): %s\nimplementation: %s\nabort: %s" % (
                     origin_of(h), L.brief(hist), i, hist[i - 1]["op"], k, w, tags,
                     json.dumps(hist[i - 1].get("exp")), json.dumps({kk: (r or {}).get("f") for kk, r in rec.items()}),
                     json.dumps(aborts[h].get(k)))
        ctx.violation("%s: %s fails on system kind %s at operation %d of: %s" % (prop, w, k, i, L.brief(hist[:i])),
                      files={"history.txt": L.to_tokens([hist]), "history.json": json.dumps(hist),
                             "howto.txt": ".build/harness/lmm_driver history.txt   (then spec/lmm/LmmTrace.tla on the case; see "
                                          "checks/lmm_common.py: make_cases / validate)\n"},
                      signature=sig, detail=detail)


# ------------------------------------------------------------------------------------------- M
def model_check(ctx, prop, bases, quick):
    """TLC explores Lmm.tla itself (histories merged): reference invariants; for C17 also the bookkeeping mirror."""
    par = L.params(maxc=3, minc=2, maxv=4, len=4 if quick else 5, cbounds=[0, 2, 6], vbounds=[-1, 1], pens=[0, 1, 2],
                   ws=[1, 2], lims=[-1, 1], caps=[2], bases=[L.strip(b) for b in bases])
    pf = os.path.join(ctx.scratch, "mc_params.json")
    json.dump(par, open(pf, "w"))
    r = vlib.tlc(os.path.join(L.LSPEC, "LmmGen.tla"), cfg=os.path.join(L.LSPEC, "LmmMC_ref.cfg"), env={"LMM_PARAMS": pf},
                 timeout=900 if quick else 2400, xmx="4g")
    ctx.add_tlc(r)
    ctx.cov["mc_reference"] = {"status": r.status, "distinct": r.distinct, "generated": r.generated, "depth": r.diameter,
                               "wall_s": round(r.wall, 1),
                               "invariants": ["ConcurrencyOk", "NoStarvation", "FeasibleR(MaxMin)", "MaxMinFairR(MaxMin)"]}
    if not r.ok:
        raise vlib.InfraError("Lmm.tla fails on its own (%s %s): fix the specification\n%s" % (r.status, r.what[:200], r.out[-3000:]))
    ctx.cov["exhaustive"] = True
    guided = []
    if prop == "C17":
        r = vlib.tlc(os.path.join(L.LSPEC, "LmmGen.tla"), cfg=os.path.join(L.LSPEC, "LmmMC_mirror.cfg"),
                     env={"LMM_PARAMS": pf}, timeout=900 if quick else 2400, xmx="4g")
        ctx.add_tlc(r)
        ctx.cov["mc_mirror"] = {"status": r.status, "what": r.what[:80], "distinct": r.distinct, "generated": r.generated,
                                "wall_s": round(r.wall, 1), "invariant": "ModifiedSetComplete"}
        if r.status == "invariant":
            # the mirror of the bookkeeping of System.cpp can lose a constraint: replay TLC's counter-example on the code
            h = _hist_of_trace(r.out)
            if h:
                guided.append(h + [O("solve")])
        elif not r.ok:
            raise vlib.InfraError("mirror exploration failed to run: %s\n%s" % (r.status, r.out[-3000:]))
    return guided


def _hist_of_trace(out):
    """the history (plain operations) of the last state of a TLC error trace"""
    idx = out.rfind("/\\ hist = ")
    if idx < 0:
        return None
    txt = out[idx + len("/\\ hist = "):]
    end = txt.find("\n/\\ ")
    end2 = txt.find("\n\n")
    cands = [e for e in (end, end2) if e >= 0]
    if cands:
        txt = txt[:min(cands)]
    try:
        v = vlib.parse_tla_value(txt)
    except Exception:
        return None
    return [O(o["op"], o["a"], o["b"], o["c"]) for o in v]


def visited_model(ctx, quick):
    """Visited.tla: the stamp protocol with the counter modulo N, exhaustively; the rule of the code and the fixed one."""
    suffix = "_q" if quick else ""
    res = {}
    for name in ("fixed", "code"):
        r = vlib.tlc(os.path.join(L.LSPEC, "Visited.tla"), cfg=os.path.join(L.LSPEC, "Visited_%s%s.cfg" % (name, suffix)),
                     timeout=900 if quick else 2400, xmx="2g")
        ctx.add_tlc(r)
        res[name] = {"status": r.status, "what": r.what[:60], "distinct": r.distinct, "generated": r.generated,
                     "wall_s": round(r.wall, 1)}
        if r.status not in ("ok", "invariant"):
            raise vlib.InfraError("Visited.tla (%s) failed to run: %s\n%s" % (name, r.status, r.out[-2000:]))
    if res["fixed"]["status"] != "ok":
        raise vlib.InfraError("Visited.tla: the fixed protocol violates StampSound: the model is wrong\n")
    ctx.cov["visited_model"] = res
    return res["code"]["status"] == "invariant"


# ------------------------------------------------------------------------------------------- the check
def run(ctx, prop):
    quick = ctx.quick
    par = gen_params(prop, quick)
    _, seam = L.driver()
    # VERIF_LMM_SCALE (default 1) scales the number of random histories: only meant for experiments on a loaded machine
    scale = float(os.environ.get("VERIF_LMM_SCALE", "1"))
    n_rand = max(12, int(({"C15": 300, "C16": 300, "C17": 260, "C18": 80}[prop] if quick else 1200 if prop == "C18" else 2000) * scale))
    n_queue = max(12, int((60 if quick else 400) * scale))        # C18: per variant of the family of waiting queues
    t0 = time.time()
    # ---- G: histories from the specification
    reg_names = sorted(L.REGRESSION)
    reg = L.annotate(ctx, [L.REGRESSION[n] for n in reg_names], "reg")
    # exhaustive extensions (every sequence of 2 operations + solve) of base systems: the regression systems as they are
    # just before they go wrong (first solve), and random ones
    def first_solve(h):
        idx = [i for i, o in enumerate(h) if o["op"] == "solve"]
        return h[:idx[0] + 1] if len(idx) >= 2 else None
    bases = [b for b in (first_solve(h) for n, h in zip(reg_names, reg) if n in ("modset", "zerocap", "suspnorelease", "suspstaged")) if b]
    extra = L.annotate(ctx, [L.REGRESSION["suspnorelease"][:5] + [O("solve")], L.RICH_BASE, L.QUEUE_BASE], "b18")
    if prop == "C18":
        bases = [extra[0], extra[2]]     # a staged variable behind a limit of 1; queues behind two limited constraints
    elif prop in ("C15", "C16") or not quick:
        bases.append(extra[1])           # (quick C17: its alphabets make the extensions of the rich base too many)
    # ---- M (in the background, while the histories are generated)
    from concurrent.futures import ThreadPoolExecutor
    pool_m = ThreadPoolExecutor(max_workers=3)
    tm = time.time()
    f_mc = pool_m.submit(model_check, ctx, prop, bases, quick)
    f_vis = pool_m.submit(visited_model, ctx, quick) if prop == "C17" else None
    f_wake = pool_m.submit(wake_histories, ctx, quick) if prop == "C18" else None
    if prop == "C18":        # the general mix and the two variants of the family of waiting queues, at the same time
        import random
        jobs = [(par, n_rand, "rnd", 3 if quick else 8), (queue_params(quick, 0), n_queue, "que0", 2 if quick else 4),
                (queue_params(quick, 1), n_queue, "que1", 2 if quick else 4)]
        jobs = [j + (random.Random(ctx.rng.randrange(1 << 30)),) for j in jobs]
        res = vlib.parallel_map(lambda j: L.random_histories(ctx, j[0], j[1], j[2], nproc=j[3], timeout=900 if quick else 2400,
                                                             rng=j[4]), jobs, nproc=3)
        rnd = res[0]
        fam = {"regression": reg, "random": rnd, "queues": res[1] + res[2]}
    else:
        rnd = L.random_histories(ctx, par, n_rand, "rnd", nproc=6 if quick else 16, timeout=900 if quick else 2400)
        fam = {"regression": reg, "random": rnd}
    if prop == "C17" and seam:
        fam["wrap"] = L.random_histories(ctx, dict(par, ff=[0, 0, 1], len=par["len"]), 60 if quick else 600, "ffr",
                                         nproc=2 if quick else 8, timeout=900)
        fam["wrap"] = [h for h in fam["wrap"] if any(o["op"] == "ff" for o in h)]
    pool = [h for h in (fam["queues"] if prop == "C18" else rnd) if len([o for o in h if o["op"] == "solve"]) >= 2]
    ctx.rng.shuffle(pool)
    nb = (1 if prop in ("C15", "C16", "C18") else 2) if quick else 8
    if prop == "C18":      # small systems only: the number of extensions grows with the square of the number of variables
        pool = [h for h in (small_prefix(h, 5 if quick else 7) for h in pool) if h]
    bases_r = [b for b in (cut_after_solve(h, ctx.rng) for h in pool[:nb]) if b]
    ext_bases = bases + bases_r
    ext, r_ext = L.extensions(ctx, ext_bases, ext_params(prop, par), "ext", timeout=900 if quick else 2400)
    fam["extensions"] = ext
    vlib.log("%s: generation %.1fs (%d random, %d extensions)" % (prop, time.time() - t0, len(rnd), len(ext)))
    ctx.cov["exhaustive_extension_bases"] = len(ext_bases)
    guided = f_mc.result()
    if guided:
        fam["guided"] = L.annotate(ctx, guided, "guided")
    if f_vis:
        model_says_wrap = f_vis.result()
    if f_wake:
        fam["wake"] = f_wake.result()
    pool_m.shutdown()
    vlib.log("%s: model checking done %.1fs after its start" % (prop, time.time() - tm))
    # ---- T: the real systems, judged by TLC (one batch)
    order = [n for n in ("regression", "guided", "wrap", "random", "queues", "wake", "extensions") if fam.get(n)]
    hs, origin = [], []
    for name in order:
        hs += fam[name]
        origin += [name] * len(fam[name])
    # vacuity guard (TLC's -coverage cannot be used on these modules: it runs out of memory while building its cost
    # model, before the first state): the operations actually present in the generated histories are counted
    opc = {}
    for h in hs:
        for o in h:
            opc[o["op"]] = opc.get(o["op"], 0) + 1
    ctx.cov["operation_counts"] = opc
    missing = [k for k in ("cnew", "vnew", "expand", "free", "vbound", "vpen", "cbound", "solve") if not opc.get(k)]
    if missing:
        raise vlib.InfraError("the generated histories never use %s: nothing would be checked for them" % missing)
    if prop == "C18":
        # what the generated histories exercise of on_disabled_var (annotations computed by TLC: LmmGen!WakeInfo)
        cc = {name: wake_stats(fam[name]) for name in order}
        ctx.cov["concurrency_coverage"] = cc
        if not fam.get("wake") or not sum(c["with_slotless_element"] for c in cc.values()) or \
                (scale >= 1 and not sum(c["multi_wake_events"] for n, c in cc.items() if n != "wake")):
            raise vlib.InfraError("no generated history releases a slot for which two staged variables wait (%s): the scan "
                                  "of the waiting list would not be checked" % json.dumps(cc))
    t0 = time.time()
    mm_only = {n for n in range(len(hs)) if origin[n] in ("queues", "wake")}
    hdr, recs, aborts, fails = evaluate(ctx, prop, hs, "all", mm_only=mm_only)
    vlib.log("%s: %d histories replayed and judged in %.1fs" % (prop, len(hs), time.time() - t0))
    ctx.cov["families"] = {name: {"histories": len(fam[name]),
                                  "failing": len({h for (h, k, w) in fails if origin[h] == name})} for name in order}
    ctx.cov["bmf_explicit_errors"] = sum(1 for ab in aborts for a in ab.values() if a.get("bmf_error"))
    for n, h in enumerate(hs):
        ctx.count(L.strip(h), nontrivial=nontrivial(prop, h, recs[n]))
    ctx.cov["solves_checked"] = sum((3 if n in mm_only else len(L.ALLKINDS)) for n, h in enumerate(hs) for o in h if o["op"] == "solve")
    ctx.cov["operations_checked"] = sum(len(h) * (2 if n in mm_only else len(L.KINDS)) for n, h in enumerate(hs))
    for name in ("random", "extensions", "regression"):
        idx = [n for n in range(len(hs)) if origin[n] == name]
        for n in idx[:1] + idx[len(idx) // 2:len(idx) // 2 + 1]:
            h = hs[n]
            last = [i for i, o in enumerate(h) if o["op"] == "solve"][-1]
            ctx.sample({"family": name, "history": L.brief(h), "exact_last_solve": h[last]["exp"],
                        "impl_last_solve": {k: (recs[n][k][last] or {}).get("f") for k in L.ALLKINDS}}, limit=5)
    t0 = time.time()
    report(ctx, prop, hs, recs, aborts, fails, lambda h: origin[h], mm_only=mm_only)
    vlib.log("%s: %d failing (history, kind, predicate) confirmed/reported in %.1fs" % (prop, len(fails), time.time() - t0))
    if prop == "C17":
        wrap_seen = any("wrap" in s for s in ctx.cov.get("rejections_by_signature", {}))
        ctx.cov["wraparound"] = {"seam": bool(seam), "model_predicts_defect": model_says_wrap,
                                 "implementation_rejected_on_wrap_histories": wrap_seen}
        if not seam:
            ctx.assumptions.append("the driver could not be built with its seam (-fno-access-control on "
                                   "System::visited_counter_): the wrap-around of the visit stamps is covered by Visited.tla only")
    ctx.cov["scale"] = hdr["scale"]
    ctx.cov["precision_ppb"] = hdr["prec"]
    ctx.cov["rule"] = ("histories = sequences of lmm::System API operations generated by TLC from spec/lmm/Lmm.tla: regression "
                       "cases, %d seeded `-simulate` histories of %d operations (<= %d constraints, <= %d variables), every "
                       "extension by 2 operations + solve of %d base systems%s; "
                       "each is replayed on MaxMin selective/full, a fresh system per solve, BMF and FairBottleneck%s and "
                       "judged by TLC (LmmTrace.tla) on the implementation's values; non-trivial for %s = %s; distinct by "
                       "canonical hash of the operation sequence" %
                       (n_rand, par["len"], par["maxc"], par["maxv"], ctx.cov["exhaustive_extension_bases"],
                        ", the wrap-around family, TLC's counter-example of the bookkeeping mirror" if prop == "C17" else
                        (", 2 x %d seeded `-simulate` histories of the family of waiting queues (LmmGen!NextQ: staged variables "
                         "pile up behind limited constraints, with elements of weight 0 / 0.5 that take no slot, and the slots are "
                         "released by a free or by a staging expand while they wait), and every history of the exhaustive scopes "
                         "of waiting queues %s in which one operation wakes >= 2 staged variables waiting on one constraint"
                         % (n_queue, sorted(ctx.cov["wake_scopes"]))) if prop == "C18" else "",
                        " (the two families of waiting queues: on the two MaxMin systems only)" if prop == "C18" else "", prop,
                        {"C15": "some solve gives a positive rate to >= 2 variables", "C16": "some solve gives a positive rate to >= 2 variables",
                         "C17": ">= 2 solves with positive rates (modifications in between)",
                         "C18": "some variable was staged by the implementation"}[prop]))
    ctx.assumptions += [
        "TLC explores the specification, not the code: the binding is the replay of the generated histories on the real "
        "lmm::System classes and TLC's evaluation of the predicates on the logged values",
        "implementation values are scaled by %d and rounded before TLC sees them; tolerance = scale * precision/work-amount "
        "(%g) per unit of magnitude plus the rounding of the scaling" % (hdr["scale"], hdr["prec"] / 1e9),
        "exact equality with MaxMin(sys) is only demanded when no FATPIPE constraint is consumed (unique allocation) and the "
        "implementation made the same staging choices as the generator",
        "the cause tags (mirror of the bookkeeping of System.cpp in Lmm.tla) only attribute a rejection to a recorded finding; "
        "a rejection on a history without a matching tag is a violation",
        "in-situ dumps of simulations (hook H2 of DESIGN.md) are not used: the systems are driven through the public API only"]
