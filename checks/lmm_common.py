"""Shared code of the LMM checks (C15-C18): sharing solvers of src/kernel/lmm.

Flow (see DESIGN.md 3.3 and the blocks C15-C18):
  M  TLC explores spec/lmm/Lmm.tla itself at small scope (LmmGen.tla + LmmMC_ref.cfg: the reference allocation MaxMin is
     feasible and max-min fair over exact rationals, the abstract staging keeps ConcurrencyOk / NoStarvation;
     LmmMC_mirror.cfg: the mirror of the selective-update bookkeeping keeps ModifiedSetComplete); Visited.tla (C17).
  G  TLC generates *histories* of lmm::System operations from the same module (all extensions of base histories at
     small scope + `-simulate` random ones, seeded) and prints them with the exact expected allocation of every solve.
  T  harness/lmm_driver.cpp replays every history on real systems (MaxMin selective / full, a fresh system rebuilt after
     every solve, BMF, FairBottleneck) and logs values and the projected concurrency state; TLC (LmmTrace.tla)
     evaluates the predicates of Lmm.tla on the logged values and prints the ones that fail.  Python only moves data.
"""
import json, os, re
import vlib, drivers

LSPEC = os.path.join(vlib.SPEC, "lmm")
KINDS = ["mmsel", "mmfull", "bmf", "fb"]
ALLKINDS = KINDS + ["fresh"]


def _eigen_flags():
    cands = []
    cache = os.path.join(vlib.SG, "CMakeCache.txt")
    if os.path.exists(cache):
        for line in open(cache, errors="replace"):
            m = re.match(r"(EIGEN3_INCLUDE_DIRS?|Eigen3_DIR)[:\w]*=(.+)", line.strip())
            if m:
                p = m.group(2)
                cands.append(p)
                if p.endswith("/share/eigen3/cmake"):
                    cands.append(p[:-len("/share/eigen3/cmake")] + "/include/eigen3")
    cands += ["/usr/include/eigen3", "/usr/local/include/eigen3"]
    for c in cands:
        if os.path.exists(os.path.join(c, "Eigen", "Dense")):
            return ["-I" + c]
    return []


# the seam (-fno-access-control: the driver presets the private visit-stamp counter) needs no hook in /repo; if the
# member is renamed the driver falls back to the variant without seam and the wrap-around is covered by Visited.tla only
DRIVERS = {
    "lmm_driver": (["lmm_driver.cpp"], "s4u", _eigen_flags() + ["-DLMM_DRIVER_SEAM", "-fno-access-control"]),
    "lmm_driver_noseam": (["lmm_driver.cpp"], "s4u", _eigen_flags()),
}
drivers.register(DRIVERS)
_drv = {}


def driver():
    """(path, has_seam)"""
    if not _drv:
        try:
            _drv["p"], _drv["seam"] = drivers.get("lmm_driver"), True
        except vlib.InfraError as e:
            vlib.log("lmm_driver with seam does not build (%s...): falling back" % str(e)[:200])
            _drv["p"], _drv["seam"] = drivers.get("lmm_driver_noseam"), False
    return _drv["p"], _drv["seam"]


# ------------------------------------------------------------------------------------------- histories

def O(op, a=0, b=0, c=0):
    return {"op": op, "a": a, "b": b, "c": c}


def brief(h):
    def f(o):
        n = {"cnew": 3, "vnew": 3, "expand": 3, "free": 1, "vbound": 2, "vpen": 2, "cbound": 2, "solve": 0, "ff": 1}[o["op"]]
        return o["op"] + ("(%s)" % ",".join(str(o[x]) for x in "abc"[:n]) if n else "")
    return " ".join(f(o) for o in h)


def strip(h):
    return [O(o["op"], o["a"], o["b"], o["c"]) for o in h]


def to_tokens(hists, first_id=1):
    out = []
    for i, h in enumerate(hists):
        out.append("H %d" % (first_id + i))
        for o in h:
            out.append("%s %d %d %d" % (o["op"], o["a"], o["b"], o["c"]))
        out.append("E")
    return "\n".join(out) + "\n"


DEFAULT_PARAMS = {"maxc": 3, "minc": 2, "maxv": 5, "len": 20, "cbounds": [0, 1, 4, 10], "vbounds": [-1, 1, 3],
                  "pens": [0, 1, 2], "ws": [0, 1, 2, 4], "lims": [-1, 1, 2], "caps": [2, 3], "pols": [0, 1], "late": 0,
                  "fam": 0, "susp": 1, "maxw": 8, "bounded": 0, "ff": [], "bases": [[]]}


def params(**kw):
    p = dict(DEFAULT_PARAMS)
    p.update(kw)
    return p


def _parse_hists(r):
    seen = set()
    out = []
    for line in r.prints:
        if line.startswith('<<"HIST"'):
            try:
                v = vlib.parse_tla_value(line)
                h = json.loads(v[1])
            except Exception as e:
                raise vlib.InfraError("cannot parse a history printed by TLC: %s\n%s" % (e, line[:300]))
            k = json.dumps(h, sort_keys=True)
            if k not in seen:
                seen.add(k)
                out.append(h)
    return out


def _check_tlc(r, what):
    if not r.ok:
        raise vlib.InfraError("%s: TLC %s %s\n%s" % (what, r.status, r.what[:300], r.out[-3000:]))


def tlc_histories(ctx, par, tag, simulate=None, seed=None, timeout=600, workers=None):
    """All complete histories (BFS) or `simulate` random ones, annotated with the exact expected allocations."""
    pf = os.path.join(ctx.scratch, tag + "_params.json")
    json.dump(par, open(pf, "w"))
    if simulate:
        cfg = "LmmGen_simq.cfg" if par.get("fam") == 1 else "LmmGen_sim.cfg"       # waiting queues (C18) / general mix
        r = vlib.tlc(os.path.join(LSPEC, "LmmGen.tla"), cfg=os.path.join(LSPEC, cfg), env={"LMM_PARAMS": pf},
                     simulate="num=%d" % simulate, depth=par["len"] + 200, seed=seed, workers=1, timeout=timeout, xmx="1g")
    else:
        r = vlib.tlc(os.path.join(LSPEC, "LmmGen.tla"), cfg=os.path.join(LSPEC, "LmmGen_hist.cfg"), env={"LMM_PARAMS": pf},
                     workers=workers, timeout=timeout, xmx="2g")
    _check_tlc(r, "history generation (%s)" % tag)
    ctx.add_tlc(r)
    return _parse_hists(r), r


def random_histories(ctx, par, total, tag, nproc=12, timeout=600, rng=None):
    """`total` random histories: nproc seeded `-simulate` runs in parallel (seeds derived from VERIF_SEED; `rng`: a
    generator of its own when several families are generated at the same time)."""
    nproc = max(1, min(nproc, total))
    per = (total + nproc - 1) // nproc
    seeds = [(rng or ctx.rng).randrange(1, 1 << 30) for _ in range(nproc)]
    res = vlib.parallel_map(lambda js: tlc_histories(ctx, par, "%s_%d" % (tag, js[0]), simulate=per, seed=js[1],
                                                     timeout=timeout)[0], list(enumerate(seeds)), nproc=nproc)
    seen = set()
    out = []
    for hs in res:
        for h in hs:
            k = json.dumps(strip(h), sort_keys=True)
            if k not in seen:
                seen.add(k)
                out.append(h)
    return out


def annotate(ctx, plain, tag, timeout=600):
    """Annotate given histories (lists of plain operations) through the specification: TLC replays them (bases, len 0)."""
    if not plain:
        return []
    hs, _ = tlc_histories(ctx, params(bases=[strip(h) for h in plain], len=0), tag, timeout=timeout)
    # TLC prints them in any order: put them back in the order given (ill-formed ones are cut by the replay)
    by = {json.dumps(strip(h), sort_keys=True): h for h in hs}
    out = []
    for h in plain:
        k = json.dumps(strip(h), sort_keys=True)
        if k not in by:
            raise vlib.InfraError("history not replayable by Lmm.tla (ill-formed?): " + brief(h))
        out.append(by[k])
    return out


def extensions(ctx, bases, par, tag, timeout=900):
    """Every history = one of `bases` followed by par['len'] generated operations (exhaustive, the last one a solve)."""
    p = dict(par)
    p["bases"] = [strip(b) for b in bases]
    hs, r = tlc_histories(ctx, p, tag, timeout=timeout)
    return hs, r


# ------------------------------------------------------------------------------------------- the real systems

def run_driver(ctx, hists, tag="drv", kinds=KINDS, nproc=None, timeout=600):
    """Replays the histories; returns (hdr, recs, aborts): recs[h][kind][i] = record of operation i+1 (or None),
    aborts[h][kind] = abort line."""
    drv, _ = driver()
    nproc = nproc or vlib.NCPU
    n = len(hists)
    chunks = [(lo, hists[lo:lo + (n + nproc - 1) // nproc]) for lo in range(0, n, max(1, (n + nproc - 1) // nproc))]

    def one(ch):
        lo, hs = ch
        tf = os.path.join(ctx.scratch, "%s_%d.txt" % (tag, lo))
        open(tf, "w").write(to_tokens(hs, first_id=lo))
        rc, out, err = vlib.sh([drv, tf] + list(kinds), timeout=timeout, env=vlib.sg_env())
        if rc != 0:
            raise vlib.InfraError("lmm_driver failed (rc=%s) on %s\n%s" % (rc, tf, err[-2000:]))
        return out

    outs = vlib.parallel_map(one, chunks, nproc=nproc)
    hdr = None
    recs = [{k: [None] * len(h) for k in ALLKINDS} for h in hists]
    aborts = [dict() for _ in hists]
    for out in outs:
        for line in out.splitlines():
            if not line.startswith("{"):
                continue
            try:
                j = json.loads(line)
            except ValueError:
                raise vlib.InfraError("garbled driver line: " + line[:200])
            if j["e"] == "hdr":
                hdr = j
            elif j["e"] == "op":
                recs[j["h"]][j["k"]][j["i"] - 1] = j
            elif j["e"] == "abort":
                aborts[j["h"]][j["k"]] = j
    if hdr is None:
        raise vlib.InfraError("lmm_driver printed no header")
    return hdr, recs, aborts


EMPTY = {"ok": 0, "pen": [], "stg": [], "slack": [], "val": []}


def make_cases(hists, hdr, recs, first_id=0):
    sk = len(str(hdr["scale"])) - 1
    assert 10 ** sk == hdr["scale"]
    eps = (hdr["scale"] * (hdr["prec"] // 1000)) // 1000000        # units per 1.0 of magnitude: scale * precision
    cases = []
    for n, h in enumerate(hists):
        runs = {}
        for k in ALLKINDS:
            rs = []
            for i in range(len(h)):
                r = recs[n][k][i]
                if r is None:
                    rs.append(EMPTY)
                else:
                    rs.append({"ok": 1, "pen": r.get("pen", []), "stg": r.get("stg", []), "slack": r.get("slack", []),
                               "val": r.get("val", [])})
            runs[k] = rs
        cases.append({"id": first_id + n, "ops": h, "runs": runs, "scale": hdr["scale"], "sk": sk, "eps": eps})
    return cases


def validate(ctx, hists, hdr, recs, tag="tv", nproc=6, timeout=900):
    """TLC evaluates the predicates of Lmm.tla on what the implementation did. Returns {(history index, operation index
    (1-based), kind, predicate) that failed: cause tags of the abstract system that follows the implementation}."""
    cases = make_cases(hists, hdr, recs)
    n = len(cases)
    if n == 0:
        return {}
    nproc = max(1, min(nproc, (n + 59) // 60))
    size = (n + nproc - 1) // nproc
    chunks = [cases[lo:lo + size] for lo in range(0, n, size)]

    def one(ic):
        i, ch = ic
        cf = os.path.join(ctx.scratch, "%s_cases_%d.json" % (tag, i))
        json.dump(ch, open(cf, "w"))
        r = vlib.tlc(os.path.join(LSPEC, "LmmTrace.tla"), env={"LMM_CASES": cf}, timeout=timeout,
                     workers=2, xmx="2g")
        _check_tlc(r, "trace validation (%s chunk %d)" % (tag, i))
        exp_states = sum(len(c["ops"]) + 1 for c in ch)
        if r.distinct != exp_states:
            raise vlib.InfraError("trace validation did not consume every operation: %d states for %d expected\n%s" %
                                  (r.distinct, exp_states, r.out[-2000:]))
        bad = {}
        for line in r.prints:
            if line.startswith('<<"BAD"'):
                v = vlib.parse_tla_value(line)
                bad[(v[1], v[2], v[3], v[4])] = sorted(v[5])
        return bad, r

    res = vlib.parallel_map(one, list(enumerate(chunks)), nproc=nproc)
    bad = {}
    for b, r in res:
        bad.update(b)
        ctx.add_tlc(r)
    ctx.cov["traces_validated_against_impl"] += n
    return bad


# a richer defect-free system used as a base of the exhaustive extensions: 3 constraints (one FATPIPE), 4 variables with
# different weights, penalties and bounds
RICH_BASE = [O("cnew", 10, 1, -1), O("cnew", 6, 1, -1), O("cnew", 8, 0, -1), O("vnew", 1, -1, 3), O("expand", 1, 1, 2),
             O("expand", 2, 1, 2), O("vnew", 2, 3, 3), O("expand", 1, 2, 2), O("expand", 3, 2, 4), O("vnew", 1, -1, 2),
             O("expand", 2, 3, 1), O("expand", 3, 3, 2), O("vnew", 1, 2, 2), O("expand", 1, 4, 3), O("solve")]

# waiting queues behind two constraints of limit 1 (C18): c1 is held by v1, c2 by v2 (both could take one more element);
# v3 (element of weight 0.5 on c1: it takes no slot but waits for one) and v4 wait for c1, v5 waits for c2
QUEUE_BASE = [O("cnew", 10, 1, 1), O("cnew", 10, 1, 1), O("vnew", 1, -1, 2), O("expand", 1, 1, 2), O("vnew", 1, -1, 2),
              O("expand", 2, 2, 2), O("vnew", 0, -1, 2), O("expand", 1, 3, 1), O("vpen", 3, 1), O("vnew", 1, -1, 2),
              O("expand", 1, 4, 2), O("vnew", 1, -1, 2), O("expand", 2, 5, 2), O("solve")]

# ------------------------------------------------------------------------------------------- regression histories
# situations in which the pinned commit deviates (found by these checks; see KNOWN_FINDINGS.jsonl). Kept as permanent cases.
REGRESSION = {
    # selective update: resume of a variable whose first constraint is already in the modified set
    "modset": [O("cnew", 10, 1, -1), O("cnew", 1, 1, -1), O("vnew", 0, -1, 2), O("expand", 1, 1, 2), O("expand", 2, 1, 2),
               O("vnew", 1, -1, 2), O("expand", 1, 2, 2), O("solve"), O("cbound", 1, 9), O("vpen", 1, 1), O("solve")],
    # a constraint whose capacity drops to 0 keeps its variables at their previous value
    "zerocap": [O("cnew", 10, 1, -1), O("vnew", 1, -1, 2), O("expand", 1, 1, 2), O("solve"), O("cbound", 1, 0), O("solve")],
    # fair bottleneck on a FATPIPE constraint
    "fbfatpipe": [O("cnew", 10, 0, -1), O("cnew", 2, 1, -1), O("vnew", 1, -1, 2), O("vnew", 1, -1, 2), O("expand", 1, 1, 2),
                  O("expand", 2, 1, 2), O("expand", 1, 2, 4), O("solve")],
    # suspending an enabled variable does not hand its slot to a staged one
    "suspnorelease": [O("cnew", 10, 1, 1), O("vnew", 1, -1, 1), O("vnew", 1, -1, 1), O("expand", 1, 1, 2), O("expand", 1, 2, 2),
                      O("vpen", 1, 0), O("solve")],
    # suspending a staged variable is ignored
    "suspstaged": [O("cnew", 10, 1, 1), O("vnew", 1, -1, 1), O("vnew", 1, -1, 1), O("expand", 1, 1, 2), O("expand", 1, 2, 2),
                   O("vpen", 2, 0), O("free", 1), O("solve")],
    # visit-stamp counter wrap-around (needs the seam)
    "wrap": [O("cnew", 10, 1, -1), O("cnew", 1, 1, -1), O("vnew", 0, -1, 2), O("expand", 1, 1, 2), O("expand", 2, 1, 2),
             O("solve"), O("ff", 0), O("cbound", 1, 9), O("solve"), O("vpen", 1, 1), O("solve")],
}
