"""Shared code of the unit-level checks of the model checker's own data structures (C42: odpor::Execution,
C44: udpor::*): generator of plausible executions of real transitions (a small abstract kernel keeps the sequences
sensible: a wait follows its async request and is only taken when it is enabled, comm identities match between
send/recv/wait, ...), driver runners, TLC runners. Expected values always come from TLC (spec/mc/*.tla)."""
import copy, json, os
import vlib, drivers

MCSPEC = os.path.join(vlib.SPEC, "mc")
CXX20 = ["-std=c++20"]
DRIVERS = {
    "mc_unit_driver": (["mc_unit_driver.cpp"], "s4u", CXX20),
    "udpor_unit_driver": (["udpor_unit_driver.cpp"], "s4u", CXX20),
}
drivers.register(DRIVERS)


# ------------------------------------------------------------------------------------------ execution generator (C42)

class Sim:
    """Abstract kernel at the granularity of the model checker's transitions. Only used to *generate* sensible
    sequences of transitions with consistent fields; it is not an oracle for anything."""

    def __init__(self, rng, nactors, profile):
        self.rng = rng
        self.profile = profile
        self.nm = rng.randint(1, 3)
        self.ns = rng.randint(1, 2)
        self.nb = rng.randint(1, 2)
        self.nc = rng.randint(1, 2)
        self.nmb = rng.randint(1, 3)
        self.mutex = {m: {"owner": None, "queue": []} for m in range(1, self.nm + 1)}
        self.sem = {s: {"cap": rng.choice([0, 1, 1, 2]), "queue": []} for s in range(1, self.ns + 1)}
        self.granted = {}
        self.bar = {b: {"size": rng.randint(2, max(2, min(3, nactors))), "arrived": [], "released": []}
                    for b in range(1, self.nb + 1)}
        self.cv = {c: {"waiters": []} for c in range(1, self.nc + 1)}
        self.signaled = set()
        self.mbox = {b: {"sends": [], "recvs": []} for b in range(1, self.nmb + 1)}
        self.comms = {}
        self.next_comm = 1
        self.max_actors = 6
        self.actors = {}
        self.exited = set()
        for a in range(1, nactors + 1):
            self.new_actor(a)

    # ---- actors and their programs: a list of steps, each step = (kind, args)
    def new_actor(self, a):
        self.actors[a] = {"steps": [], "pending": [], "held": [], "budget": self.rng.randint(3, 9)}

    def plan(self, a):
        """Append the steps of one more macro operation to actor a's program (or its exit)."""
        A = self.actors[a]
        r = self.rng
        if A["budget"] <= 0:
            for m in list(A["held"]):
                A["steps"].append(("unlock", m))
            A["held"] = []
            while A["pending"]:
                A["steps"].append(("commwait", A["pending"].pop(0), 0))
            A["steps"].append(("exit",))
            return
        A["budget"] -= 1
        kinds = {"mutex": 4, "try": 2, "sem": 3, "bar": 1, "cv": 2, "send": 4, "recv": 4, "probe": 1, "any": 2, "rand": 1,
                 "sleep": 1, "join": 1, "create": 1, "mtest": 1}
        for k, w in self.profile.items():
            kinds[k] = w
        pool = [k for k, w in kinds.items() for _ in range(w)]
        k = r.choice(pool)
        S = A["steps"]
        if k == "mutex":
            m = r.randint(1, self.nm)
            if m in A["held"]:
                S.append(("unlock", m))
                A["held"].remove(m)
            else:
                S += [("alock", m), ("mwait", m)]
                if r.random() < 0.6:
                    S.append(("unlock", m))
                else:
                    A["held"].append(m)
        elif k == "mtest":
            m = r.randint(1, self.nm)
            if m not in A["held"]:
                S += [("alock", m), ("mtest", m), ("mwait", m), ("unlock", m)]
        elif k == "try":
            m = r.randint(1, self.nm)
            if m not in A["held"]:
                S.append(("trylock", m))
        elif k == "sem":
            s = r.randint(1, self.ns)
            if r.random() < 0.5:
                S += [("sasync", s), ("swait", s)]
                if r.random() < 0.5:
                    S.append(("srel", s))
            else:
                S.append(("srel", s))
        elif k == "bar":
            b = r.randint(1, self.nb)
            S += [("basync", b), ("bwait", b)]
        elif k == "cv":
            c = r.randint(1, self.nc)
            m = 1 + (c - 1) % self.nm
            if r.random() < 0.5 and m not in A["held"]:
                S += [("alock", m), ("mwait", m), ("cvasync", c, m), ("cvwait", c, m, r.random() < 0.3), ("mwait", m),
                      ("unlock", m)]
            else:
                S.append(("cvsignal", c) if r.random() < 0.6 else ("cvbroadcast", c))
        elif k in ("send", "recv"):
            b = r.randint(1, self.nmb)
            S.append((k, b))
            q = r.random()
            if q < 0.5:
                S.append(("commwait", None, 1 if r.random() < 0.1 else 0))
            elif q < 0.75:
                S.append(("commtest", None))
        elif k == "probe":
            S.append(("iprobe", r.randint(1, self.nmb), r.random() < 0.5))
        elif k == "any":
            S.append(("waitany",) if r.random() < 0.5 else ("testany",))
        elif k == "rand":
            S.append(("random", r.randint(1, 3)))
        elif k == "sleep":
            S.append(("sleep",))
        elif k == "join":
            others = [x for x in self.actors if x != a]
            if others:
                S.append(("join", r.choice(others), r.random() < 0.2))
        elif k == "create":
            if len(self.actors) < self.max_actors:
                S.append(("create",))

    def next_step(self, a):
        A = self.actors[a]
        guard = 0
        while not A["steps"] and a not in self.exited and guard < 50:
            self.plan(a)
            guard += 1
        return A["steps"][0] if A["steps"] else None

    def matched(self, c):
        return self.comms[c]["src"] is not None and self.comms[c]["dst"] is not None

    def enabled(self, a):
        st = self.next_step(a)
        if st is None:
            return False
        k = st[0]
        A = self.actors[a]
        if k == "mwait":
            return self.mutex[st[1]]["owner"] == a
        if k == "unlock":
            return True
        if k == "swait":
            return self.granted.get((a, st[1]), False)
        if k == "bwait":
            return a in self.bar[st[1]]["released"]
        if k == "cvwait":
            return st[3] or a in self.signaled
        if k == "commwait":
            c = st[1] if st[1] is not None else (A["pending"][-1] if A["pending"] else None)
            if c is None:
                return True  # nothing to wait for: the step is dropped when fired
            return st[2] == 1 or self.matched(c)
        if k == "waitany":
            return (not A["pending"]) or any(self.matched(c) for c in A["pending"][:3])
        if k == "join":
            return st[2] or st[1] in self.exited
        return True

    def comm_fields(self, c):
        C = self.comms[c]
        return [c, C["src"] if C["src"] is not None else -1, C["dst"] if C["dst"] is not None else -1, C["mbox"]]

    def fire(self, a):
        """Execute actor a's next step; returns the token line of the transition (or None when the step is void)."""
        A = self.actors[a]
        st = A["steps"].pop(0)
        k = st[0]
        r = self.rng

        def line(typ, fields, times=0):
            return "%d %d %s %s" % (a, times, typ, " ".join(str(int(x)) for x in fields))
        if k == "alock":
            M = self.mutex[st[1]]
            if M["owner"] is None:
                M["owner"] = a
            else:
                M["queue"].append(a)
            return line("MUTEX_ASYNC_LOCK", [st[1], M["owner"]])
        if k == "mwait":
            return line("MUTEX_WAIT", [st[1], a])
        if k == "mtest":
            M = self.mutex[st[1]]
            return line("MUTEX_TEST", [st[1], M["owner"] if M["owner"] is not None else -1])
        if k == "trylock":
            M = self.mutex[st[1]]
            if M["owner"] is None:
                M["owner"] = a
                A["steps"].insert(0, ("unlock", st[1]))
            return line("MUTEX_TRYLOCK", [st[1], M["owner"]])
        if k == "unlock":
            M = self.mutex[st[1]]
            if M["owner"] != a:
                return None
            M["owner"] = M["queue"].pop(0) if M["queue"] else None
            return line("MUTEX_UNLOCK", [st[1], a])
        if k == "sasync":
            S = self.sem[st[1]]
            if S["cap"] > 0 and not S["queue"]:
                S["cap"] -= 1
                self.granted[(a, st[1])] = True
            else:
                S["queue"].append(a)
                self.granted[(a, st[1])] = False
            return line("SEM_ASYNC_LOCK", [st[1], self.granted[(a, st[1])], S["cap"]])
        if k == "swait":
            self.granted[(a, st[1])] = False
            return line("SEM_WAIT", [st[1], 1, self.sem[st[1]]["cap"]])
        if k == "srel":
            S = self.sem[st[1]]
            if S["queue"]:
                self.granted[(S["queue"].pop(0), st[1])] = True
            else:
                S["cap"] += 1
            return line("SEM_UNLOCK", [st[1], 0, S["cap"]])
        if k == "basync":
            B = self.bar[st[1]]
            B["arrived"].append(a)
            if len(B["arrived"]) >= B["size"]:
                B["released"] += B["arrived"]
                B["arrived"] = []
            return line("BARRIER_ASYNC_LOCK", [st[1]])
        if k == "bwait":
            self.bar[st[1]]["released"].remove(a)
            return line("BARRIER_WAIT", [st[1]])
        if k == "cvasync":
            c, m = st[1], st[2]
            M = self.mutex[m]
            if M["owner"] == a:
                M["owner"] = M["queue"].pop(0) if M["queue"] else None
            self.cv[c]["waiters"].append(a)
            return line("CONDVAR_ASYNC_LOCK", [c, m])
        if k == "cvwait":
            c, m = st[1], st[2]
            sig = a in self.signaled
            self.signaled.discard(a)
            if a in self.cv[c]["waiters"]:
                self.cv[c]["waiters"].remove(a)
            M = self.mutex[m]
            if M["owner"] is None:
                M["owner"] = a
            elif M["owner"] != a and a not in M["queue"]:
                M["queue"].append(a)
            return line("CONDVAR_WAIT", [c, m, sig, (not sig)])
        if k in ("cvsignal", "cvbroadcast"):
            W = self.cv[st[1]]["waiters"]
            woken = W[:1] if k == "cvsignal" else list(W)
            for w in woken:
                W.remove(w)
                self.signaled.add(w)
            return line("CONDVAR_SIGNAL" if k == "cvsignal" else "CONDVAR_BROADCAST", [st[1]])
        if k in ("send", "recv"):
            B = self.mbox[st[1]]
            mine, other, role, orole = ("sends", "recvs", "src", "dst") if k == "send" else ("recvs", "sends", "dst", "src")
            if B[other]:
                c = B[other].pop(0)
                self.comms[c][role] = a
            else:
                c = self.next_comm
                self.next_comm += 1
                self.comms[c] = {"src": None, "dst": None, "mbox": st[1]}
                self.comms[c][role] = a
                B[mine].append(c)
            A["pending"].append(c)
            return line("COMM_ASYNC_SEND" if k == "send" else "COMM_ASYNC_RECV", [c, st[1], 0])
        if k == "commwait":
            c = st[1] if st[1] is not None else (A["pending"][-1] if A["pending"] else None)
            if c is None:
                return None
            if c in A["pending"]:
                A["pending"].remove(c)
            return line("COMM_WAIT", [st[2]] + self.comm_fields(c))
        if k == "commtest":
            if not A["pending"]:
                return None
            c = A["pending"][-1]
            if self.matched(c):
                A["pending"].remove(c)
            return line("COMM_TEST", self.comm_fields(c))
        if k == "iprobe":
            return line("COMM_IPROBE", [st[1], st[2], -1 if r.random() < 0.5 else r.randint(0, 2)])
        if k == "waitany":
            cs = A["pending"][:3]
            if not cs:
                return None
            en = [c for c in cs if self.matched(c)]
            pick = r.randrange(len(en))
            A["pending"].remove(en[pick])
            f = [len(cs)]
            for c in cs:
                f += [0] + self.comm_fields(c)
            return line("WAITANY", f, times=pick)
        if k == "testany":
            cs = A["pending"][:3]
            if not cs:
                return None
            en = [i for i, c in enumerate(cs) if self.matched(c)]
            pick = r.choice(en) if en else r.randrange(len(cs))
            f = [len(cs)]
            for c in cs:
                f += self.comm_fields(c)
            if en:
                A["pending"].remove(cs[pick])
            return line("TESTANY", f, times=pick)
        if k == "random":
            return line("RANDOM", [0, st[1]], times=r.randint(0, st[1]))
        if k == "sleep":
            return line("ACTOR_SLEEP", [])
        if k == "join":
            return line("ACTOR_JOIN", [st[1], st[2]])
        if k == "create":
            child = max(self.actors) + 1
            if child > self.max_actors:
                return None
            self.new_actor(child)
            return line("ACTOR_CREATE", [child])
        if k == "exit":
            self.exited.add(a)
            return line("ACTOR_EXIT", [])
        raise AssertionError(k)


PROFILES = [
    {},  # everything
    {"mutex": 8, "try": 4, "mtest": 3, "send": 0, "recv": 0, "any": 0, "probe": 0, "cv": 3},  # synchronisation heavy
    {"send": 8, "recv": 8, "any": 4, "probe": 2, "mutex": 1, "try": 0, "sem": 1, "cv": 0},    # communication heavy
    {"sem": 6, "bar": 4, "cv": 5, "mutex": 4, "send": 1, "recv": 1},
    {"join": 4, "create": 3, "sleep": 2, "rand": 3, "mutex": 3, "send": 2, "recv": 2},
]


def gen_execution(rng, max_len=40, max_actors=6, detours=True):
    """Returns the list of script lines ("T ..." pushes and "R" removals) of one execution of at most max_len
    transitions over at most max_actors actors, and the net sequence of transition token lines."""
    na = rng.randint(2, max_actors)
    sim = Sim(rng, na, rng.choice(PROFILES))
    sim.max_actors = max_actors
    target = rng.randint(3, max_len)
    script, net = [], []
    stall = 0
    while len(net) < target and stall < 200:
        en = [a for a in sorted(sim.actors) if a not in sim.exited and sim.enabled(a)]
        if not en:
            break
        a = rng.choice(en)
        if detours and rng.random() < 0.06:
            # the explorers backtrack with remove_last_event: push a transition, remove it, go on from the saved state
            saved = copy.deepcopy((sim.mutex, sim.sem, sim.granted, sim.bar, sim.cv, sim.signaled, sim.mbox, sim.comms,
                                   sim.next_comm, sim.actors, sim.exited))
            l = sim.fire(a)
            (sim.mutex, sim.sem, sim.granted, sim.bar, sim.cv, sim.signaled, sim.mbox, sim.comms, sim.next_comm,
             sim.actors, sim.exited) = saved
            if l is not None:
                script += ["T " + l, "R"]
            continue
        l = sim.fire(a)
        if l is None:
            stall += 1
            continue
        script.append("T " + l)
        net.append(l)
    return script, net


def write_exec_script(path, execs):
    """execs: list of (id, script lines)."""
    with open(path, "w") as f:
        for i, script in execs:
            f.write("X %d\n" % i)
            for l in script:
                f.write(l + "\n")
            f.write("E\n")


def run_mc_unit_driver(ctx, script_path, timeout=300):
    drv = drivers.get("mc_unit_driver")
    rc, out, err = vlib.sh([drv, script_path], timeout=timeout, env=vlib.sg_env())
    recs = []
    for line in out.splitlines():
        line = line.strip()
        if line.startswith("{"):
            recs.append(json.loads(line))
    return rc, recs, err


def nontrivial_execution(rec):
    """non-trivial = some pair of events of different actors is ordered only through a chain (happens-before without
    direct dependency), i.e. the transitive step matters, or some event has a racing event."""
    n = rec["n"]
    for i in range(n):
        for j in range(i + 1, n):
            if rec["hb"][i][j] and not rec["dep"][i][j]:
                return True
    return any(rec["racing"][e] for e in range(n))


# ------------------------------------------------------------------------------------------ unfoldings (C44)

def _m(typ, aid, *f):
    return "%d 0 %s %s" % (aid, typ, " ".join(str(x) for x in f))


# alphabets of real transitions; the dependency between the labels is what the real depends() answers (driver, "D")
ALPHABETS = {
    # two actors, async locks: same mutex <=> dependent (transitive dependency)
    "locks2": [_m("MUTEX_ASYNC_LOCK", 1, 1, -1), _m("MUTEX_ASYNC_LOCK", 2, 1, -1), _m("MUTEX_ASYNC_LOCK", 1, 2, -1),
               _m("MUTEX_ASYNC_LOCK", 2, 3, -1)],
    # three actors, lock / trylock / unlock on one mutex: lock-trylock and trylock-unlock depend, lock-unlock do not
    "mutex3": [_m("MUTEX_ASYNC_LOCK", 1, 1, -1), _m("MUTEX_TRYLOCK", 2, 1, 2), _m("MUTEX_UNLOCK", 3, 1, 3),
               _m("MUTEX_WAIT", 1, 1, 1), _m("MUTEX_ASYNC_LOCK", 3, 2, -1)],
    # communications on two mailboxes and a semaphore
    "comm3": [_m("COMM_ASYNC_SEND", 1, 1, 1, 0), _m("COMM_ASYNC_SEND", 2, 2, 1, 0), _m("COMM_ASYNC_RECV", 3, 3, 1, 0),
              _m("COMM_ASYNC_RECV", 2, 4, 2, 0), _m("SEM_WAIT", 3, 1, 1, 0), _m("SEM_WAIT", 1, 1, 1, 0)],
    # four actors: barrier, condition variable and actor life cycle
    "mixed4": [_m("BARRIER_ASYNC_LOCK", 1, 1), _m("BARRIER_WAIT", 2, 1), _m("CONDVAR_ASYNC_LOCK", 3, 1, 1),
               _m("CONDVAR_SIGNAL", 4, 1), _m("MUTEX_UNLOCK", 2, 1, 2), _m("ACTOR_JOIN", 4, 1, 0), _m("ACTOR_EXIT", 1)],
}


def run_udpor_driver(ctx, script_text, tag, timeout=900):
    drv = drivers.get("udpor_unit_driver")
    sp = os.path.join(ctx.scratch, tag + ".txt")
    open(sp, "w").write(script_text)
    rc, out, err = vlib.sh([drv, sp], timeout=timeout, env=vlib.sg_env())
    recs = []
    for line in out.splitlines():
        if line.startswith("{"):
            recs.append(json.loads(line))
    return rc, recs, err, sp


def alphabet_script(labels):
    return "".join("L %s\n" % l for l in labels)


def real_label_dependency(ctx, labels, tag):
    rc, recs, err, _ = run_udpor_driver(ctx, alphabet_script(labels) + "D\n", tag)
    if rc != 0 or len(recs) != 1:
        raise vlib.InfraError("udpor_unit_driver could not build the alphabet: rc=%s %s" % (rc, err[-1500:]))
    return recs[0]


def tlc_unfoldings(ctx, params, tag, simulate=None, seed=None, timeout=1500, workers=8, lemmas=True):
    """Run UnfoldingGen; returns (TlcResult, list of case sheets)."""
    pf = os.path.join(ctx.scratch, tag + "_params.json")
    json.dump(params, open(pf, "w"))
    cfg = os.path.join(ctx.scratch, tag + ".cfg")
    open(cfg, "w").write("SPECIFICATION Spec\nINVARIANTS Emit%s\n" % (" Lemmas" if lemmas else ""))
    r = vlib.tlc(os.path.join(MCSPEC, "UnfoldingGen.tla"), cfg=cfg, env={"PARAMS": pf}, timeout=timeout, workers=workers,
                 simulate=simulate, depth=(params["maxn"] + 1) if simulate else None, seed=seed)
    if not r.ok:
        raise vlib.InfraError("UnfoldingGen failed (%s %s)\n%s" % (r.status, r.what[:300], r.out[-2500:]))
    cases = []
    for line in r.prints:
        if line.startswith('"{'):
            try:
                cases.append(json.loads(json.loads(line)))
            except ValueError as e:
                raise vlib.InfraError("cannot parse a case printed by UnfoldingGen: %s\n%s" % (e, line[:300]))
    return r, cases


def case_script(cid, case):
    """Driver script of one TLC case: the unfolding, then the subsets and the pairs of subsets TLC examined."""
    out = ["C %d %d %d" % (cid, case["n"], case["fmask"])]
    for ev in case["events"]:
        out.append("V %d %d %s" % (ev["l"], len(ev["c"]), " ".join(str(c) for c in sorted(ev["c"]))))
    subs = [s["s"] for s in case["sub"]]
    if subs == list(range(1 << case["n"])):
        out.append("S ALL")
    else:
        out.append("S %d %s" % (len(subs), " ".join(str(s) for s in subs)))
    out.append("P %d %s" % (len(case["pairs"]), " ".join("%d %d" % (p["a"], p["b"]) for p in case["pairs"])))
    out.append("E")
    return "\n".join(out) + "\n"


SETLIKE = {"anti", "anti2", "antif", "ksub", "pset", "tuples"}   # iterators: multiset equality (sorted lists)
CLASSIFIER_KEYS = {"near", "cfnear", "events", "fmask"}            # not answers of the implementation


def compare_sheets(exp, got, path=""):
    """Yields (path, key, expected, got) for every answer of the implementation that differs from TLC's."""
    for k, ev in exp.items():
        if k in CLASSIFIER_KEYS:
            continue
        if k not in got:
            yield (path, k, ev, "<missing>")
            continue
        gv = got[k]
        if k in SETLIKE:
            if sorted(ev) != sorted(gv):
                yield (path, k, sorted(ev), sorted(gv))
        elif isinstance(ev, list) and ev and isinstance(ev[0], dict):
            if len(ev) != len(gv):
                yield (path, k, "len %d" % len(ev), "len %d" % len(gv))
                continue
            for i, (a, b) in enumerate(zip(ev, gv)):
                yield from compare_sheets(a, b, "%s%s[%d]." % (path, k, i))
        elif ev != gv:
            yield (path, k, ev, gv)
    for k in got:
        if k not in exp and k not in ("topo", "rtopo", "id"):
            yield (path, k, "<absent: TLC says this answer must not exist>", got[k])
