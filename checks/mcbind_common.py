"""Binding of the model checker (simgrid-mc) to the specification: programs at MC granularity (SgKernel with gran = "mc"),
TLC's own exhaustive exploration as the reduction-free reference, simgrid-mc runs with hook H1 tracing every application
process (one per explored execution), TLC trace validation of every explored execution, outcome-set comparison, counter-example
replay.  Used by C38, C40, C41, C43 (and by C04-C08 for 'every interleaving explored by the model checker')."""
import glob, json, os, re, shutil
import vlib, drivers
import kernel_common as K
from kernel_common import op, new_prog

REDUCTIONS = ["none", "dpor", "sdpor", "odpor"]


def gen_mc_prog(rng, max_actors=3, max_ops=4, kinds=("mutex", "sem", "bar", "comm", "cv", "life")):
    """Small program at MC granularity (no time). kind "life": some actors join others (ACTOR_JOIN: enabled once the target has
    terminated), the last actor may be created by the first one (ACTOR_CREATE)."""
    na = rng.randint(2, max_actors)
    nm = rng.randint(1, 2) if "mutex" in kinds else 0
    ns = rng.randint(0, 1) if "sem" in kinds else 0
    nb = 1 if "bar" in kinds and rng.random() < 0.3 else 0
    nx = rng.randint(1, 2) if "comm" in kinds and rng.random() < 0.6 else 0
    ncv = 1 if "cv" in kinds and nm and rng.random() < 0.35 else 0
    rec = [rng.random() < 0.3 for _ in range(nm)]
    if ncv:
        rec[0] = False
    cap = [rng.choice([0, 1]) for _ in range(ns)]
    bar = [rng.randint(2, na)] * nb
    actors = []
    sends = [0] * max(nx, 1)
    for a in range(na):
        ops, held, nh, pend = [], [0] * nm, 0, []
        for _ in range(rng.randint(1, max_ops)):
            ks = []
            if nm:
                ks += ["lock", "lock", "trylock", "unlock"]
            if ns:
                ks += ["acq", "rel", "rel"]
            if nb:
                ks += ["bar"]
            if nx:
                ks += ["put", "get", "puta", "geta"]
            if ncv:
                ks += ["cvw", "cvs", "cvs"]
            k = rng.choice(ks)
            if k in ("cvw", "cvs"):
                if held[0]:
                    continue
                body = [op("cvwait", 1, 1)] if k == "cvw" and rng.random() < 0.7 else \
                       ([op("cvwaitfor", 1, 1, 1)] if k == "cvw" else [op(rng.choice(["sig", "bcast"]), 1)])
                ops += [op("lock", 1)] + body + [op("unlock", 1)]
                continue
            if k == "lock":
                m = rng.randrange(nm)
                if held[m] and not rec[m]:
                    continue
                ops.append(op("lock", m + 1))
                held[m] += 1
            elif k == "trylock":
                m = rng.randrange(nm)
                ops += [op("trylock", m + 1, 1), op("unlock", m + 1)]
            elif k == "unlock":
                c = [m for m in range(nm) if held[m]]
                if c:
                    m = rng.choice(c)
                    held[m] -= 1
                    ops.append(op("unlock", m + 1))
            elif k == "acq":
                ops.append(op("acq", 1))
            elif k == "rel":
                ops.append(op("rel", 1))
            elif k == "bar":
                ops.append(op("bar", 1))
            elif k in ("put", "puta"):
                b = rng.randrange(nx)
                ops.append(op(k, b + 1, 0, 1))
                if k == "puta":
                    nh += 1
                    pend.append(nh)
            elif k in ("get", "geta"):
                b = rng.randrange(nx)
                ops.append(op(k, b + 1))
                if k == "geta":
                    nh += 1
                    pend.append(nh)
            if pend and rng.random() < 0.4:
                h = pend.pop(0)
                ops.append(op(rng.choice(["wait", "wait", "test"]), h))
        for m in range(nm):
            while held[m] > 0 and rng.random() < 0.85:
                ops.append(op("unlock", m + 1))
                held[m] -= 1
        for h in pend:
            if rng.random() < 0.7:
                ops.append(op("wait", h))
        actors.append(ops)
    spawn = [False] * na

    def slot(ops):      # an insertion point that does not separate a "trylock?" from the unlock it guards
        c = [i for i in range(len(ops) + 1) if not (i > 0 and ops[i - 1]["op"] == "trylock" and ops[i - 1]["p"] == 1)]
        return rng.choice(c)
    if "life" in kinds and rng.random() < 0.35:
        for a in range(na):
            if rng.random() < 0.5:
                t = rng.choice([x for x in range(na) if x != a])
                actors[a].insert(slot(actors[a]), op("join", t + 1, 0, -1))
        if na >= 2 and rng.random() < 0.4 and not any(o["op"] == "join" and o["o"] == na for a in actors for o in a):
            spawn[na - 1] = True        # (nobody joins an actor that may not exist yet: the driver would abort)
            actors[0].insert(slot(actors[0]), op("create", na))
    if "rand" in kinds and rng.random() < 0.3:      # MC_random: transitions with several outcomes (times_considered > 0)
        for _ in range(rng.randint(1, 2)):
            a = rng.randrange(na)
            if sum(1 for o in actors[a] if o["op"] == "rand") < 2:
                actors[a].insert(slot(actors[a]), op("rand", rng.randint(1, 2)))
    return new_prog(rec=rec, cap=cap, bar=bar, ncv=ncv, actors=actors, perm=[0] * nx, timed=False, gran="mc", spawn=spawn)


def parse_transition(tr, pidmap):
    """'MUTEX_ASYNC_LOCK(mutex: 0, owner: 1)' -> fields of the checker's view (ids shifted to the specification's 1-based ones)"""
    d = {"ctype": tr.split("(", 1)[0]}
    m = re.search(r"(?:mutex|semaphore|barrier): (\d+)|mbox=(\d+)", tr)
    mc = re.search(r"cond(?:var|ition)?(?:_id)?: ?(\d+)", tr)
    if mc:
        d["ccond"] = int(mc.group(1)) + 1
    if m:
        d["cobj"] = int(m.group(1) if m.group(1) is not None else m.group(2)) + 1
    m = re.search(r"owner: (-?\d+)", tr)
    if m:
        d["cown"] = pidmap.get(int(m.group(1)), 0) if int(m.group(1)) >= 0 else 0
    m = re.search(r"Random\(\[(-?\d+);(-?\d+)\] ~> (-?\d+)\)", tr)
    if m:
        d["cmax"], d["cval"] = int(m.group(2)), int(m.group(3))
    m = re.search(r"(?:target|child) (-?\d+)", tr)
    if m:
        d["ctgt"] = pidmap.get(int(m.group(1)), 0) if int(m.group(1)) >= 0 else 0
    m = re.search(r"capacity: (-?\d+)", tr)
    if m:
        d["ccap"] = int(m.group(1))
    m = re.search(r"from (-?\d+) to (-?\d+)", tr)
    if m:
        d["cfrom"] = pidmap.get(int(m.group(1)), 0) if int(m.group(1)) >= 0 else 0
        d["cto"] = pidmap.get(int(m.group(2)), 0) if int(m.group(2)) >= 0 else 0
    return d


def merge_checker_view(trace, cex, nreplay, pidmap, status=()):
    """Attach to the j-th handle line of an application trace the checker's view of that step (the first nreplay steps were
    replayed in one batch and carry none). status = [(p, enabled aids, disabled aids)]: the actors the checker found enabled /
    disabled after the p-th step of this process (hook H4, RemoteApp::get_actors_status), attached to that handle line as
    cen / cdis (the state they describe is the one reached when the application has settled after that step)."""
    hs = [r for r in trace if r.get("e") == "handle"]
    for p, en, dis in status:
        if 1 <= p <= len(hs):
            hs[p - 1]["cen"] = sorted(pidmap.get(a, -a) for a in en)
            hs[p - 1]["cdis"] = sorted(pidmap.get(a, -a) for a in dis)
    for j, r in enumerate(hs):
        k = j - nreplay
        if k < 0:
            continue
        if k >= len(cex):
            # the application died inside its last step (xbt_assert of an ill-formed program): the checker never decoded it
            if not (j == len(hs) - 1 and k == len(cex)):
                r["cmis"] = True
            continue
        c = cex[k]
        r["ca"] = pidmap.get(c["a"], -c["a"])
        r["ctc"] = c["tc"]
        if c.get("tr"):
            r.update(parse_transition(c["tr"], pidmap))
    if len(cex) > max(0, len(hs) - nreplay) and hs:
        hs[-1]["cmis"] = True


def run_simgrid_mc(ctx, idx, prog, reduction="odpor", extra_cfg=(), timeout=120, with_checker_view=True):
    """Run simgrid-mc on kdrv+prog. Returns dict: rc, out, traces (list of record lists, one per application process = one
    explored execution, each prefixed by the records of the initial segment), deadlock (bool), replays (list of paths),
    counterexamples (list of list of transition strings), stats."""
    drv = drivers.get("kdrv")
    d = os.path.join(ctx.scratch, "mc%d_%d" % (os.getpid(), idx))
    shutil.rmtree(d, ignore_errors=True)
    os.makedirs(d)
    ptxt = os.path.join(d, "p.txt")
    open(ptxt, "w").write(K.prog_to_txt(prog))
    env = vlib.sg_env({"VERIF_KTRACE": os.path.join(d, "t_%p.ndjson")})
    cmd = [vlib.SIMGRID_MC, drv, ptxt, "--cfg=model-check/reduction:" + reduction, "--log=root.thres:info",
           "--cfg=debug/stacktrace:none", "--log=mc_ct.thres:critical"] + list(extra_cfg)
    for attempt in range(4):
        rc, out, err = vlib.sh(cmd, timeout=timeout, env=env)
        text = out + err
        # the abstract socket of the checker is named after its pid: an orphan application of an earlier checker that had the
        # same pid may still hold it (infrastructure, nothing to do with the program): try again with another pid
        if "Cannot bind the master socket" not in text:
            break
        for f in glob.glob(os.path.join(d, "t_*.ndjson")):
            os.unlink(f)
    else:
        raise vlib.InfraError("simgrid-mc could not bind its master socket 4 times in a row: " + text[-300:])
    if "error while loading shared libraries" in text:
        raise vlib.InfraError("simgrid-mc could not start (library being rebuilt?): " + text[-300:])
    # file t_<id>.ndjson, id = <pid> or <pid>.<k> for the k-th later process that got the same pid (pids are reused in long runs)
    def fid(f):
        return re.search(r"t_([0-9.]+)\.ndjson$", f).group(1)
    files = sorted(glob.glob(os.path.join(d, "t_*.ndjson")), key=lambda f: [int(x) for x in fid(f).split(".")])
    recs = []
    for f in files:
        rs = []
        for line in open(f):
            line = line.strip()
            if line:
                try:
                    rs.append(json.loads(line))
                except ValueError:
                    rs.append({"e": "garbled"})
        recs.append(rs)
    # Every application process writes its own file; a process forked by the checker starts its file with a "forked" record
    # (hook H1) naming its parent and how many lines the lineage had logged at the fork: the complete trace of a process is that
    # prefix of its parent's complete trace followed by its own lines. The checker's own file holds the H4 lines.
    byp = {}
    for f, rs in zip(files, recs):
        byp[fid(f)] = rs
    cexec, creplay, cstatus = {}, {}, {}
    pos, owed = {}, {}      # per application process: steps made so far; replayed steps whose status is still to come
    checker_pids = set()
    ninc = {}               # application processes the checker has created so far with a given pid (capp records, hook H4)
    for pid, rs in byp.items():
        for r in rs:
            if r.get("e") == "capp":
                ninc[r["app"]] = ninc.get(r["app"], 0) + 1
                checker_pids.add(pid)
                continue
            if "app" in r:      # the process the checker is talking to = the latest one created with that pid
                k = max(0, ninc.get(r["app"], 1) - 1)
                r = dict(r, app=str(r["app"]) + ("." + str(k) if k else ""))
            if r.get("e") == "cexec":
                cexec.setdefault(r["app"], []).append(r)
                pos[r["app"]] = pos.get(r["app"], 0) + 1
                owed[r["app"]] = 0
                checker_pids.add(pid)
            elif r.get("e") == "creplay":
                creplay[r["app"]] = creplay.get(r["app"], 0) + r["n"]
                pos[r["app"]] = pos.get(r["app"], 0) + r["n"] - r.get("ns", 0)
                owed[r["app"]] = r.get("ns", 0)
                checker_pids.add(pid)
            elif r.get("e") == "cstatus":
                if owed.get(r["app"], 0) > 0:
                    owed[r["app"]] -= 1
                    pos[r["app"]] = pos.get(r["app"], 0) + 1
                cstatus.setdefault(r["app"], []).append((pos.get(r["app"], 0), r["en"], r["dis"]))
                checker_pids.add(pid)
    pidmap = {}
    for rs in byp.values():
        for r in rs:
            if r.get("e") == "born":
                pidmap[r["pid"]] = r["a"]

    def own(pid):
        rs = [dict(r) for r in byp[pid] if r.get("e") != "forked"]
        if with_checker_view:
            merge_checker_view(rs, cexec.get(pid, []), creplay.get(pid, 0), pidmap, cstatus.get(pid, []))
        return rs
    owned = {pid: own(pid) for pid in byp if pid not in checker_pids}
    memo = {}

    def full(pid, depth=0):
        if pid in memo:
            return memo[pid]
        rs = byp[pid]
        head = rs[0] if rs and rs[0].get("e") == "forked" else None
        if head is not None and str(head["from"]) in owned and depth < 200:
            pre = full(str(head["from"]), depth + 1)[: head["lines"]]
        else:
            pre = []
        memo[pid] = pre + owned[pid]
        return memo[pid]

    def clean(rs):
        o = []
        held = None         # the checker's enabled / disabled sets: checked once the application has settled after the step
        for r in rs:
            if r.get("e") == "born":
                continue
            if r.get("e") == "handle":
                if held is not None:
                    o.append(held)
                held = {"e": "cstatus", "en": r["cen"], "dis": r["cdis"]} if "cen" in r else None
                r = {k: v for k, v in r.items() if k not in ("cen", "cdis")}
            if r.get("e") in ("handle", "answer"):
                r = dict(r, a=pidmap.get(r["a"], -r["a"]))
            o.append(r)
        if held is not None:
            o.append(held)
        return o
    parents = {str(rs[0]["from"]) for rs in byp.values() if rs and rs[0].get("e") == "forked"}
    roots = [pid for pid in owned if not (byp[pid] and byp[pid][0].get("e") == "forked")]
    traces = []
    for pid in sorted(owned):
        if pid in roots and pid in parents:
            continue          # the initial process: it only runs the application up to its first simcalls
        t = clean(full(pid))
        # a checker killed by the wall-clock limit leaves applications that die on the closed socket: not part of the execution
        while rc == 124 and t and t[-1].get("e") == "end" and t[-1].get("how") in ("exception", "signal", "abort"):
            t.pop()
        if t:
            traces.append(t)
    res = {"rc": rc, "out": text, "traces": traces, "deadlock": "DEADLOCK DETECTED" in text,
           "assert": "PROPERTY VIOLATED" in text or "property violation" in text.lower(),
           "replays": re.findall(r"model-check/replay:'([0-9;/]*)'", text), "timeout": rc == 124}
    m = re.search(r"(\d+) unique states visited; (\d+) explored traces", text)
    res["explored_traces"] = int(m.group(2)) if m else None
    res["crash"] = "no-such-actor" if re.search(r"Actor -?\d+ does not exist in state", text) else ""
    res["_args"] = (idx, prog, reduction, tuple(extra_cfg), timeout, with_checker_view)
    # counter-example blocks
    ces, cur = [], None
    for line in text.splitlines():
        if "Counter-example execution trace" in line:
            cur = []
            ces.append(cur)
        elif cur is not None and re.search(r"Actor \d+ in", line):
            cur.append(line.split("] ", 1)[-1].strip())
        elif cur is not None:
            cur = None
    res["counterexamples"] = ces
    shutil.rmtree(d, ignore_errors=True)
    return res


def with_xend(traces):
    return [t + [{"e": "xend", "run": 0}] for t in traces]


def replay_path(ctx, idx, prog, path, timeout=30):
    """Re-run the application alone with --cfg=model-check/replay:<path>; returns (records, stdout)."""
    drv = drivers.get("kdrv")
    d = os.path.join(ctx.scratch, "rp%d_%d" % (os.getpid(), idx))
    shutil.rmtree(d, ignore_errors=True)
    os.makedirs(d)
    ptxt = os.path.join(d, "p.txt")
    open(ptxt, "w").write(K.prog_to_txt(prog))
    tr = os.path.join(d, "t.ndjson")
    rc, out, err = vlib.sh([drv, ptxt, "--cfg=model-check/replay:" + path, "--log=root.thres:info", "--cfg=debug/stacktrace:none"],
                           timeout=timeout, env=vlib.sg_env({"VERIF_KTRACE": tr}))
    recs = []
    if os.path.exists(tr):
        for line in open(tr):
            if line.strip():
                try:
                    recs.append(json.loads(line))
                except ValueError:
                    pass
    pidmap = {r["pid"]: r["a"] for r in recs if r.get("e") == "born"}
    o = []
    for r in recs:
        if r.get("e") == "born":
            continue
        if r.get("e") in ("handle", "answer"):
            r = dict(r, a=pidmap.get(r["a"], -r["a"]))
        o.append(r)
    shutil.rmtree(d, ignore_errors=True)
    return o, out + err, rc


# ------------------------------------------------------------------------------------------- common exploration

def okey(o):
    return json.dumps({k: o[k] for k in ("obs", "ov", "end")}, sort_keys=True)


def regression_progs():
    return [
        new_prog(rec=[False, False], actors=[[op("lock", 1), op("lock", 2), op("unlock", 2), op("unlock", 1)],
                                             [op("lock", 2), op("lock", 1), op("unlock", 1), op("unlock", 2)]], timed=False, gran="mc"),
        new_prog(rec=[True], bar=[2], perm=[0], actors=[[op("puta", 1, 0, 1), op("put", 1, 0, 1), op("wait", 1)], [op("get", 1), op("geta", 1)]],
                 timed=False, gran="mc"),
        new_prog(cap=[0], rec=[False], actors=[[op("acq", 1), op("trylock", 1, 1), op("unlock", 1)], [op("lock", 1), op("rel", 1), op("unlock", 1)],
                                                [op("trylock", 1, 1), op("unlock", 1)]], timed=False, gran="mc"),
        # condition variable: two waiters, one broadcast / one signal (a waiter may stay blocked for ever: deadlock outcomes)
        new_prog(rec=[False], ncv=1, actors=[[op("lock", 1), op("cvwait", 1, 1), op("unlock", 1)], [op("lock", 1), op("cvwait", 1, 1), op("unlock", 1)],
                                             [op("lock", 1), op("bcast", 1), op("unlock", 1)]], timed=False, gran="mc"),
        # the mutex of the condition is not mutex 1 and a signaler re-locks it (ids of mutex and condvar differ)
        new_prog(rec=[False, False], ncv=1, cap=[0], timed=False, gran="mc",
                 actors=[[op("lock", 2), op("rel", 1), op("cvwait", 1, 2), op("trylock", 1), op("unlock", 2)],
                         [op("acq", 1), op("lock", 2), op("sig", 1), op("unlock", 2), op("lock", 2), op("trylock", 1), op("unlock", 2)]]),
        # a trylock racing with the CONDVAR_ASYNC_LOCK of the owner (ODPOR / SDPOR used not to reverse that race: fixed)
        new_prog(rec=[False], ncv=1, timed=False, gran="mc",
                 actors=[[op("lock", 1), op("unlock", 1), op("trylock", 1, 1), op("unlock", 1)],
                         [op("lock", 1), op("cvwaitfor", 1, 1, 1), op("unlock", 1)]]),
        # actor creation and join (ACTOR_CREATE, ACTOR_JOIN: enabled once the target has terminated)
        new_prog(rec=[False], timed=False, gran="mc", spawn=[False, False, True],
                 actors=[[op("lock", 1), op("create", 3), op("unlock", 1), op("join", 3, 0, -1), op("trylock", 1, 1), op("unlock", 1)],
                         [op("join", 1, 0, -1), op("lock", 1), op("unlock", 1)],
                         [op("lock", 1), op("unlock", 1)]]),
    ]


ALL_KINDS = ("mutex", "sem", "bar", "comm", "cv", "life", "rand")


def programs(ctx, n, max_actors=3, max_ops=4, kinds=None):
    """Regression programs + seeded random ones; kinds=ALL_KINDS adds MC_random (not for the checks that rebuild transitions
    from views: C39, C40, C42)."""
    progs = regression_progs()
    if kinds and "rand" in kinds:
        progs.append(new_prog(rec=[False], timed=False, gran="mc",
                              actors=[[op("rand", 2), op("lock", 1), op("rand", 1), op("unlock", 1)], [op("lock", 1), op("rand", 1), op("unlock", 1)]]))
        # a deadlock reached only after MC_random took its last outcome and another one its first (replay paths "a/2;...;a")
        progs.append(new_prog(rec=[False, False], timed=False, gran="mc",
                              actors=[[op("rand", 2), op("lock", 1), op("rand", 1), op("lock", 2), op("unlock", 2), op("unlock", 1)],
                                      [op("lock", 2), op("lock", 1), op("unlock", 1), op("unlock", 2)]]))
    seen = {vlib.canon_hash(p) for p in progs}
    while len(progs) < n + 3:
        p = gen_mc_prog(ctx.rng, max_actors, max_ops, kinds) if kinds else gen_mc_prog(ctx.rng, max_actors, max_ops)
        h = vlib.canon_hash(p)
        if h not in seen:
            seen.add(h)
            progs.append(p)
    return progs


def reference(ctx, progs, timeout=900):
    r, outs = K.mc_explore(ctx, progs, timeout=timeout, tag="mcref")
    ctx.add_tlc(r)
    if not r.ok:
        raise vlib.InfraError("TLC exploration of the MC-granularity programs failed (%s %s)\n%s" % (r.status, r.what[:200], r.out[-3000:]))
    ctx.cov["reference"] = {"distinct": r.distinct, "generated": r.generated, "wall_s": round(r.wall, 1),
                            "programs_with_deadlock": sum(1 for o in outs if any(x["end"] == "deadlock" for x in o)),
                            "programs_with_several_outcomes": sum(1 for o in outs if len(o) > 1)}
    return outs


def has_rand(p):
    return any(o["op"] == "rand" for a in p["actors"] for o in a)


def explore_all(ctx, progs, reductions, extra_cfg=(), timeout=180):
    """simgrid-mc on every (program, reduction); returns dict (i, red) -> result (see run_simgrid_mc).
    Known findings (KNOWN_FINDINGS.jsonl, C38): on programs with MC_random, ODPOR may not terminate and SDPOR / ODPOR may die on
    'Actor -1 does not exist in state': such a run is reported under its own signature (the known-findings file decides), given a
    short time limit, and left out of the result so that the callers compare what can be compared."""
    jobs = [(i, red) for i in range(len(progs)) for red in reductions]
    drivers.get("kdrv")

    def one(j):
        fragile = has_rand(progs[j[0]]) and j[1] in ("sdpor", "odpor")
        return run_simgrid_mc(ctx, j[0] * 10 + reductions.index(j[1]), progs[j[0]], j[1], extra_cfg, min(timeout, 45) if fragile else timeout)
    res = dict(zip(jobs, vlib.parallel_map(one, jobs, nproc=8)))
    for (i, red), r in list(res.items()):
        died = any(t and t[-1].get("e") == "end" and t[-1].get("how") in ("abort", "signal", "exception") for t in r["traces"])
        if has_rand(progs[i]) and red in ("sdpor", "odpor") and (r["timeout"] or r["crash"] or died):
            how = "crash" if (r["crash"] or died) else "hang"
            ctx.violation("reduction %s on a program with MC_random: %s" %
                          (red, "the checker dies on 'Actor -1 does not exist in state'" if r["crash"] else
                           "an application process aborts during the exploration" if died else "the exploration does not terminate (45 s)"),
                          files={"program.json": json.dumps(progs[i]), "program.txt": K.prog_to_txt(progs[i]), "simgrid-mc.out": r["out"][-4000:]},
                          signature="C38:mc-random:%s:%s" % (red, how), detail=json.dumps(K.prog_brief(progs[i])))
            del res[(i, red)]
    return res


def validate_explorations(ctx, progs, results, _confirm=True):
    """Every execution explored by simgrid-mc must be a behaviour of SgKernel (MC granularity), the checker's view of each
    transition included (C43). Returns (rejections with key, terminal outcome sets per key)."""
    keys, traces = [], []
    for key, r in results.items():
        for t in with_xend(r["traces"]):
            keys.append(key)
            traces.append((key[0], t))
    outc = []
    rej = K.validate_traces(ctx, progs, traces, tag="mcx", outcomes=outc, max_rej=8)
    ctx.cov["validation_cut_short"] = ctx.cov.get("validation_cut_short", False) or len(rej) >= 8
    for x in rej:
        x["key"] = keys[x["index"]]
        x["trace"] = traces[x["index"]][1]
    # simgrid-mc is deterministic: a rejection is reported only if a second exploration of the same program is rejected too
    # (an application process that loses its checker under load leaves a truncated trace)
    if rej and _confirm:
        confirmed = []
        for key in sorted({x["key"] for x in rej}):
            idx, prog, red, extra, to, wcv = results[key]["_args"]
            r2 = run_simgrid_mc(ctx, idx + 500000, prog, red, extra, to, wcv)
            rej2, _ = validate_explorations(ctx, progs, {key: r2}, _confirm=False)
            if rej2:
                confirmed += [x for x in rej if x["key"] == key]
            else:
                ctx.cov["unconfirmed_mc_rejections"] = ctx.cov.get("unconfirmed_mc_rejections", 0) + 1
        rej = confirmed
    term = {}
    for idx, ready, o in outc:
        if not ready:
            term.setdefault(keys[idx], set()).add(okey(o))
    return rej, term
