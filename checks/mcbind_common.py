"""Binding of the model checker (simgrid-mc) to the specification: programs at MC granularity (SgKernel with gran = "mc"),
TLC's own exhaustive exploration as the reduction-free reference, simgrid-mc runs with hook H1 tracing every application
process (one per explored execution), TLC trace validation of every explored execution, outcome-set comparison, counter-example
replay.  Used by C38, C40, C41, C43 (and by C04-C08 for 'every interleaving explored by the model checker')."""
import glob, json, os, re, shutil
import vlib, drivers
import kernel_common as K
from kernel_common import op, new_prog

REDUCTIONS = ["none", "dpor", "sdpor", "odpor"]


def gen_mc_prog(rng, max_actors=3, max_ops=4, kinds=("mutex", "sem", "bar", "comm")):
    """Small program at MC granularity (no time, no condition variables)."""
    na = rng.randint(2, max_actors)
    nm = rng.randint(1, 2) if "mutex" in kinds else 0
    ns = rng.randint(0, 1) if "sem" in kinds else 0
    nb = 1 if "bar" in kinds and rng.random() < 0.3 else 0
    nx = rng.randint(1, 2) if "comm" in kinds and rng.random() < 0.6 else 0
    rec = [rng.random() < 0.3 for _ in range(nm)]
    cap = [rng.choice([0, 1]) for _ in range(ns)]
    bar = [rng.randint(2, na)] * nb
    actors = []
    sends = [0] * max(nx, 1)
    for a in range(na):
        ops, held, nh, pend = [], [0] * nm, 0, []
        for _ in range(rng.randint(1, max_ops)):
            ks = []
            if nm:
                ks += ["lock", "lock", "trylock", "unlock"]
            if ns:
                ks += ["acq", "rel", "rel"]
            if nb:
                ks += ["bar"]
            if nx:
                ks += ["put", "get", "puta", "geta"]
            k = rng.choice(ks)
            if k == "lock":
                m = rng.randrange(nm)
                if held[m] and not rec[m]:
                    continue
                ops.append(op("lock", m + 1))
                held[m] += 1
            elif k == "trylock":
                m = rng.randrange(nm)
                ops += [op("trylock", m + 1, 1), op("unlock", m + 1)]
            elif k == "unlock":
                c = [m for m in range(nm) if held[m]]
                if c:
                    m = rng.choice(c)
                    held[m] -= 1
                    ops.append(op("unlock", m + 1))
            elif k == "acq":
                ops.append(op("acq", 1))
            elif k == "rel":
                ops.append(op("rel", 1))
            elif k == "bar":
                ops.append(op("bar", 1))
            elif k in ("put", "puta"):
                b = rng.randrange(nx)
                ops.append(op(k, b + 1, 0, 1))
                if k == "puta":
                    nh += 1
                    pend.append(nh)
            elif k in ("get", "geta"):
                b = rng.randrange(nx)
                ops.append(op(k, b + 1))
                if k == "geta":
                    nh += 1
                    pend.append(nh)
            if pend and rng.random() < 0.4:
                h = pend.pop(0)
                ops.append(op(rng.choice(["wait", "wait", "test"]), h))
        for m in range(nm):
            while held[m] > 0 and rng.random() < 0.85:
                ops.append(op("unlock", m + 1))
                held[m] -= 1
        for h in pend:
            if rng.random() < 0.7:
                ops.append(op("wait", h))
        actors.append(ops)
    return new_prog(rec=rec, cap=cap, bar=bar, actors=actors, perm=[0] * nx, timed=False, gran="mc")


def run_simgrid_mc(ctx, idx, prog, reduction="odpor", extra_cfg=(), timeout=120):
    """Run simgrid-mc on kdrv+prog. Returns dict: rc, out, traces (list of record lists, one per application process = one
    explored execution, each prefixed by the records of the initial segment), deadlock (bool), replays (list of paths),
    counterexamples (list of list of transition strings), stats."""
    drv = drivers.get("kdrv")
    d = os.path.join(ctx.scratch, "mc%d_%d" % (os.getpid(), idx))
    shutil.rmtree(d, ignore_errors=True)
    os.makedirs(d)
    ptxt = os.path.join(d, "p.txt")
    open(ptxt, "w").write(K.prog_to_txt(prog))
    env = vlib.sg_env({"VERIF_KTRACE": os.path.join(d, "t_%p.ndjson")})
    cmd = [vlib.SIMGRID_MC, drv, ptxt, "--cfg=model-check/reduction:" + reduction, "--log=root.thres:info",
           "--cfg=debug/stacktrace:none", "--log=mc_ct.thres:critical"] + list(extra_cfg)
    rc, out, err = vlib.sh(cmd, timeout=timeout, env=env)
    text = out + err
    files = sorted(glob.glob(os.path.join(d, "t_*.ndjson")), key=lambda f: int(re.search(r"t_(\d+)", f).group(1)))
    recs = []
    for f in files:
        rs = []
        for line in open(f):
            line = line.strip()
            if line:
                try:
                    rs.append(json.loads(line))
                except ValueError:
                    rs.append({"e": "garbled"})
        recs.append(rs)
    master = recs[0] if recs else []
    pidmap = {r["pid"]: r["a"] for r in master if r.get("e") == "born"}

    def clean(rs):
        o = []
        for r in rs:
            if r.get("e") == "born":
                continue
            if r.get("e") in ("handle", "answer"):
                r = dict(r, a=pidmap.get(r["a"], -r["a"]))
            o.append(r)
        return o
    traces = [clean(master) + clean(rs) for rs in recs[1:]]
    res = {"rc": rc, "out": text, "traces": traces, "deadlock": "DEADLOCK DETECTED" in text,
           "assert": "PROPERTY VIOLATED" in text or "property violation" in text.lower(),
           "replays": re.findall(r"model-check/replay:'([0-9;/]*)'", text), "timeout": rc == 124}
    m = re.search(r"(\d+) unique states visited; (\d+) explored traces", text)
    res["explored_traces"] = int(m.group(2)) if m else None
    # counter-example blocks
    ces, cur = [], None
    for line in text.splitlines():
        if "Counter-example execution trace" in line:
            cur = []
            ces.append(cur)
        elif cur is not None and re.search(r"Actor \d+ in", line):
            cur.append(line.split("] ", 1)[-1].strip())
        elif cur is not None:
            cur = None
    res["counterexamples"] = ces
    shutil.rmtree(d, ignore_errors=True)
    return res


def with_xend(traces):
    return [t + [{"e": "xend", "run": 0}] for t in traces]


def replay_path(ctx, idx, prog, path, timeout=30):
    """Re-run the application alone with --cfg=model-check/replay:<path>; returns (records, stdout)."""
    drv = drivers.get("kdrv")
    d = os.path.join(ctx.scratch, "rp%d_%d" % (os.getpid(), idx))
    shutil.rmtree(d, ignore_errors=True)
    os.makedirs(d)
    ptxt = os.path.join(d, "p.txt")
    open(ptxt, "w").write(K.prog_to_txt(prog))
    tr = os.path.join(d, "t.ndjson")
    rc, out, err = vlib.sh([drv, ptxt, "--cfg=model-check/replay:" + path, "--log=root.thres:info", "--cfg=debug/stacktrace:none"],
                           timeout=timeout, env=vlib.sg_env({"VERIF_KTRACE": tr}))
    recs = []
    if os.path.exists(tr):
        for line in open(tr):
            if line.strip():
                try:
                    recs.append(json.loads(line))
                except ValueError:
                    pass
    pidmap = {r["pid"]: r["a"] for r in recs if r.get("e") == "born"}
    o = []
    for r in recs:
        if r.get("e") == "born":
            continue
        if r.get("e") in ("handle", "answer"):
            r = dict(r, a=pidmap.get(r["a"], -r["a"]))
        o.append(r)
    shutil.rmtree(d, ignore_errors=True)
    return o, out + err, rc
