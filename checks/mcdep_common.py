"""Shared code of C39 (declared-independent transitions commute) and C40 (ODPOR explores each Mazurkiewicz class once):
the checker's transitions, as printed by the specification (SgKernelCommute views) or as logged by hook H4 during real
explorations, are rebuilt as REAL Transition objects by harness/mc_unit_driver (mc::deserialize_transition) to obtain the
REAL dispatch_depends(); the executions explored by simgrid-mc are rebuilt with every step carrying the checker's view."""
import json, os, re
import vlib
import kernel_common as K
import mcbind_common as M
import mc_common as MC

TYPE_OF = {"iSend": "COMM_ASYNC_SEND", "iRecv": "COMM_ASYNC_RECV", "WaitComm": "COMM_WAIT", "TestComm": "COMM_TEST",
           "ActorSleep": "ACTOR_SLEEP", "ActorJoin": "ACTOR_JOIN", "ActorCreate": "ACTOR_CREATE"}

# the harness of the model-checker binding keeps only part of the checker's record (parse_transition); C39/C40 also need
# the communication identifier and the raw text: wrap it (mcbind_common.py itself is not modified)
_orig_parse = M.parse_transition


def _parse_with_comm(tr, pidmap):
    d = _orig_parse(tr, pidmap)
    d["ctr"] = tr
    m = re.search(r"comm=(\d+)", tr)
    if m:
        d["ccomm"] = int(m.group(1))
    m = re.search(r"granted: (yes|no)", tr)
    if m:
        d["cgranted"] = 1 if m.group(1) == "yes" else 0
    m = re.search(r"timeout: (yes|none)", tr)
    if m:
        d["ctimeout"] = 1 if m.group(1) == "yes" else 0
    return d


M.parse_transition = _parse_with_comm


def desc_of_view(v):
    """Token line (see harness/mc_trans.hpp) of a transition described by a view record: t (type as the checker prints it),
    a (actor), o (object), c (communication), f / d (ends, -1 = unknown), w (owner)."""
    t = TYPE_OF.get(v["t"], v["t"])
    a = v["a"]
    if t.startswith("MUTEX_"):
        f = [v["o"], v.get("w", -1)]
    elif t.startswith("SEM_"):
        f = [v["o"], v.get("g", 0), v.get("cap", 0)]
    elif t.startswith("BARRIER_"):
        f = [v["o"]]
    elif t in ("COMM_ASYNC_SEND", "COMM_ASYNC_RECV"):
        f = [v["c"], v["o"], 0]
    elif t == "COMM_TEST":
        f = [v["c"], v["f"], v["d"], v["o"]]
    elif t == "COMM_WAIT":
        f = [0, v["c"], v["f"], v["d"], v["o"]]
    elif t == "ACTOR_SLEEP":
        f = []
    elif t == "ACTOR_JOIN":
        f = [v["o"], 0]         # target, no timeout
    elif t == "ACTOR_CREATE":
        f = [v["o"]]            # child
    elif t == "CONDVAR_ASYNC_LOCK":
        f = [v["o"], v.get("m", 0)]
    elif t == "CONDVAR_WAIT":
        f = [v["o"], v.get("m", 0), v.get("g", 0), v.get("to", 0)]
    elif t in ("CONDVAR_SIGNAL", "CONDVAR_BROADCAST"):
        f = [v["o"]]
    else:
        raise vlib.InfraError("transition type without a builder: %s" % t)
    return "%d 0 %s %s" % (a, t, " ".join(str(int(x)) for x in f))


def view_of_step(s):
    """View record of a step of a real execution (checker's record merged in the handle line by the harness)."""
    cv = s["ctype"].startswith("CONDVAR_")
    life = s["ctype"] in ("ActorJoin", "ActorCreate")
    return {"t": s["ctype"], "a": s["ca"], "o": s.get("ctgt", 0) if life else s.get("ccond", 0) if cv else s.get("cobj", 0), "c": s.get("ccomm", 0),
            "f": _end(s.get("cfrom", 0)), "d": _end(s.get("cto", 0)), "w": _end(s.get("cown", 0)), "g": s.get("cgranted", 0),
            "cap": s.get("ccap", 0), "m": s.get("cobj", 0) if s["ctype"] in ("CONDVAR_ASYNC_LOCK", "CONDVAR_WAIT") else 0,
            "to": s.get("ctimeout", 0)}


def _end(x):
    return x if x and x > 0 else -1


def real_depends(ctx, pairs, tag):
    """pairs: list of (desc1, desc2). Returns list of (d12, d21, s1, s2) from the real Transition::dispatch_depends."""
    sp = os.path.join(ctx.scratch, tag + "_pairs.txt")
    with open(sp, "w") as f:
        for i, (a, b) in enumerate(pairs):
            f.write("Y %d\nT %s\nT %s\n" % (i, a, b))
    rc, recs, err = MC.run_mc_unit_driver(ctx, sp)
    if rc != 0 or len(recs) != len(pairs):
        raise vlib.InfraError("mc_unit_driver failed on the pair queries (rc=%s, %d/%d): %s" % (rc, len(recs), len(pairs), err[-1500:]))
    return [(r["d12"], r["d21"], r["s1"], r["s2"]) for r in recs]


def condition(v1, v2):
    """The distinguishing condition of a pair, for signatures of known findings."""
    c = ["same-object" if v1["o"] == v2["o"] else "other-object"]
    if v1["c"] and v1["c"] == v2["c"]:
        c.append("same-comm")
    for v in (v1, v2):
        if v["t"] in ("TestComm", "WaitComm", "COMM_TEST", "COMM_WAIT"):
            c.append("sender-" + ("unknown" if v["f"] < 0 else "known"))
            c.append("receiver-" + ("unknown" if v["d"] < 0 else "known"))
    return ",".join(c)


# ------------------------------------------------------------------------------------------ real explorations

# sanity filter only: the checker's record attached to a step must be a transition of the operation the actor issued
# (a few application processes are forked from an intermediate state and their trace cannot be aligned with hook H4)
OPTYPES = {"lock": ("MUTEX_ASYNC_LOCK", "MUTEX_WAIT"), "trylock": ("MUTEX_TRYLOCK",), "unlock": ("MUTEX_UNLOCK",),
           "acq": ("SEM_ASYNC_LOCK", "SEM_WAIT"), "rel": ("SEM_UNLOCK",), "bar": ("BARRIER_ASYNC_LOCK", "BARRIER_WAIT"),
           "put": ("iSend", "WaitComm"), "get": ("iRecv", "WaitComm"), "puta": ("iSend",), "putd": ("iSend",),
           "geta": ("iRecv",), "wait": ("WaitComm",), "test": ("TestComm",), "sleep": ("ActorSleep",),
           "cvwait": ("CONDVAR_ASYNC_LOCK", "CONDVAR_WAIT", "MUTEX_WAIT"), "cvwaitfor": ("CONDVAR_ASYNC_LOCK", "CONDVAR_WAIT", "MUTEX_WAIT"),
           "sig": ("CONDVAR_SIGNAL",), "bcast": ("CONDVAR_BROADCAST",), "join": ("ActorJoin",), "create": ("ActorCreate",)}

def executions(prog, res, indices=False):
    """The executions explored by one simgrid-mc run (result of mcbind_common.run_simgrid_mc): one list of steps per
    application process, every step carrying the checker's view (the steps of a replayed prefix take the view recorded when
    the same path of (actor, times_considered) was first executed); the communication of a TestComm, which the checker's
    text does not show, is the one of the asynchronous operation of the same actor the program tests.
    Returns (executions, number of executions dropped because a view was missing); with indices=True the executions
    are (index of the trace in res["traces"], steps)."""
    by_path = {}
    raw = []

    def fits(s):          # the checker's record is the transition of the sub-step the actor is at in its operation
        ts = OPTYPES.get(s["op"], ())
        return s.get("ca") == s["a"] and 0 < s["sub"] <= len(ts) and s.get("ctype") == ts[s["sub"] - 1]
    for t in res["traces"]:
        steps, cur, nsub = [], {}, {}
        path = ()
        for r in t:
            if r.get("e") == "issue":
                cur[r["a"]] = (r["k"], r["op"])
            elif r.get("e") == "handle":
                s = dict(r)
                s["k"], s["op"] = cur.get(r["a"], (0, "?"))
                nsub[(r["a"], s["k"])] = nsub.get((r["a"], s["k"]), 0) + 1
                s["sub"] = nsub[(r["a"], s["k"])]
                path = path + ((r["a"], r.get("tc", 0)),)
                s["path"] = path
                if "ctype" in s and "cmis" not in s and fits(s):
                    by_path[path] = {k: v for k, v in s.items() if k.startswith("c")}
                steps.append(s)
        raw.append(steps)
    out, dropped = [], 0
    for ti, steps in enumerate(raw):
        ok = True
        for s in steps:
            if "ctype" not in s or not fits(s):
                v = by_path.get(s["path"])
                if v is None:
                    ok = False
                    break
                for k in [k for k in s if k.startswith("c")]:
                    del s[k]
                s.update(v)
            if not fits(s):
                ok = False
                break
        if not ok:
            dropped += 1
            continue
        asyncs = {}
        for s in steps:
            if s["ctype"] in ("iSend", "iRecv") and s["op"] in ("puta", "geta"):
                asyncs.setdefault(s["a"], []).append(s.get("ccomm", 0))
            if s["ctype"] == "TestComm" and "ccomm" not in s:
                o = prog["actors"][s["a"] - 1][s["k"] - 1]["o"]
                lst = asyncs.get(s["a"], [])
                s["ccomm"] = lst[o - 1] if 0 < o <= len(lst) else 0
        out.append((ti, steps) if indices else steps)
    return out, dropped
