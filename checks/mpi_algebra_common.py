"""Shared code of the MPI "algebra" checks C30 (datatypes), C31 (reduction operators), C32 (groups / communicators),
C33 (Cartesian topologies).  Shape G of CONTRIBUTING_CHECKS.md:

  TLC evaluates the specification (spec/mpi/Mpi{Group,Cart,Op,Type}.tla through the generator modules *Gen.tla):
  exhaustive small scope (all initial states of SpecSmall) + seeded sample (SpecSim under -simulate -seed) and prints
  every case *with the results the specification defines* as one JSON object per line;
  the driver harness/mpi_algebra.cpp replays the cases into SMPI under smpirun (every rank executes every case and
  prints what it obtained); Python only compares the two.

A batch survives crashes of the code under test: cases are separated by barriers and every rank prints an `end` line
per case, so the first incomplete case of a dead run is the one that killed it; it is recorded as crashed (after a
solo re-run that must die again) and the rest of the batch is re-run."""
import json, os, re, threading, time
import vlib, drivers

MSPEC = os.path.join(vlib.SPEC, "mpi")
DRIVERS = {"mpi_algebra": (["mpi_algebra.cpp"], "smpi", [])}
drivers.register(DRIVERS)
PLATFORM = os.path.join(vlib.REPO, "examples/platforms/small_platform.xml")
HOSTS = ["Tremblay", "Jupiter", "Fafard", "Ginette", "Bourassa", "Jacquelin", "Boivin"]
U, PN = -901, -902      # MPI_UNDEFINED / MPI_PROC_NULL in cases and results (MpiGroup!Undefined, ProcNull)
_lock = threading.Lock()
# several JVMs run side by side: keep each of them small (GC and JIT threads), TLC itself runs with one worker
JVM_ENV = {"JAVA_TOOL_OPTIONS": "-XX:ParallelGCThreads=2 -XX:CICompilerCount=2 -Xss64m"}


# ------------------------------------------------------------------------------------------------ TLC as case generator

def write_cfg(ctx, name, spec, constants, invariants=("Laws", "Out")):
    p = os.path.join(ctx.scratch, name)
    with open(p, "w") as f:
        f.write("SPECIFICATION %s\n" % spec)
        if constants:
            f.write("CONSTANTS\n")
            for k, v in constants.items():
                f.write("  %s = %s\n" % (k, "TRUE" if v is True else "FALSE" if v is False else v))
        for i in invariants:
            f.write("INVARIANT %s\n" % i)
    return p


def tlc_cases(ctx, module, jobs, timeout=900):
    """jobs: list of dicts {cfg, simulate:(depth, seed) | None, tag}. Runs them in parallel (each TLC computes its
    cases sequentially), returns the list of cases (dicts, in job order then print order) and adds the TLC statistics
    to the evidence. Any TLC failure (including a violated law of the specification) is an infrastructure error."""
    mod = os.path.join(MSPEC, module)

    def one(job):
        sim = job.get("simulate")
        env = dict(JVM_ENV)
        env.update(job.get("env") or {})
        r = vlib.tlc(mod, cfg=job["cfg"], workers=1, timeout=timeout,
                     simulate=("num=1" if sim else None), depth=(sim[0] if sim else None),
                     seed=(sim[1] if sim else None), xmx=job.get("xmx", "3g"), env=env)
        if sim:   # -simulate prints its own statistics line
            m = re.search(r"The number of states generated: (\d+)", r.out)
            if m:
                r.generated = r.distinct = int(m.group(1))
        return r

    res = vlib.parallel_map(one, jobs, nproc=min(len(jobs), max(2, vlib.NCPU // 2)))
    cases = []
    for job, r in zip(jobs, res):
        if not r.ok:
            raise vlib.InfraError("TLC failed on %s (%s): %s %s\n%s" % (module, job.get("tag", job["cfg"]), r.status,
                                                                      r.what[:300], "\n".join(
                                                                          l for l in r.out.splitlines() if "CASE" not in l)[-3000:]))
        n = 0
        for line in r.prints:
            if line.startswith('<<"CASE"'):
                # <<"CASE", "json with \" escapes">>
                m = re.match(r'<<"CASE", (".*")>>$', line)
                if not m:
                    raise vlib.InfraError("unparsable CASE line: " + line[:300])
                try:
                    cases.append(json.loads(json.loads(m.group(1))))
                except ValueError as e:
                    raise vlib.InfraError("unparsable CASE line (%s): %s" % (e, line[:300]))
                n += 1
        with _lock:
            ctx.add_tlc(r)
            ctx.cov.setdefault("tlc_runs", []).append({"job": job.get("tag", ""), "cases": n, "distinct": r.distinct,
                                                       "generated": r.generated, "wall_s": round(r.wall, 1),
                                                       "mode": "simulate seed=%s depth=%s" % (job["simulate"][1], job["simulate"][0])
                                                       if job.get("simulate") else "exhaustive"})
        if n == 0:
            raise vlib.InfraError("TLC produced no case for %s (%s)\n%s" % (module, job.get("tag", ""), r.out[-2000:]))
    return cases


def pipeline(ctx, module, jobs, process, par=6, timeout=900):
    """Generate / replay / judge slice by slice: each TLC job's cases are handed to process(cases) as soon as they exist and are
    dropped afterwards (the expected values of a thorough run do not fit in memory all at once). process must be thread-safe."""
    def one(job):
        process(tlc_cases(ctx, module, [job], timeout=timeout))
        return None
    cap = os.environ.get("VERIF_TLC_WORKERS")        # each TLC process runs with one worker: the cap is on concurrent processes
    if cap and cap.isdigit():
        par = min(par, max(1, int(cap)))
    vlib.parallel_map(one, jobs, nproc=max(1, min(par, len(jobs))))


class Dedup:
    """thread-safe 'seen' set over canonical hashes"""

    def __init__(self):
        self.seen = set()

    def fresh(self, key):
        h = vlib.canon_hash(key)
        with _lock:
            if h in self.seen:
                return False
            self.seen.add(h)
            return True


def tlc_validate(ctx, module, cfg, env, timeout=600):
    """Run a validation module (implementation results fed back to the specification); returns its printed VERDICT records."""
    e = dict(JVM_ENV)
    e.update(env or {})
    r = vlib.tlc(os.path.join(MSPEC, module), cfg=cfg, env=e, workers=1, timeout=timeout, xmx="3g")
    if not r.ok:
        raise vlib.InfraError("TLC validation %s failed: %s %s\n%s" % (module, r.status, r.what[:300], r.out[-3000:]))
    ctx.add_tlc(r)
    out = []
    for line in r.prints:
        m = re.match(r'<<"VERDICT", (".*")>>$', line)
        if m:
            out.append(json.loads(json.loads(m.group(1))))
    return out


# ------------------------------------------------------------------------------------------------ running SMPI

def _lst(a):
    return [len(a)] + list(a)


def hostfile(ctx, np):
    p = os.path.join(ctx.scratch, "hosts%d" % np)
    if not os.path.exists(p):
        with open(p + ".tmp%d" % threading.get_ident(), "w") as f:
            for i in range(np):
                f.write(HOSTS[i % len(HOSTS)] + "\n")
        os.replace(p + ".tmp%d" % threading.get_ident(), p)
    return p


_seq = [0]


def _smpirun(ctx, np, lines, timeout):
    """One smpirun over the given case lines. Returns (rc, records per case id: {rank: [records]}, crash record or None)."""
    drv = drivers.get("mpi_algebra")
    with _lock:
        _seq[0] += 1
        n = _seq[0]
    d = os.path.join(ctx.scratch, "run%d" % n)
    os.makedirs(d, exist_ok=True)
    cf = os.path.join(d, "cases.txt")
    with open(cf, "w") as f:
        f.write("\n".join(lines) + "\n")
    cmd = [vlib.SMPIRUN, "-no-privatize", "-np", str(np), "-platform", PLATFORM, "-hostfile", hostfile(ctx, np),
           "--cfg=smpi/host-speed:1f", "--cfg=smpi/tmpdir:" + d, "--log=root.thres:critical",
           "--cfg=debug/stacktrace:none", drv, cf]
    rc, out, err = vlib.sh(cmd, timeout=timeout, env=vlib.sg_env(), cwd=d)
    recs = {}
    crash = None
    for line in out.splitlines():
        if not line.startswith("{"):
            continue
        try:
            j = json.loads(line)
        except ValueError:
            continue            # a line cut by the death of the process
        if "crash" in j:
            crash = j
            continue
        if "c" in j and "r" in j:
            recs.setdefault(j["c"], {}).setdefault(j["r"], []).append(j)
    import shutil
    shutil.rmtree(d, ignore_errors=True)
    return rc, recs, crash, (out[-1500:] + "\n" + err[-1500:])


def _complete(recs, cid, np):
    rr = recs.get(cid, {})
    return all(any("end" in x for x in rr.get(r, [])) for r in range(np))


def run_cases(ctx, np, items, timeout=300, chunk=400):
    """items: list of (case id, token line). Returns {case id: {"ranks": {rank: [records]}, "crash": None | {...}}}.
    Crashing / hanging cases are isolated (see module docstring)."""
    results = {}

    def do_chunk(ch):
        out = {}
        pending = list(ch)
        guard = 0
        while pending:
            guard += 1
            if guard > len(ch) + 5:
                raise vlib.InfraError("run_cases does not make progress")
            rc, recs, crash, tail = _smpirun(ctx, np, [l for _, l in pending], timeout)
            bad = None
            for k, (cid, _) in enumerate(pending):
                if _complete(recs, cid, np):
                    out[cid] = {"ranks": recs.get(cid, {}), "crash": None}
                else:
                    bad = k
                    break
            if bad is None:
                if rc != 0:
                    with _lock:
                        ctx.cov["nonzero_exit_after_all_cases"] = ctx.cov.get("nonzero_exit_after_all_cases", 0) + 1
                break
            cid, line = pending[bad]
            if rc == 0:
                raise vlib.InfraError("smpirun exited 0 but case %s is incomplete\n%s" % (cid, tail))
            # the first incomplete case: run it alone; it must fail again to be recorded as a crash
            rc2, recs2, crash2, tail2 = _smpirun(ctx, np, [line], timeout)
            if _complete(recs2, cid, np) and rc2 == 0:
                out[cid] = {"ranks": recs2.get(cid, {}), "crash": None}
                with _lock:
                    ctx.cov["unconfirmed_crashes"] = ctx.cov.get("unconfirmed_crashes", 0) + 1
            else:
                how = "hang" if rc2 == 124 else "signal %s" % (crash2 or {}).get("crash") if crash2 else "exit %s" % rc2
                out[cid] = {"ranks": recs2.get(cid, {}), "crash": {"rc": rc2, "how": how, "stage": (crash2 or {}).get("stage"),
                                                                  "tail": tail2[-600:]}}
            pending = pending[bad + 1:]
        return out

    chunks = [items[i:i + chunk] for i in range(0, len(items), chunk)]
    for o in vlib.parallel_map(do_chunk, chunks, nproc=max(2, vlib.NCPU // (1 if np <= 16 else 2))):
        results.update(o)
    return results


def run_all(ctx, cases, tokens_of, np_of, timeout=300, chunk=400, risky=None, chunk_for=None):
    """cases: list of dicts (each gets an "id"). Groups them by world size, runs them, returns {id: result}.
    risky(case) -> True puts the case in a run of its own (a crash then costs one run only); chunk_for(case) -> cases per smpirun."""
    by_np = {}
    for i, c in enumerate(cases):
        c["id"] = i
        by_np.setdefault((np_of(c), chunk_for(c) if chunk_for else chunk), []).append(c)
    results = {}
    t0 = time.time()
    for np, ch in sorted(by_np):
        group = by_np[(np, ch)]
        normal = [(c["id"], "%d %s" % (c["id"], tokens_of(c))) for c in group if not (risky and risky(c))]
        solo = [(c["id"], "%d %s" % (c["id"], tokens_of(c))) for c in group if risky and risky(c)]
        if normal:
            results.update(run_cases(ctx, np, normal, timeout=timeout, chunk=ch))
        if solo:
            results.update(run_cases(ctx, np, solo, timeout=timeout, chunk=1))
    with _lock:
        ctx.cov["smpi_cpu_wall_s"] = round(ctx.cov.get("smpi_cpu_wall_s", 0) + time.time() - t0, 1)
    return results


def rerun(ctx, case, tokens_of, np_of, timeout=120):
    """Re-run one case alone (confirmation of a mismatch)."""
    return run_cases(ctx, np_of(case), [(case["id"], "%d %s" % (case["id"], tokens_of(case)))], timeout=timeout, chunk=1)[case["id"]]


# ------------------------------------------------------------------------------------------------ reporting

class Reporter:
    """Collects mismatches (case, signature, what); confirms them by a solo re-run; reports at most `per_sig` full
    violations per signature (all of them are counted)."""

    def __init__(self, ctx, tokens_of, np_of, judge, per_sig=3):
        self.ctx, self.tokens_of, self.np_of, self.judge, self.per_sig = ctx, tokens_of, np_of, judge, per_sig
        self.found = {}      # signature -> list of (case, what, detail)
        self.counts = {}

    def add(self, case, signature, what, detail=None):
        with _lock:
            lst = self.found.setdefault(signature, [])
            self.counts[signature] = self.counts.get(signature, 0) + 1
            if len(lst) < 12:          # keep a few complete cases per signature, count all
                lst.append((case, what, detail))

    def flush(self):
        ctx = self.ctx
        summary = {}
        for sig, lst in sorted(self.found.items()):
            summary[sig] = self.counts.get(sig, len(lst))
            confirmed = 0
            for case, what, detail in lst[:max(self.per_sig, 1) * 3]:
                if confirmed >= self.per_sig:
                    break
                # confirmation: the same case, alone, must produce the same signature again
                res = rerun(ctx, case, self.tokens_of, self.np_of)
                again = [s for s, _, _ in self.judge(case, res)]
                if sig not in again:
                    ctx.cov["unconfirmed_mismatches"] = ctx.cov.get("unconfirmed_mismatches", 0) + 1
                    continue
                confirmed += 1
                inp = {k: v for k, v in case.items() if k != "id"}
                ctx.violation("%s (%d case(s) with this signature in this run)" % (what, self.counts.get(sig, len(lst))),
                              files={"case.json": json.dumps(inp, indent=1),
                                     "case_tokens.txt": "%d %s\n" % (case["id"], self.tokens_of(case)),
                                     "howto.txt": "smpirun -np %d -platform %s -hostfile <hosts> .build/harness/mpi_algebra case_tokens.txt\n"
                                                  "expected values in case.json come from TLC (spec/mpi)\n" % (self.np_of(case), PLATFORM)},
                              signature=sig, detail=detail)
        ctx.cov["mismatch_signatures"] = summary
        return summary
