"""Shared code of C28 (MPI point-to-point matching): program representation and generators, the runner of the real SMPI
(driver mpi_p2p under smpirun), TLC exploration of MpiP2P (M), TLC trace validation (T), outcome comparison."""
import itertools, json, os, re
import vlib, drivers

MSPEC = os.path.join(vlib.SPEC, "mpi")
PLATFORM = os.path.join(vlib.REPO, "examples/platforms/small_platform.xml")
HOSTS = ["Tremblay", "Jupiter", "Fafard", "Ginette", "Bourassa", "Jacquelin", "Boivin"]
ANY = -1

# threshold configurations: name -> (smpi/async-small-thresh, smpi/send-is-detached-thresh, message-size palette)
# palettes hold sizes below / at / above each threshold so that eager, detached and rendez-vous sends all occur
CONFIGS = {
    "default": (0, 65536, [0, 4, 8, 32, 65532, 65536, 70000]),
    "low": (16, 64, [0, 4, 12, 16, 32, 60, 64, 128]),
    "eqlow": (32, 32, [0, 4, 28, 32, 36, 96]),
    "rdv": (0, 0, [0, 4, 8, 64]),
}


def op(name, c=1, peer=0, tag=0, n=0, r=1, peer2=0, tag2=0, n2=0, rs=()):
    return {"op": name, "c": c, "peer": peer, "tag": tag, "n": n, "r": r, "peer2": peer2, "tag2": tag2, "n2": n2,
            "rs": list(rs)}


def new_prog(np_, ranks, comms=None, cfg="default", nslots=None, commspec=None):
    eager, detach, _ = CONFIGS[cfg]
    comms = comms or [list(range(1, np_ + 1))]
    used = [o["r"] for a in ranks for o in a] + [x for a in ranks for o in a for x in o["rs"]]
    return {"np": np_, "eager": eager, "detach": detach, "cfg": cfg, "nslots": nslots or max([1] + used),
            "comms": comms, "commspec": commspec or [], "ranks": [list(a) for a in ranks]}


def with_cfg(p, cfg):
    q = json.loads(json.dumps(p))
    q["eager"], q["detach"], _ = CONFIGS[cfg]
    q["cfg"] = cfg
    return q


def prog_to_txt(p):
    out = ["@np %d" % p["np"], "@slots %d" % p["nslots"]]
    for cs in p["commspec"]:
        if cs["kind"] == "dup":
            out.append("@comm dup")
        else:
            out.append("@comm split " + " ".join(str(x) for x in cs["color"]) + " " + " ".join(str(x) for x in cs["key"]))
    for a, ops in enumerate(p["ranks"]):
        out.append("@rank %d" % a)
        for o in ops:
            out.append("%s %d %d %d %d %d %d %d %d %d %s" % (o["op"], o["c"], o["peer"], o["tag"], o["n"], o["r"], o["peer2"],
                                                          o["tag2"], o["n2"], len(o["rs"]), " ".join(map(str, o["rs"]))))
    out.append("@end")
    return "\n".join(out) + "\n"


def prog_brief(p):
    def f(o):
        n = o["op"]
        w = lambda x: "*" if x == ANY else str(x)
        if n in ("send", "ssend", "bsend", "isend", "issend"):
            s = "%s(c%d,->%d,t%d,%dB" % (n, o["c"], o["peer"], o["tag"], o["n"])
            return s + (",r%d)" % o["r"] if n[0] == "i" else ")")
        if n in ("recv", "irecv"):
            s = "%s(c%d,<-%s,t%s,%dB" % (n, o["c"], w(o["peer"]), w(o["tag"]), o["n"])
            return s + (",r%d)" % o["r"] if n[0] == "i" else ")")
        if n == "sendrecv":
            return "sendrecv(c%d,->%d,t%d,%dB,<-%s,t%s,%dB)" % (o["c"], o["peer"], o["tag"], o["n"], w(o["peer2"]),
                                                             w(o["tag2"]), o["n2"])
        if n in ("probe", "iprobe"):
            return "%s(c%d,<-%s,t%s)" % (n, o["c"], w(o["peer"]), w(o["tag"]))
        if n in ("wait", "test"):
            return "%s(r%d)" % (n, o["r"])
        return "waitall(%s)" % ",".join("r%d" % x for x in o["rs"])
    return {"np": p["np"], "cfg": p["cfg"], "eager": p["eager"], "detach": p["detach"], "comms": p["comms"],
            "ranks": [" ".join(f(o) for o in a) for a in p["ranks"]]}


def nontrivial(p):
    """a matching choice exists: some receive is a wildcard, or two sends to one rank on one communicator could both
    satisfy one receive, or two communicators carry equal tags to the same rank"""
    sends = []
    for a, ops in enumerate(p["ranks"]):
        for o in ops:
            if o["op"] in ("send", "ssend", "bsend", "isend", "issend", "sendrecv"):
                sends.append((o["c"], a + 1, p["comms"][o["c"] - 1][o["peer"]], o["tag"]))
    for a, ops in enumerate(p["ranks"]):
        for o in ops:
            if o["op"] in ("recv", "irecv", "sendrecv", "probe", "iprobe"):
                peer, tag = (o["peer2"], o["tag2"]) if o["op"] == "sendrecv" else (o["peer"], o["tag"])
                if peer == ANY or tag == ANY:
                    return True
                cand = [s for s in sends if s[2] == a + 1 and s[3] == tag]
                if len(cand) >= 2:
                    return True
    return False


# ------------------------------------------------------------------------------------------- communicators

def gen_comms(rng, np_, want=None):
    """world + optionally a dup and a split; returns (comms as world-rank lists, commspec for the driver)"""
    comms = [list(range(1, np_ + 1))]
    spec = []
    want = want if want is not None else rng.choice([0, 0, 1, 2])
    if want >= 1:
        comms.append(list(range(1, np_ + 1)))
        spec.append({"kind": "dup"})
    if want >= 2 and np_ >= 2:
        # one colour gets >= 2 members (the communicator of this program), the rest is MPI_UNDEFINED or another colour
        k = rng.randint(2, np_)
        members = sorted(rng.sample(range(np_), k))
        keys = [rng.randint(0, 3) for _ in range(np_)]
        color = [0 if i in members else rng.choice([-1, 1]) for i in range(np_)]
        order = sorted(members, key=lambda i: (keys[i], i))
        comms.append([i + 1 for i in order])
        spec.append({"kind": "split", "color": color, "key": keys})
    return comms, spec


# ------------------------------------------------------------------------------------------- generators

SEND_KINDS = ["send", "send", "isend", "isend", "ssend", "issend", "bsend"]


class _Builder:
    def __init__(self, np_, max_ops):
        self.ops = [[] for _ in range(np_)]
        self.open = [[] for _ in range(np_)]   # open request slots per rank
        self.next_slot = [1] * np_
        self.max_ops = max_ops

    def room(self, a, need):
        # every open request still needs (at most) one closing operation: one waitall closes them all
        return len(self.ops[a]) + need + (1 if self.open[a] else 0) <= self.max_ops

    def slot(self, a):
        s = self.next_slot[a]
        self.next_slot[a] += 1
        self.open[a].append(s)
        return s

    def close(self, a, rng):
        while self.open[a]:
            if len(self.open[a]) >= 2 and (rng.random() < 0.6 or len(self.ops[a]) + len(self.open[a]) > self.max_ops):
                self.ops[a].append(op("waitall", rs=list(self.open[a])))
                self.open[a] = []
            else:
                s = self.open[a].pop(rng.randrange(len(self.open[a])))
                self.ops[a].append(op("wait", r=s))


def gen_paired(rng, cfg, np_=None, max_ops=8, max_events=10, comms_want=None, wild=0.3, trunc=0.06):
    """Events (sender, receiver, communicator, tag, size) in one global order; the send is appended to the sender's
    list and the receive to the receiver's list in that order, so that without wildcards every blocking operation
    finds its partner (deadlock-free by construction); wildcards, equal tags and probes make the matching a choice."""
    np_ = np_ or rng.randint(2, 6)
    _, _, palette = CONFIGS[cfg]
    comms, cspec = gen_comms(rng, np_, comms_want)
    b = _Builder(np_, max_ops)
    ntags = rng.choice([1, 2, 2, 3])
    for _ in range(rng.randint(2, max_events)):
        c = rng.randrange(len(comms)) + 1
        mem = comms[c - 1]
        if len(mem) < 2:
            continue
        si, di = rng.sample(range(len(mem)), 2)
        s, d = mem[si] - 1, mem[di] - 1
        tag = rng.randrange(ntags)
        n = rng.choice(palette)
        sk = rng.choice(SEND_KINDS)
        rk = rng.choice(["recv", "recv", "irecv"])
        if rng.random() < 0.08 and s != d:
            # a sendrecv exchange between s and d
            if not (b.room(s, 1) and b.room(d, 1)):
                continue
            n2 = rng.choice(palette)
            b.ops[s].append(op("sendrecv", c, di, tag, n, 1, di, tag, max(n2, 4)))
            b.ops[d].append(op("sendrecv", c, si, tag, n2, 1, si, tag, max(n, 4)))
            continue
        need_s = 1
        pre = None
        if rng.random() < 0.15:
            pre = rng.choice(["probe", "iprobe", "iprobe"])
        need_d = 1 + (1 if pre else 0)
        if not (b.room(s, need_s + (1 if sk[0] == "i" and not b.open[s] else 0)) and
                b.room(d, need_d + (1 if rk[0] == "i" and not b.open[d] else 0))):
            continue
        # receive side: wildcards, buffer size (mostly large enough; sometimes exactly n; rarely too small)
        rsrc = ANY if rng.random() < wild else si
        rtag = ANY if rng.random() < wild else tag
        u = rng.random()
        if u < trunc and n > 0:
            rn = rng.choice([x for x in palette if x < n])
        elif u < 0.5:
            rn = n
        else:
            rn = rng.choice([x for x in palette if x >= n])
        if sk[0] == "i":
            b.ops[s].append(op(sk, c, di, tag, n, b.slot(s)))
        else:
            b.ops[s].append(op(sk, c, di, tag, n))
        if pre:
            b.ops[d].append(op(pre, c, rsrc, rtag))
        if rk[0] == "i":
            b.ops[d].append(op(rk, c, rsrc, rtag, rn, b.slot(d)))
        else:
            b.ops[d].append(op(rk, c, rsrc, rtag, rn))
        # now and then complete or test an open request
        for a in (s, d):
            if b.open[a] and rng.random() < 0.3 and b.room(a, 1):
                if rng.random() < 0.3:
                    b.ops[a].append(op("test", r=rng.choice(b.open[a])))
                else:
                    x = b.open[a].pop(rng.randrange(len(b.open[a])))
                    b.ops[a].append(op("wait", r=x))
    for a in range(np_):
        b.close(a, rng)
    return new_prog(np_, b.ops, comms, cfg, commspec=cspec)


def gen_free(rng, cfg, np_=None, max_ops=5):
    """Unconstrained operation lists: most have deadlock among their outcomes (the specification predicts it)."""
    np_ = np_ or rng.randint(2, 4)
    _, _, palette = CONFIGS[cfg]
    comms, cspec = gen_comms(rng, np_, rng.choice([0, 0, 1]))
    b = _Builder(np_, max_ops)
    for a in range(np_):
        for _ in range(rng.randint(1, max_ops)):
            c = rng.randrange(len(comms)) + 1
            mem = comms[c - 1]
            if (a + 1) not in mem or len(mem) < 2:
                continue
            me = mem.index(a + 1)
            peer = rng.choice([i for i in range(len(mem)) if i != me])
            tag = rng.randrange(2)
            n = rng.choice(palette)
            k = rng.choice(["send", "isend", "ssend", "recv", "recv", "irecv", "irecv", "iprobe", "sendrecv"])
            if not b.room(a, 2):
                break
            if k in ("send", "ssend"):
                b.ops[a].append(op(k, c, peer, tag, n))
            elif k == "isend":
                b.ops[a].append(op(k, c, peer, tag, n, b.slot(a)))
            elif k == "recv":
                b.ops[a].append(op(k, c, rng.choice([peer, ANY]), rng.choice([tag, ANY]), max(palette)))
            elif k == "irecv":
                b.ops[a].append(op(k, c, rng.choice([peer, ANY]), rng.choice([tag, ANY]), max(palette), b.slot(a)))
            elif k == "iprobe":
                b.ops[a].append(op(k, c, rng.choice([peer, ANY]), rng.choice([tag, ANY])))
            else:
                b.ops[a].append(op(k, c, peer, tag, n, 1, rng.choice([peer, ANY]), rng.choice([tag, ANY]), max(palette)))
        b.close(a, rng)
    return new_prog(np_, b.ops, comms, cfg, commspec=cspec)


def small_scope(cfg, quick):
    """Seed-independent core: (A) one sender, two messages, two receives: all tag / wildcard / size-class combinations
    (non-overtaking across protocols); (B) two senders and wildcard receives; (C) equal tags on world / dup / split."""
    eager, detach, palette = CONFIGS[cfg]
    small = 4
    mid = [x for x in palette if eager <= x < detach]
    mid = mid[0] if mid else 8
    big = [x for x in palette if x >= detach and x > 0]
    big = big[0] if big else palette[-1]
    classes = sorted({small, mid, big})
    if quick and cfg != "low":
        classes = sorted({small, big})      # reduced enumeration: two size classes (three under the lowered thresholds)
    cap = max(palette)
    progs = []
    # (A)
    for s1, s2 in itertools.product(classes, repeat=2):
        for t1, t2 in itertools.product((0, 1), repeat=2):
            for r1, r2 in itertools.product((0, 1, ANY), repeat=2):
                for rsrc in ((0,) if (quick or cfg not in ("default", "low")) else (0, ANY)):
                    for style in (("irecv",) if quick else ("irecv", "recv")):
                        for rbuf in (("cap",) if quick else ("cap", "exact")):
                            b1 = cap if rbuf == "cap" else s1
                            b2 = cap if rbuf == "cap" else s2
                            sender = [op("isend", 1, 1, t1, s1, 1), op("isend", 1, 1, t2, s2, 2), op("waitall", rs=[1, 2])]
                            if style == "irecv":
                                recv = [op("irecv", 1, rsrc, r1, b1, 1), op("irecv", 1, rsrc, r2, b2, 2),
                                        op("waitall", rs=[1, 2])]
                            else:
                                recv = [op("recv", 1, rsrc, r1, b1), op("recv", 1, rsrc, r2, b2)]
                            progs.append(new_prog(2, [sender, recv], cfg=cfg))
    # (A') the receives are posted first (ranks swapped so that the receiver runs first), and blocking sends
    for s1, s2 in itertools.product(classes, repeat=2):
        for t1, t2 in ((0, 0), (0, 1)):
            for r1, r2 in ((ANY, ANY), (0, ANY), (ANY, 0), (1, 0), (0, 0)):
                for b1, b2 in ((cap, cap), (s1, cap), (cap, s2)) if not quick else ((cap, cap), (s1, cap)):
                    recv = [op("irecv", 1, 1, r1, b1, 1), op("irecv", 1, 1, r2, b2, 2), op("waitall", rs=[1, 2])]
                    for sk in (("send",) if quick else ("send", "ssend", "bsend")):
                        sender = [op(sk, 1, 0, t1, s1), op(sk, 1, 0, t2, s2)]
                        progs.append(new_prog(2, [recv, sender], cfg=cfg))
    # (B) two senders, one receiver
    for s1, s2 in itertools.product((small, big), repeat=2):
        for t1, t2 in ((0, 0), (0, 1)):
            for rr in (((ANY, ANY), (ANY, ANY)), ((ANY, 0), (ANY, ANY)), ((0, ANY), (ANY, ANY)), ((ANY, ANY), (2, ANY)),
                       ((2, t2), (0, t1))):
                recv = [op("recv", 1, rr[0][0], rr[0][1], cap), op("recv", 1, rr[1][0], rr[1][1], cap)]
                progs.append(new_prog(3, [[op("send", 1, 1, t1, s1)], recv, [op("send", 1, 1, t2, s2)]], cfg=cfg))
                progs.append(new_prog(3, [[op("isend", 1, 1, t1, s1, 1), op("wait", r=1)],
                                          [op("probe", 1, ANY, ANY)] + recv,
                                          [op("isend", 1, 1, t2, s2, 1), op("wait", r=1)]], cfg=cfg))
    # (C) messages never cross communicators: world, a dup, and a split {1,3} of 3 ranks with reversed keys
    comms = [[1, 2, 3], [1, 2, 3], [3, 1]]
    cspec = [{"kind": "dup"}, {"kind": "split", "color": [0, -1, 0], "key": [1, 0, 0]}]
    for ca, cb in itertools.permutations((1, 2, 3), 2):
        for sz in (small, big):
            for wild in (False, True):
                # rank 1 sends tag 0 on ca then on cb to rank 3; rank 3 receives on cb first, then on ca
                def peer_of(c, w):
                    return comms[c - 1].index(w)
                sender = [op("isend", ca, peer_of(ca, 3), 0, sz, 1), op("isend", cb, peer_of(cb, 3), 0, small, 2),
                          op("waitall", rs=[1, 2])]
                rs_, rt_ = (ANY, ANY) if wild else (None, 0)
                recv = [op("recv", cb, ANY if wild else peer_of(cb, 1), rt_, cap),
                        op("recv", ca, ANY if wild else peer_of(ca, 1), rt_, cap)]
                progs.append(new_prog(3, [sender, [], recv], comms, cfg, commspec=cspec))
    return progs


REGRESSION = []   # programs that exposed defects (filled in as findings are made; see C28.py)


# ------------------------------------------------------------------------------------------- running the real SMPI

def smpi_cfg(p):
    return ["--cfg=smpi/async-small-thresh:%d" % p["eager"], "--cfg=smpi/send-is-detached-thresh:%d" % p["detach"]]


def hostfile_for(p, layout):
    n = p["np"]
    if layout == "same":
        return [HOSTS[0]] * n
    if layout == "pairs":
        return [HOSTS[(i // 2) % len(HOSTS)] for i in range(n)]
    return [HOSTS[i % len(HOSTS)] for i in range(n)]


def run_smpi(ctx, idx, prog, layout="cyclic", timeout=20, tag="r"):
    """Run `prog` on the real SMPI; returns the list of trace records, always ended by one `end` record
    (normal | deadlock | abort | signal | hang | crash)."""
    drv = drivers.get("mpi_p2p")
    d = os.path.join(ctx.scratch, "%s%d" % (tag, idx))
    os.makedirs(d, exist_ok=True)
    ptxt = os.path.join(d, "p.txt")
    open(ptxt, "w").write(prog_to_txt(prog))
    hf = os.path.join(d, "hosts")
    open(hf, "w").write("\n".join(hostfile_for(prog, layout)) + "\n")
    tr = os.path.join(d, "t.ndjson")
    if os.path.exists(tr):
        os.unlink(tr)
    cmd = [vlib.SMPIRUN, "-np", str(prog["np"]), "-platform", PLATFORM, "-hostfile", hf, "--cfg=smpi/host-speed:1f",
           "--log=root.thres:critical", "--cfg=debug/stacktrace:none"] + smpi_cfg(prog) + [drv, ptxt]
    rc, out, err = vlib.sh(cmd, timeout=timeout, env=vlib.sg_env({"VERIF_MPITRACE": tr}), cwd=d)
    recs = []
    if os.path.exists(tr):
        for line in open(tr):
            line = line.strip()
            if line:
                try:
                    recs.append(json.loads(line))
                except ValueError:
                    recs.append({"e": "garbled", "raw": line[:200]})
    if not any(r.get("e") == "end" for r in recs):
        fins = {r["a"] for r in recs if r.get("e") == "fin"}
        if len(fins) == prog["np"] and rc == 0:
            recs.append({"e": "end", "how": "normal"})
        else:
            recs.append({"e": "end", "how": "hang" if rc == 124 else "crash", "rc": rc, "stderr": err[-300:]})
    return recs


def run_many(ctx, jobs, timeout=20, tag="r"):
    """jobs: list of (index, prog, layout[, timeout])"""
    drivers.get("mpi_p2p")
    return vlib.parallel_map(lambda j: run_smpi(ctx, j[0], j[1], j[2], j[3] if len(j) > 3 else timeout, tag), jobs)


# ------------------------------------------------------------------------------------------- TLC: exploration (M)

RELAXATIONS = ("sorder", "rorder", "trunc")


def spec_prog(p, relax=()):
    """what the specification reads (the driver-only fields are dropped); relax: classification-only relaxations"""
    q = {k: p[k] for k in ("np", "eager", "detach", "nslots", "comms", "ranks")}
    q["relax"] = {k: (k in relax) for k in RELAXATIONS}
    return q


def write_progs(path, progs, relax=()):
    json.dump([spec_prog(p, relax) for p in progs], open(path, "w"))


def tla_prints(out, tag):
    """values printed by PrintT(<<"tag", ...>>), also when TLC's pretty-printer wrapped them over several lines"""
    res = []
    for mm in re.finditer(r'<<\s*"%s"' % tag, out):
        end = out.find(">>", mm.start())
        if end < 0:
            raise vlib.InfraError("truncated TLC print: " + out[mm.start():mm.start() + 200])
        res.append(vlib.parse_tla_value(out[mm.start():end + 2]))
    return res


def mc_explore(ctx, progs, timeout=900, tag="mc", chunk=None, coverage=False, full=False):
    """Exhaustive exploration of MpiP2P over all programs; returns (list of TlcResult, outcomes per program)."""
    outs = [[] for _ in progs]
    seen = [set() for _ in progs]
    chunk = chunk or len(progs)
    results = []
    for ci, start in enumerate(range(0, len(progs), chunk)):
        part = progs[start:start + chunk]
        pf = os.path.join(ctx.scratch, "%s_progs_%d.json" % (tag, ci))
        write_progs(pf, part)
        r = vlib.tlc(os.path.join(MSPEC, "MpiP2PMC.tla"), env={"PROGS": pf, "MCFULL": "1" if full else "0"},
                     timeout=timeout, coverage=coverage, workers=os.environ.get("VERIF_TLC_WORKERS") or None)
        results.append(r)
        if not r.ok:
            break
        for v in tla_prints(r.out, "OUT"):
            o = json.loads(v[2])
            key = json.dumps(o, sort_keys=True)
            i = start + v[1] - 1
            if key not in seen[i]:
                seen[i].add(key)
                outs[i].append(o)
    return results, outs


# ------------------------------------------------------------------------------------------- TLC: trace validation (T)

def _batch_file(path, runs):
    ranges = []
    n = 0
    with open(path, "w") as f:
        for pid, recs in runs:
            start = n + 1
            f.write(json.dumps({"e": "reset", "pid": pid}) + "\n")
            n += 1
            for r in recs:
                f.write(json.dumps(r) + "\n")
                n += 1
            ranges.append((start, n))
    return ranges


def validate_traces(ctx, progs, traces, tag="tv", timeout=1500, nchunks=None, max_inv=4, relax=()):
    """traces: list of (prog index, records). Every execution is validated on its own inside a batch (one initial state
    per execution, progress register per execution). Returns rejections {prog, run, line, record, reason}."""
    pf = os.path.join(ctx.scratch, tag + "_progs.json")
    write_progs(pf, progs, relax)
    runs = list(enumerate(traces))
    if not runs:
        return []
    nchunks = nchunks or max(1, min(vlib.NCPU // 2, len(runs) // 40 + 1))
    size = (len(runs) + nchunks - 1) // nchunks
    chunks = [runs[i:i + size] for i in range(0, len(runs), size)]

    def do_chunk(ci_chunk):
        ci, ch = ci_chunk
        rej, acc, stats = [], 0, [0, 0]
        todo = list(ch)
        rounds = 0
        while todo:
            rounds += 1
            tf = os.path.join(ctx.scratch, "%s_%d_%d.ndjson" % (tag, ci, rounds))
            ranges = _batch_file(tf, [(pi + 1, recs) for _, (pi, recs) in todo])
            rf = tf + ".runs.json"
            json.dump([[s, e] for s, e in ranges], open(rf, "w"))
            r = vlib.tlc(os.path.join(MSPEC, "MpiP2P_trace.tla"), env={"PROGS": pf, "TRACE": tf, "RUNS": rf},
                         timeout=timeout, workers=1, xmx="3g")
            stats[0] += r.distinct
            stats[1] += r.generated
            if r.status == "invariant" and rounds <= max_inv:
                # TLC stops at the first violated invariant: report that execution, validate the others again
                ms = re.findall(r"/\\ run = (\d+)", r.out)
                ls = [int(x) for x in re.findall(r"/\\ l = (\d+)", r.out)]
                if not ms:
                    raise vlib.InfraError("trace validation: invariant violated, no run in the error trace\n" + r.out[-2000:])
                j = int(ms[-1]) - 1
                run_no, (pi, recs) = todo[j]
                off = (max(ls) if ls else ranges[j][0] + 1) - ranges[j][0]
                rej.append({"prog": pi, "run": run_no, "line": off,
                            "record": recs[off - 1] if 0 < off <= len(recs) else None,
                            "reason": "invariant %s violated in the state reached by the recorded execution" % r.what,
                            "tlc_tail": r.out[-2500:]})
                todo = todo[:j] + todo[j + 1:]
                continue
            if r.status != "ok":
                raise vlib.InfraError("trace validation failed to run: %s\n%s" % (r.status, r.what[-3000:]))
            prog = {}
            for v in tla_prints(r.out, "PROGRESS"):
                prog[v[1]] = (v[2], v[3])
            if len(prog) != len(todo):
                raise vlib.InfraError("trace validation: %d PROGRESS lines for %d executions\n%s" %
                                      (len(prog), len(todo), r.out[-2000:]))
            for j, (run_no, (pi, recs)) in enumerate(todo):
                reached, last = prog[j + 1]
                if reached == last + 1:
                    acc += 1
                else:
                    off = reached - ranges[j][0]   # index (1-based) into recs of the first record nothing consumes
                    rej.append({"prog": pi, "run": run_no, "line": off,
                                "record": recs[off - 1] if 0 < off <= len(recs) else None,
                                "reason": "no behaviour of the specification consumes this line", "tlc_tail": ""})
            break
        return rej, acc, stats

    results = vlib.parallel_map(do_chunk, list(enumerate(chunks)), nproc=min(8, vlib.NCPU))
    rejections = []
    accepted = 0
    for rej, acc, stats in results:
        rejections += rej
        accepted += acc
        ctx.cov["states"] += stats[0]
        ctx.cov["transitions"] += stats[1]
    ctx.cov["traces_validated_against_impl"] += accepted + len(rejections)
    return rejections


# ------------------------------------------------------------------------------------------- outcomes

def impl_outcome(prog, recs):
    obs = [[] for _ in range(prog["np"])]
    end = None
    for r in recs:
        if r.get("e") == "ret" and 1 <= r["a"] <= prog["np"]:
            obs[r["a"] - 1].append(r["res"])
        elif r.get("e") == "end" and end is None:
            end = r["how"]
    return {"obs": obs, "end": end}


def _agree(x, y):
    """x: status in a reference outcome (TLC), y: logged status. Same relation as MpiP2P_trace!Agree."""
    if x["flag"] != y["flag"]:
        return False
    if x["flag"] == 0:
        return True
    if x["src"] == -2:
        return y["err"] == 0
    if x["err"] == 1:
        return y["err"] == 1
    if not (y["err"] == 0 and y["src"] == x["src"] and y["tag"] == x["tag"] and y["cnt"] == x["cnt"]):
        return False
    if x["pay"] == 1 and y["ok"] != 1:
        return False
    if x["pay"] == 1 and x["cnt"] >= 4 and y["mid"] != x["mid"]:
        return False
    return True


def outcome_allowed(io, ref):
    """is the outcome of the real run one of TLC's outcomes?"""
    for o in ref:
        if io["end"] == "normal" and o["end"] != "normal":
            continue
        if io["end"] == "deadlock" and o["end"] != "deadlock":
            continue
        if io["end"] == "hang" and not (o["end"] == "deadlock" and o["probe"]):
            continue
        if io["end"] not in ("normal", "deadlock", "hang"):
            return False
        ok = True
        for a in range(len(o["obs"])):
            if len(o["obs"][a]) != len(io["obs"][a]):
                ok = False
                break
            for xs, ys in zip(o["obs"][a], io["obs"][a]):
                if len(xs) != len(ys) or not all(_agree(x, y) for x, y in zip(xs, ys)):
                    ok = False
                    break
            if not ok:
                break
        if ok:
            return True
    return False
