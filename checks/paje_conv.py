"""Generic converter of a Paje trace file into the event records consumed by spec/lib/Paje_trace.tla.
Nothing about SimGrid's event numbering is assumed: the `%EventDef` header of the file gives, for every event id, its
Paje name and its fields.  Timestamps are replaced by their rank among the distinct timestamps of the file (TLC has no
floats; only their order matters)."""
import shlex

FIELDS = ("alias", "type", "container", "value", "name", "start", "end", "key")

# Paje field name (lower case) -> record field.  `basic` traces use ContainerType / EntityType / Source / Dest names.
NORM = {"time": "t", "alias": "alias", "type": "type", "containertype": "type", "entitytype": "type", "container": "container",
        "value": "value", "name": "name", "key": "key",
        "startcontainertype": "start", "sourcecontainertype": "start", "endcontainertype": "end", "destcontainertype": "end",
        "startcontainer": "start", "sourcecontainer": "start", "endcontainer": "start", "destcontainer": "start"}


def split_fields(line):
    lex = shlex.shlex(line, posix=True)
    lex.whitespace_split = True
    lex.commenters = ""
    lex.escape = ""
    return list(lex)


def convert(path):
    """returns (events, info).  events: list of dicts {e, t, alias, type, container, value, name, start, end, key, raw};
    info: {"defs": {id: name}, "lines": n, "timestamps": n_distinct}"""
    defs, cur = {}, None
    raw_events = []
    with open(path, errors="replace") as f:
        for lineno, line in enumerate(f, start=1):
            line = line.rstrip("\n")
            if not line.strip():
                continue
            if line.startswith("%"):
                w = line[1:].split()
                if not w:
                    continue
                if w[0] == "EventDef":
                    cur = (w[1], [])
                    defs[w[2]] = cur
                elif w[0] == "EndEventDef":
                    cur = None
                elif cur is not None and len(w) >= 2:
                    cur[1].append((w[0], w[1]))
                continue
            if line.startswith("#"):
                continue
            try:
                tok = split_fields(line)
            except ValueError:
                tok = line.split()
            ev = {"e": "Malformed", "t": None, "raw": line, "lineno": lineno}
            for k in FIELDS:
                ev[k] = ""
            d = defs.get(tok[0]) if tok else None
            ev["extra_fields"] = max(0, len(tok) - 1 - len(d[1])) if d is not None else 0
            # more fields than the %EventDef declares (SimGrid appends the size / call-location fields of PushState to
            # every state event): outside the four conditions of C47; counted, and the declared fields are used
            if d is not None:
                name = d[0][4:] if d[0].startswith("Paje") else d[0]
                ev["e"] = name
                for (fname, ftype), val in zip(d[1], tok[1:]):
                    key = NORM.get(fname.lower())
                    if key == "t":
                        try:
                            ev["t"] = float(val)
                        except ValueError:
                            ev["e"] = "Malformed"
                    elif key is not None:
                        ev[key] = val
                if name == "DestroyContainer":       # its `Name` field designates the container
                    ev["container"], ev["name"] = ev["name"], ""
            raw_events.append(ev)
    times = sorted({ev["t"] for ev in raw_events if ev["t"] is not None})
    rank = {t: i for i, t in enumerate(times)}
    for ev in raw_events:
        ev["time"] = ev["t"]
        ev["t"] = rank[ev["t"]] if ev["t"] is not None else -1
    return raw_events, {"defs": {k: v[0] for k, v in defs.items()}, "lines": len(raw_events), "timestamps": len(times)}


def to_unit(events):
    """records for TLC: a Reset line then the events (without the diagnostic fields)"""
    unit = [dict({"e": "Reset", "t": -1}, **{k: "" for k in FIELDS})]
    for ev in events:
        unit.append({k: ev[k] for k in ("e", "t") + FIELDS})
    return unit
