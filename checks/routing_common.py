"""Shared code of the routing checks C24 (hierarchical composition), C25 (shortest-path zones), C26 (cluster topologies).

One abstract platform description (class Plat) is rendered twice: as a token file for harness/route_driver.cpp, which
builds the platform through the C++ platform API (or as an XML file) and prints Host::route_to for the asked pairs, and
as JSON for the TLA+ machine spec/routing/Hier.tla.  TLC is the oracle:
  M  HierMC   explores every behaviour of every asked pair (reaches the destination, hop counts, no repetition) and
              prints the expected routes / minimal link counts (EXP, DIST lines);
  T  HierTrace validates the link list returned by the implementation as a behaviour of the machine and prints the
              latency of the accepted behaviour (ACC lines).
Python only renders, maps link names to link numbers (syntactically) and compares."""
import json, math, os, random, re, threading
import vlib, drivers

_LOCK = threading.Lock()

RSPEC = os.path.join(vlib.SPEC, "routing")
TICK = 2.0 ** -20
DRIVERS = {"route_driver": (["route_driver.cpp"], "s4u", [])}
drivers.register(DRIVERS)

ROUTED = ("full", "floyd", "dijkstra", "dijkstracache")
SPK = ("floyd", "dijkstra", "dijkstracache")
CLUSTERS = ("torus", "fattree", "dragonfly")

# signatures of the genuine defects found on the pinned tree (KNOWN_FINDINGS.jsonl)
SIG_UPREV = "interzone-up-route-reversed"
SIG_OFFCHAIN = "gateway-off-ancestor-chain"
SIG_DJK = "dijkstra-recursive-gateway-mismatch"
SIG_DJKREV = "dijkstra-multilink-route-reversed"
SIG_DFCH = "dragonfly-first-chassis-assumed"
SIG_BYPSELF = "bypass-gateway-is-end-point"
SIG_DF = "dragonfly-groups-exceed-blades"
SIG_HBYPX = "host-bypass-across-zones"


# ------------------------------------------------------------------------------------------- abstract platform

class Plat:
    """Abstract platform: zones, netpoints, links, declared routes.  Numbers are 1-based (0 = none), as in Hier.tla."""

    def __init__(self, name="p"):
        self.name = name
        self.np = []          # dicts name, k, z, zi, c
        self.nz = []          # dicts name, kind, par, np, mem, rt, byp, + kind fields
        self.lk = []          # dicts name, lat, rev
        self.npi, self.zi, self.lki = {}, {}, {}
        self.tokens = []
        self.xml = None       # when set: (path-less) XML text loaded instead of the tokens
        self.pairs = []       # (src name, dst name)
        self.pass2 = False
        self.meta = {}
        self.nz.append({"name": "_world_", "kind": "full", "par": 0, "np": 0, "mem": [], "rt": [], "byp": []})
        self.zi["_world_"] = 1
        self.loop = self._link("__loopback__", 0)

    # --- construction
    def _np(self, name, k, z, zi=0, c=None):
        self.np.append({"name": name, "k": k, "z": z, "zi": zi, "c": list(c) if c else []})
        n = len(self.np)
        self.npi[name] = n
        if z:
            self.nz[z - 1]["mem"].append(n)
        return n

    def _link(self, name, lat):
        self.lk.append({"name": name, "lat": lat, "rev": len(self.lk) + 1})
        self.lki[name] = len(self.lk)
        return len(self.lk)

    def zone(self, name, kind, parent="_world_", emit=True, **kw):
        par = self.zi[parent]
        z = {"name": name, "kind": kind, "par": par, "np": 0, "mem": [], "rt": [], "byp": []}
        z.update(kw)
        self.nz.append(z)
        zi = len(self.nz)
        self.zi[name] = zi
        z["np"] = self._np(name, "zone", par, zi)
        if emit:
            self.tokens.append("zone %s %s %s" % (name, kind, "-" if parent == "_world_" else parent))
        return zi

    def host(self, name, zone, coords=None, emit=True):
        n = self._np(name, "host", self.zi[zone], c=coords)
        if emit:
            self.tokens.append("host %s %s%s" % (name, zone, " %d %d %d" % tuple(coords) if coords else ""))
        return n

    def router(self, name, zone, coords=None, emit=True):
        n = self._np(name, "router", self.zi[zone], c=coords)
        if emit:
            self.tokens.append("router %s %s%s" % (name, zone, " %d %d %d" % tuple(coords) if coords else ""))
        return n

    def link(self, name, zone, lat, split=False, emit=True, kind=""):
        if split:
            u = self._link(name + "_UP", lat)
            d = self._link(name + "_DOWN", lat)
            self.lk[u - 1]["rev"], self.lk[d - 1]["rev"] = d, u
        else:
            self._link(name, lat)
        if emit:
            self.tokens.append("link %s %s %d%s" % (name, zone, lat, " split" if split else (" " + kind if kind else "")))
        return name

    def lid(self, tok):
        """link token 'name' | 'name:U' | 'name:D' -> link number"""
        if tok.endswith(":U"):
            return self.lki[tok[:-2] + "_UP"]
        if tok.endswith(":D"):
            return self.lki[tok[:-2] + "_DOWN"]
        return self.lki[tok]

    def route(self, zone, s, d, gs, gd, links, sym, emit=True):
        r = {"s": self.npi[s] if s else 0, "d": self.npi[d] if d else 0, "gs": self.npi[gs] if gs else 0,
             "gd": self.npi[gd] if gd else 0, "l": [self.lid(t) for t in links], "sym": bool(sym)}
        self.nz[self.zi[zone] - 1]["rt"].append(r)
        if emit:
            self.tokens.append("route %s %s %s %s %s %d %s" % (zone, s or "-", d or "-", gs or "-", gd or "-",
                                                               1 if sym else 0, " ".join(links)))

    def bypass(self, zone, s, d, gs, gd, links):
        self.nz[self.zi[zone] - 1]["byp"].append({"s": self.npi[s], "d": self.npi[d], "gs": self.npi[gs] if gs else 0,
                                                   "gd": self.npi[gd] if gd else 0, "l": [self.lid(t) for t in links]})
        self.tokens.append("bypass %s %s %s %s %s %s" % (zone, s, d, gs or "-", gd or "-", " ".join(links)))

    def cluster(self, name, kind, parent="_world_", lat=1, split=True, loop=-1, lim=0, leafzone=False, **shape):
        """torus: dims=[..]; fattree: lv, down, up, cnt; dragonfly: g, c, b, n (+ gl, cl, bl link multiplicities).
        The leaves <name>_n<rank> are created by the implementation when the zone is sealed."""
        if kind == "torus":
            n = 1
            for d in shape["dims"]:
                n *= d
            par = "dims=" + ",".join(map(str, shape["dims"]))
            extra = {"dims": list(shape["dims"])}
        elif kind == "fattree":
            n = 1
            for d in shape["down"]:
                n *= d
            par = "ft=%d;%s;%s;%s" % (shape["lv"], ",".join(map(str, shape["down"])), ",".join(map(str, shape["up"])),
                                      ",".join(map(str, shape["cnt"])))
            extra = {"lv": shape["lv"], "down": list(shape["down"]), "up": list(shape["up"]), "cnt": list(shape["cnt"])}
        else:
            n = shape["g"] * shape["c"] * shape["b"] * shape["n"]
            par = "df=%d,%d;%d,%d;%d,%d;%d" % (shape["g"], shape.get("gl", 1), shape["c"], shape.get("cl", 1),
                                                shape["b"], shape.get("bl", 1), shape["n"])
            extra = {"g": shape["g"], "c": shape["c"], "b": shape["b"], "n": shape["n"]}
        zi = self.zone(name, kind, parent, emit=False, loop=loop >= 0, lim=lim, mgw=[], ltk=[], ltv=[], split=bool(split),
                       clat=lat, looplat=loop, **extra)
        self.tokens.append("zone %s %s %s %s lat=%d split=%d loop=%d lim=%d leaf=%s" % (
            name, kind, "-" if parent == "_world_" else parent, par, lat, 1 if split else 0, loop, lim,
            "zone" if leafzone else "host"))
        z = self.nz[zi - 1]
        for r in range(n):
            if leafzone:
                self.zone("%s_z%d" % (name, r), "full", name, emit=False)
                h = self.host("%s_n%d" % (name, r), "%s_z%d" % (name, r), emit=False)
                z["mgw"].append(h)
            else:
                self.host("%s_n%d" % (name, r), name, emit=False)
                z["mgw"].append(0)
        return zi

    def hosts(self):
        return [n["name"] for n in self.np if n["k"] == "host"]

    def zone_of_host(self, h):
        return self.nz[self.np[self.npi[h] - 1]["z"] - 1]

    def has_child(self, zi):
        return any(z["par"] == zi for z in self.nz)

    def self_pair_defined(self, h):
        """the documentation defines the route of a host to itself in these cases only (see Hier!SelfLinks)"""
        z = self.zone_of_host(h)
        zi = self.zi[z["name"]]
        if z["kind"] in ROUTED:
            return not self.has_child(zi)
        if z["kind"] == "star":
            return True
        if z["kind"] in CLUSTERS:
            return bool(z["loop"])
        return False

    def all_pairs(self, selfpairs=True):
        hs = self.hosts()
        return [(s, d) for s in hs for d in hs if s != d or (selfpairs and self.self_pair_defined(s))]

    # --- rendering
    def token_text(self):
        out = list(self.tokens) + ["explicit"]
        if self.pass2:
            out.append("pass2")
        out += ["pair %s %s" % p for p in self.pairs]
        return "\n".join(out) + "\n"

    def to_json(self):
        def zj(z):
            d = {k: v for k, v in z.items() if k not in ("name", "clat", "looplat", "split")}
            return d
        return {"np": [{"k": n["k"], "z": n["z"], "zi": n["zi"], "c": n["c"]} for n in self.np],
                "nz": [zj(z) for z in self.nz],
                "lk": [{"lat": l["lat"], "rev": l["rev"]} for l in self.lk],
                "loop": self.loop}

    def brief(self):
        return {"zones": [(z["name"], z["kind"], self.nz[z["par"] - 1]["name"] if z["par"] else "") for z in self.nz[1:]
                          if not re.search(r"_z\d+$", z["name"])][:12],
                "hosts": len(self.hosts()), "links": len(self.lk), **self.meta}


# ------------------------------------------------------------------------------------------- running the implementation

def run_driver(ctx, plat, tag, timeout=120):
    """Runs route_driver on the platform; returns dict links{name: lat}, zlinks{zone: [names]}, routes [records],
    builderr (str or None).  An abort inside route_to is recorded for that pair and the run is resumed after it."""
    drv = drivers.get("route_driver")
    d = os.path.join(ctx.scratch, "rd_%s" % tag)
    os.makedirs(d, exist_ok=True)
    tf = os.path.join(d, "plat.txt")
    if plat.xml is not None:
        xf = os.path.join(d, "plat.xml")
        open(xf, "w").write(plat.xml)
        body = "xml %s\nexplicit\n" % xf + ("pass2\n" if plat.pass2 else "") + "".join("pair %s %s\n" % p for p in plat.pairs)
        open(tf, "w").write(body)
    else:
        open(tf, "w").write(plat.token_text())
    res = {"links": {}, "zlinks": {}, "routes": [], "builderr": None, "hosts": [], "tokens": tf}
    start = 0
    npairs = len(plat.pairs) * (2 if plat.pass2 else 1)
    aborts = 0
    while True:
        rc, out, err = vlib.sh([drv, tf, "--start", str(start), "--log=root.thres:critical",
                                "--cfg=debug/stacktrace:none"], timeout=timeout, env=vlib.sg_env())
        ended = False
        last = None
        for line in out.splitlines():
            try:
                j = json.loads(line)
            except ValueError:
                continue
            t = j.get("t")
            if t == "link":
                res["links"][j["name"]] = j["lat"]
            elif t == "zlinks":
                res["zlinks"][j["zone"]] = j["links"]
            elif t == "host":
                if start == 0:
                    res["hosts"].append(j["name"])
            elif t == "route":
                res["routes"].append(j)
                last = j["i"]
            elif t == "abort":
                res["routes"].append({"p": j["p"], "i": j["i"], "s": j["s"], "d": j["d"], "abort": j.get("sig", 0)})
                last = j["i"]
                aborts += 1
            elif t == "builderr":
                res["builderr"] = "line %s: %s" % (j.get("line"), j.get("what"))
            elif t == "end":
                ended = True
        if res["builderr"] or ended:
            break
        if rc == 4 or (last is None and start == 0 and rc != 0 and not res["routes"]):
            # the platform could not be built (xbt_enforce/xbt_die while building, or a driver usage error)
            res["builderr"] = res["builderr"] or ("driver exit %s: %s" % (rc, (err or out)[-400:]))
            break
        if last is None or last + 1 >= npairs or aborts > 400:
            if last is None:
                # died without reporting anything for the pair at `start`: count it as an abort
                res["routes"].append({"p": 1, "i": start, "s": "?", "d": "?", "abort": -1})
                last = start
                if last + 1 >= npairs or aborts > 400:
                    break
                aborts += 1
            else:
                break
        start = last + 1
    return res


# ------------------------------------------------------------------------------------------- binding link names

def bind_links(plat, res):
    """Gives a number to every link listed by the implementation: declared links by name; links created by the cluster
    zones by parsing their names into the structural keys of the cluster modules.  Returns a list of problems
    (configured link missing / unexpected latency): these are facts about the platform construction, reported apart."""
    problems = []
    for name, lat in res["links"].items():
        if name in plat.lki:
            exp = plat.lk[plat.lki[name] - 1]["lat"] * TICK
            if lat != exp:
                problems.append("link %s has latency %r, configured %r" % (name, lat, exp))
    for l in plat.lk:
        if l["name"] not in res["links"]:
            problems.append("declared link %s does not exist in the platform" % l["name"])
    for z in plat.nz:
        if z["kind"] not in CLUSTERS:
            continue
        zn = z["name"]
        own = res["zlinks"].get(zn, [])
        rows = {}   # key tuple -> [up, dn]
        ft, gr = {}, {}

        def reg(name, lat):
            if name in plat.lki:
                return plat.lki[name]
            i = plat._link(name, lat)
            got = res["links"].get(name)
            if got is not None and got != lat * TICK:
                problems.append("link %s has latency %r, configured %r" % (name, got, lat * TICK))
            return i

        def half(key, name, suffix, lat):
            i = reg(name, lat)
            r = rows.setdefault(key, [0, 0])
            if suffix == "_UP":
                r[0] = i
            elif suffix == "_DOWN":
                r[1] = i
            else:
                r[0] = r[1] = i

        for name in own:
            m = re.fullmatch(re.escape(zn) + r"_loop_(\d+)", name)
            if m:
                half((10, int(m.group(1)), 0, 0, 0), name, "", z["looplat"])
                continue
            m = re.fullmatch(re.escape(zn) + r"_lim_(\d+)", name)
            if m:
                half((7, int(m.group(1)), 0, 0, 0), name, "", 0)
                continue
            m = re.fullmatch(re.escape(zn) + r"_lims_(\d+)_(\d+)(?:_(\d+))?", name)
            if m:
                if z["kind"] == "fattree":
                    half((8, int(m.group(1)), int(m.group(2)), 0, 0), name, "", 0)
                else:
                    half((9, int(m.group(1)), int(m.group(2)), int(m.group(3)), 0), name, "", 0)
                continue
            if z["kind"] == "torus":
                m = re.fullmatch(re.escape(zn) + r"_link_from_(\d+)_to_(\d+)(_UP|_DOWN)?", name)
                if m:
                    half((1, int(m.group(1)), int(m.group(2)), 0, 0), name, m.group(3) or "", z["clat"])
                    continue
            elif z["kind"] == "fattree":
                m = re.fullmatch(r"link_from_(-?\d+)_(-?\d+)_(\d+)(_UP|_DOWN)?", name)
                if m:
                    ft.setdefault((int(m.group(1)), int(m.group(2))), {}).setdefault(int(m.group(3)), []).append(
                        (name, m.group(4) or ""))
                    continue
            else:
                m = re.fullmatch(r"local_link_from_router_(\d+)_to_node_(\d+)_(\d+)(_UP|_DOWN)?", name)
                if m:
                    half((3, int(m.group(1)), int(m.group(2)), 0, 0), name, m.group(4) or "", z["clat"])
                    continue
                m = re.fullmatch(r"green_link_in_chassis_(\d+)_between_routers_(\d+)_and_(\d+)_(\d+)(_UP|_DOWN)?", name)
                if m:
                    gr.setdefault((int(m.group(1)), int(m.group(2)), int(m.group(3))), {}).setdefault(
                        int(m.group(4)), []).append((name, m.group(5) or ""))
                    continue
                m = re.fullmatch(r"black_link_in_group_(\d+)_between_chassis_(\d+)_and_(\d+)_blade_(\d+)_(\d+)(_UP|_DOWN)?",
                                 name)
                if m:
                    half((5, int(m.group(1)), int(m.group(2)), int(m.group(3)), int(m.group(4))), name,
                         m.group(6) or "", z["clat"])
                    continue
                m = re.fullmatch(r"blue_link_between_group_(\d+)_and_(\d+)_routers_(\d+)_and_(\d+)_(\d+)(_UP|_DOWN)?", name)
                if m:
                    half((6, int(m.group(1)), int(m.group(2)), int(m.group(3)), int(m.group(4))), name,
                         m.group(6) or "", z["clat"])
                    continue
            problems.append("zone %s owns a link with an unexpected name: %s" % (zn, name))
        # parallel cables of a fat-tree / the groups of the green links: told apart by the order of creation only
        for (c, p), by_uid in ft.items():
            for j, uid in enumerate(sorted(by_uid)):
                for name, suf in by_uid[uid]:
                    half((2, c, p, j, 0), name, suf, z["clat"])
        for (c, j, k), by_uid in gr.items():
            for g, uid in enumerate(sorted(by_uid)):
                for name, suf in by_uid[uid]:
                    half((4, g, c, j, k), name, suf, z["clat"])
        z["ltk"] = [list(k) for k in rows]
        z["ltv"] = [rows[k] for k in rows]
        for k, v in rows.items():
            if v[0] and v[1] and v[0] != v[1]:
                plat.lk[v[0] - 1]["rev"], plat.lk[v[1] - 1]["rev"] = v[1], v[0]
    return problems


# ------------------------------------------------------------------------------------------- TLC

def _write_plats(ctx, plats, tag):
    pf = os.path.join(ctx.scratch, "plats_%s.json" % tag)
    json.dump([p.to_json() for p in plats], open(pf, "w"))
    return pf


_JSTR = re.compile(r'"\{(?:[^"\\\n]|\\.)*\}"')


def tla_prints(out, tags):
    """records printed by PrintT(ToJson([t |-> "TAG", ...])): one quoted JSON string per line"""
    res = []
    for m in _JSTR.finditer(out):       # (the lines of several workers may be glued together)
        try:
            j = json.loads(json.loads(m.group(0)))
        except ValueError:
            continue
        if isinstance(j, dict) and j.get("t") in tags:
            res.append(j)
    return res


def tlc_explore(ctx, plats, pairs, tag, dev="none", print_exp=True, timeout=900, workers=1, coverage=False,
                keep_going=False, track=None):
    """(M) HierMC on pairs = [(platform number 1-based, src name, dst name)].  Returns (TlcResult, exp, dist):
    exp[k] = list of {l, lat, vt, fl} expected behaviours of pair k; dist[(p, zone number)] = {a: {b: count}}."""
    pf = _write_plats(ctx, plats, tag)
    qf = os.path.join(ctx.scratch, "pairs_%s.json" % tag)
    json.dump([{"p": p, "s": plats[p - 1].npi[s], "d": plats[p - 1].npi[d]} for p, s, d in pairs], open(qf, "w"))
    cfg = os.path.join(RSPEC, "HierMC.cfg" if print_exp else "HierMCq.cfg")
    r = vlib.tlc(os.path.join(RSPEC, "HierMC.tla"), cfg=cfg,
                 env={"PLATS": pf, "PAIRS": qf, "DEV": dev, "TRACK": "1" if (print_exp if track is None else track) else "0"},
                 timeout=timeout, workers=workers, coverage=coverage, extra=["-continue"] if keep_going else None)
    exp = [[] for _ in pairs]
    seen = [set() for _ in pairs]
    dist = {}
    for v in tla_prints(r.out, ("EXP", "DIST")):
        if v["t"] == "EXP":
            k = v["pr"] - 1
            x = {"l": v["l"], "lat": v["lat"], "vt": v["vt"], "fl": sorted(v["fl"])}
            key = json.dumps(x, sort_keys=True)
            if key not in seen[k]:
                seen[k].add(key)
                exp[k].append(x)
        else:
            dist[(v["p"], v["z"])] = {int(a): {int(b): n for b, n in row.items()} for a, row in v["d"].items()} \
                if isinstance(v["d"], dict) else v["d"]
    return r, exp, dist


def tlc_validate(ctx, plats, items, tag, dev="none", timeout=900, workers=1):
    """(T) HierTrace on items = [(platform number, src name, dst name, [link numbers])].  Returns (TlcResult, acc):
    acc[k] = list of {lat, vt, fl} of the accepting behaviours of item k (empty = rejected)."""
    pf = _write_plats(ctx, plats, tag)
    tf = os.path.join(ctx.scratch, "trace_%s.ndjson" % tag)
    with open(tf, "w") as f:
        for p, s, d, l in items:
            f.write(json.dumps({"p": p, "s": plats[p - 1].npi[s], "d": plats[p - 1].npi[d], "l": l}) + "\n")
    acc = [[] for _ in items]
    if not items:
        r = vlib.TlcResult()
        r.status = "ok"
        return r, acc
    r = vlib.tlc(os.path.join(RSPEC, "HierTrace.tla"), env={"PLATS": pf, "TRACE": tf, "DEV": dev}, timeout=timeout,
                 workers=workers)
    for v in tla_prints(r.out, ("ACC",)):
        a = {"lat": v["lat"], "vt": v["vt"], "fl": sorted(v["fl"])}
        if a not in acc[v["i"] - 1]:
            acc[v["i"] - 1].append(a)
    return r, acc


def need_ok(r, what):
    if not r.ok:
        raise vlib.InfraError("%s: TLC %s %s\n%s" % (what, r.status, str(r.what)[:300], r.out[-3000:]))


def expected_latency(a):
    """latency in seconds of an accepted behaviour: ticks + Vivaldi terms (sqrt evaluated here, in binary64)"""
    lat = a["lat"] * TICK
    for d2, zz in a["vt"]:
        lat += (math.sqrt(d2) + zz) / 1000.0
    return lat


def latency_matches(a, got):
    if not a["vt"]:
        return got == a["lat"] * TICK           # dyadic latencies: the sum is exact
    e = expected_latency(a)
    return abs(got - e) <= 1e-12 * max(1.0, abs(e))


# ------------------------------------------------------------------------------------------- one batch: run, bind, M, T, compare

def check_platforms(ctx, plats, tag, explore=True, print_exp=False, tlc_timeout=1500, mc_pairs=None, workers=1):
    """Runs the implementation on every platform, then M (optional) and T.  Reports violations through ctx.
    Returns per-platform dict with routes (records + 'ids'), acc, exp."""
    results = [run_driver(ctx, pl, "%s_%d" % (tag, i)) for i, pl in enumerate(plats)]
    out = []
    items = []      # (p, s, d, ids) for T
    refs = []       # (platform index, route record)
    for pi, (plat, res) in enumerate(zip(plats, results)):
        if res["builderr"]:
            raise vlib.InfraError("platform %s could not be built by the implementation: %s\n%s" % (
                plat.name, res["builderr"], plat.token_text()[:3000]))
        probs = bind_links(plat, res)
        for pr in probs:
            with _LOCK:
                ctx.violation("platform construction: " + pr, files={"platform.txt": plat.xml or plat.token_text()},
                              signature="%s:construction:%s" % (ctx.prop, vlib.canon_hash([plat.token_text(), pr])))
        for r in res["routes"]:
            if "links" in r:
                r["ids"] = [plat.lki.get(n, 0) for n in r["links"]]
                items.append((pi + 1, r["s"], r["d"], r["ids"]))
                refs.append((pi, r))
        out.append({"plat": plat, "res": res})
    # ---- M
    allpairs = []
    pair_pos = {}
    for pi, plat in enumerate(plats):
        prs = list(plat.pairs)
        if mc_pairs is not None and len(prs) > mc_pairs:
            prs = random.Random(vlib.canon_hash([plat.token_text(), ctx.seed])).sample(prs, mc_pairs)
        for s, d in prs:
            pair_pos[(pi, s, d)] = len(allpairs)
            allpairs.append((pi + 1, s, d))
    exp = None
    if explore:
        r, exp, dist = tlc_explore(ctx, plats, allpairs, tag, print_exp=print_exp, timeout=tlc_timeout, workers=workers)
        with _LOCK:
            ctx.add_tlc(r)
        if not r.ok:
            raise vlib.InfraError("the routing specification fails on a generated platform (%s %s): fix the spec or "
                                  "the generator\n%s" % (r.status, str(r.what)[:200], r.out[-4000:]))
        with _LOCK:
            m = ctx.cov.setdefault("mc", {"runs": 0, "distinct": 0, "generated": 0, "pairs": 0, "wall_s": 0.0})
            m["runs"] += 1
            m["distinct"] += r.distinct
            m["generated"] += r.generated
            m["pairs"] += len(allpairs)
            m["wall_s"] = round(m["wall_s"] + r.wall, 1)
        for pi, o in enumerate(out):
            o["dist"] = dist
            o["pnum"] = pi + 1
    # ---- T
    r, acc = tlc_validate(ctx, plats, items, tag, timeout=tlc_timeout, workers=workers)
    need_ok(r, "trace validation")
    with _LOCK:
        ctx.add_tlc(r)
        ctx.cov["traces_validated_against_impl"] += len(items)
        t = ctx.cov.setdefault("tv", {"runs": 0, "distinct": 0, "routes": 0, "wall_s": 0.0})
        t["runs"] += 1
        t["distinct"] += r.distinct
        t["routes"] += len(items)
        t["wall_s"] = round(t["wall_s"] + r.wall, 1)
    for (pi, rec), a in zip(refs, acc):
        rec["acc"] = a
    for o in out:
        o["exp"] = exp
        o["pair_pos"] = pair_pos
    return out


def classify(ctx, plats, out, tag, workers=1):
    """Second look at the routes that the strict specification rejects: returns the list of (platform index, route
    record, signature or None, explanation).  A signature is given when the rejected route is explained by one of the
    defects recorded in KNOWN_FINDINGS.jsonl (see SIG_*), decided with TLC: flags of the expected behaviours (HierMC)
    and acceptance by the machine with the deviation switched on (DEV=uprev)."""
    bad = []
    for pi, o in enumerate(out):
        for rec in o["res"]["routes"]:
            if "links" in rec and rec.get("acc"):
                continue
            bad.append((pi, rec))
    if not bad:
        return []
    # expected behaviours of the rejected pairs (strict machine)
    pairs = [(pi + 1, rec["s"], rec["d"]) for pi, rec in bad if rec["s"] != "?"]
    # flags of the expected behaviours (the links are not tracked: behaviours differing only by their links are merged)
    r, exp, _ = tlc_explore(ctx, plats, pairs, tag + "_cls", timeout=900, keep_going=True, workers=workers, track=False)
    with _LOCK:
        ctx.add_tlc(r)
    if r.status not in ("ok", "invariant"):
        raise vlib.InfraError("classification run failed: %s %s\n%s" % (r.status, str(r.what)[:200], r.out[-3000:]))
    expmap = {}
    for (p, s, d), e in zip(pairs, exp):
        expmap[(p - 1, s, d)] = e
    # the same routes under the machine that models the known reversal
    items = [(pi + 1, rec["s"], rec["d"], rec["ids"]) for pi, rec in bad if "ids" in rec]
    r2, acc2 = tlc_validate(ctx, plats, items, tag + "_dev", dev="known", timeout=900, workers=workers)
    with _LOCK:
        ctx.add_tlc(r2)
    need_ok(r2, "trace validation (deviation run)")
    devacc = {}
    for (p, s, d, l), a in zip(items, acc2):
        devacc[(p - 1, s, d, tuple(l))] = a
    res = []
    for pi, rec in bad:
        e = expmap.get((pi, rec["s"], rec["d"]), [])
        flags = set()
        for x in e:
            flags |= set(x["fl"])
        sig = None
        why = ""
        da = devacc.get((pi, rec["s"], rec["d"], tuple(rec["ids"]))) if "ids" in rec else None
        dfl = set(f for a in (da or []) for f in a["fl"])
        if da and "hbypskip" in dfl and "hbypx" in flags:
            sig, why = SIG_HBYPX, ("accepted by the machine that ignores the bypass route declared for two end points that "
                                   "are not both direct members of the declaring zone")
        elif da and "djkrev" in dfl:
            sig, why = SIG_DJKREV, "accepted by the machine that reverses the links of the multi-link routes of Dijkstra zones"
        elif "djkpre" in flags and "ids" in rec:
            sig, why = SIG_DJKREV, "the links of the Dijkstra zone are put in front of the route under construction"
        elif da and "uprev" in dfl:
            sig, why = SIG_UPREV, "accepted by the machine that reverses the multi-link routes taken on the way up"
        elif "bypself" in flags:
            sig, why = SIG_BYPSELF, "the end point is the gateway of the bypass route: its route to itself is added"
        elif "offchain" in flags:
            sig, why = SIG_OFFCHAIN, "a gateway of the expected route is not in a zone above the end point"
        elif "djkgw" in flags and "ids" not in rec:
            sig, why = SIG_DJK, "Dijkstra zone crossing a zone between two different gateways"
        elif "dfchassis" in flags:
            sig, why = SIG_DFCH, "dragonfly route inside a group starting from a router outside the first chassis"
        elif "dfgate" in flags:
            sig, why = SIG_DF, "dragonfly with more groups than routers per chassis"
        rec["exp_fl"] = sorted(flags)
        res.append((pi, rec, sig, why, e))
    # the expected routes of a few unexplained rejections, for the report
    un = [k for k, x in enumerate(res) if x[2] is None and x[1]["s"] != "?"][:6]
    if un:
        r3, exp3, _ = tlc_explore(ctx, plats, [(res[k][0] + 1, res[k][1]["s"], res[k][1]["d"]) for k in un], tag + "_exp",
                                  timeout=300, keep_going=True, workers=workers)
        for k, e3 in zip(un, exp3):
            res[k] = res[k][:4] + (e3,)
    return res


def report(ctx, plats, cls):
    """one violation per rejected route (known findings are folded by vlib)"""
    for pi, rec, sig, why, e in cls:
        plat = plats[pi]
        got = rec.get("links", "exception: " + rec["err"] if "err" in rec else "abort (signal %s)" % rec.get("abort"))
        names = lambda ids: [plat.lk[i - 1]["name"] if 1 <= i <= len(plat.lk) else "?%d" % i for i in ids]
        detail = "platform %s\npair %s -> %s\nreturned: %s\nexpected (%d behaviour(s) of Hier):\n%s\n%s" % (
            plat.name, rec["s"], rec["d"], got, len(e),
            "\n".join("  %s  latency %d ticks %s flags %s" % (names(x["l"]), x["lat"], x["vt"] or "", x["fl"]) for x in e[:8]),
            why)
        ctx.violation("route %s -> %s is not a behaviour of the routing specification%s" % (
                          rec["s"], rec["d"], " [" + why + "]" if why else ""),
                      files={"platform.txt": plat.xml or plat.token_text(), "platform.json": json.dumps(plat.to_json()),
                             "howto.txt": "LD_LIBRARY_PATH=.build/sg/lib .build/harness/route_driver platform.txt; "
                                          "validate with spec/routing/HierTrace.tla (PLATS=[platform.json])\n"},
                      signature="%s:%s" % (ctx.prop, sig) if sig else "%s:route:%s" % (
                          ctx.prop, vlib.canon_hash([plat.token_text(), rec["s"], rec["d"]])),
                      detail=detail)


def check_latencies(ctx, plats, out):
    """accepted routes: the latency returned must be the latency of an accepting behaviour"""
    n = 0
    for pi, o in enumerate(out):
        plat = plats[pi]
        for rec in o["res"]["routes"]:
            if "links" not in rec or not rec.get("acc"):
                continue
            n += 1
            if not any(latency_matches(a, rec["lat"]) for a in rec["acc"]):
                ctx.violation("latency of route %s -> %s is %r, the sum of its links (+ Vivaldi terms) is %r" % (
                                  rec["s"], rec["d"], rec["lat"], [expected_latency(a) for a in rec["acc"]]),
                              files={"platform.txt": plat.xml or plat.token_text()},
                              signature="%s:latency:%s" % (ctx.prop, vlib.canon_hash([plat.token_text(), rec["s"], rec["d"]])),
                              detail="links %s\naccepting behaviours %s" % (rec["links"], rec["acc"]))
    return n


# ------------------------------------------------------------------------------------------- generators

class Namer:
    def __init__(self):
        self.n = {}

    def __call__(self, prefix):
        self.n[prefix] = self.n.get(prefix, 0) + 1
        return "%s%d" % (prefix, self.n[prefix])


def _mk_links(p, rng, nm, zone, k, split_prob=0.3):
    """k fresh links in the zone; returns forward tokens"""
    toks = []
    for _ in range(k):
        name = nm("l")
        if rng.random() < split_prob:
            p.link(name, zone, rng.randint(0, 9), split=True)
            toks.append(name + (":U" if rng.random() < 0.7 else ":D"))
        else:
            p.link(name, zone, rng.randint(0, 9))
            toks.append(name)
    return toks


def _route_links(p, rng, nm, zone, pool, maxlen=3):
    """a link list for a declared route: fresh links, sometimes re-using links of the zone's pool"""
    k = rng.choice([1, 1, 2, 2, 3][:2 + maxlen])
    out = []
    for _ in range(k):
        if pool and rng.random() < 0.35:
            t = rng.choice(pool)
            if t not in out:
                out.append(t)
                continue
        t = _mk_links(p, rng, nm, zone, 1)[0]
        pool.append(t)
        out.append(t)
    return out


def leaf_zone(p, rng, nm, parent, kind, nhosts):
    """creates a leaf zone; returns (zone name, [gateway candidates that are direct members])"""
    z = nm("z")
    if kind in CLUSTERS:
        if kind == "torus":
            dims = rng.choice([[2], [3], [4], [2, 2], [2, 3], [3, 2], [5], [2, 2, 2]])
            p.cluster(z, "torus", parent, lat=rng.randint(1, 5), split=rng.random() < 0.6,
                      loop=rng.choice([-1, -1, 2]), lim=rng.choice([0, 0, 1]), dims=dims)
        elif kind == "fattree":
            sh = rng.choice([dict(lv=1, down=[3], up=[1], cnt=[1]), dict(lv=1, down=[2], up=[2], cnt=[2]),
                             dict(lv=2, down=[2, 2], up=[1, 2], cnt=[1, 1]), dict(lv=2, down=[2, 3], up=[2, 1], cnt=[1, 2])])
            p.cluster(z, "fattree", parent, lat=rng.randint(1, 5), split=rng.random() < 0.6,
                      loop=rng.choice([-1, -1, 2]), lim=rng.choice([0, 0, 1, 2]), **sh)
        else:
            sh = rng.choice([dict(g=1, c=2, b=2, n=1), dict(g=2, c=1, b=2, n=1), dict(g=2, c=1, b=2, n=2),
                             dict(g=1, c=1, b=3, n=2), dict(g=2, c=2, b=2, n=1)])
            p.cluster(z, "dragonfly", parent, lat=rng.randint(1, 5), split=rng.random() < 0.6,
                      loop=rng.choice([-1, -1, 2]), lim=rng.choice([0, 0, 1, 2]), **sh)
        hs = [p.np[m - 1]["name"] for m in p.nz[p.zi[z] - 1]["mem"]]
        return z, [rng.choice(hs)]
    p.zone(z, kind, parent)
    if kind == "empty":
        h = nm("h")
        p.host(h, z)
        return z, [h]
    viv = kind == "vivaldi"
    co = (lambda: (rng.randint(-20, 20), rng.randint(-20, 20), rng.randint(-3, 5))) if viv else (lambda: None)
    hs = []
    for _ in range(max(1, nhosts)):
        h = nm("h")
        p.host(h, z, coords=co())
        hs.append(h)
    members = list(hs)
    gws = []
    if kind == "wifi":
        ap = nm("r")
        p.router(ap, z)
        p.tokens.append("prop %s access_point %s" % (z, ap))
        w = nm("w")
        p.link(w, z, 0, kind="wifi")
        zr = p.nz[p.zi[z] - 1]
        zr["wl"], zr["ap"] = p.lki[w], p.npi[ap]
        return z, [ap]
    if rng.random() < 0.6 or kind in StarLike:
        r = nm("r")
        p.router(r, z, coords=co())
        if kind not in StarLike:
            members.append(r)
        gws.append(r)
    if rng.random() < 0.6 or not gws:
        gws.append(rng.choice(hs))
    pool = []
    if kind == "full":
        for i in range(len(members)):
            for j in range(i + 1, len(members)):
                a, b = members[i], members[j]
                if rng.random() < 0.6:
                    p.route(z, a, b, None, None, _route_links(p, rng, nm, z, pool), True)
                else:
                    p.route(z, a, b, None, None, _route_links(p, rng, nm, z, pool), False)
                    p.route(z, b, a, None, None, _route_links(p, rng, nm, z, pool), False)
        if rng.random() < 0.3:      # an explicit loopback route
            h = rng.choice(hs)
            p.route(z, h, h, None, None, _mk_links(p, rng, nm, z, 1, 0), False)
        if len(hs) >= 2 and rng.random() < 0.3:   # a bypass route between two hosts of the zone
            a, b = rng.sample(hs, 2)
            p.bypass(z, a, b, None, None, _mk_links(p, rng, nm, z, rng.randint(1, 2), 0))
    elif kind in SPK:
        _sp_graph(p, rng, nm, z, members, pool)
    else:  # star / vivaldi
        bb = None
        if rng.random() < 0.5:
            bb = nm("l")
            p.link(bb, z, rng.randint(0, 9))
        for h in hs:
            lim = []
            if rng.random() < 0.3:
                ln = nm("l")
                p.link(ln, z, 0)
                lim = [ln]
            priv = _mk_links(p, rng, nm, z, rng.choice([1, 1, 2]), 0.5)
            up = lim + priv + ([bb] if bb else [])
            if rng.random() < 0.7:
                p.route(z, h, None, None, None, up, True)
            else:
                p.route(z, h, None, None, None, up, False)
                dn = ([bb] if bb else []) + _mk_links(p, rng, nm, z, rng.choice([1, 2]), 0.0) + lim
                p.route(z, None, h, None, None, dn, False)
            if not viv and rng.random() < 0.3:
                p.route(z, h, h, None, None, _mk_links(p, rng, nm, z, 1, 0), False)
    return z, gws


StarLike = ("star", "vivaldi")


def _sp_graph(p, rng, nm, z, members, pool, gw=None, extra=None):
    """random connected graph of one-hop routes over the members (spanning tree + extra edges), each edge symmetrical
    or declared in both directions with different links.  gw(member, other) gives the gateway of a member zone."""
    order = list(members)
    rng.shuffle(order)
    edges = set()
    for i in range(1, len(order)):
        edges.add((order[rng.randrange(i)], order[i]))
    n = len(order)
    want = extra if extra is not None else rng.randint(0, max(0, n // 2))
    tries = 0
    while want > 0 and tries < 50 and n > 2:
        tries += 1
        a, b = rng.sample(order, 2)
        if (a, b) in edges or (b, a) in edges:
            continue
        edges.add((a, b))
        want -= 1
    for a, b in sorted(edges):
        ga, gb = (gw(a, b), gw(b, a)) if gw else (None, None)
        if rng.random() < 0.6:
            p.route(z, a, b, ga, gb, _route_links(p, rng, nm, z, pool), True)
        else:
            p.route(z, a, b, ga, gb, _route_links(p, rng, nm, z, pool), False)
            ga2, gb2 = (gw(a, b), gw(b, a)) if gw else (None, None)
            p.route(z, b, a, gb2, ga2, _route_links(p, rng, nm, z, pool), False)


LEAF_KINDS = ["full", "full", "floyd", "dijkstra", "dijkstracache", "star", "star", "vivaldi", "wifi", "empty", "torus",
              "fattree", "dragonfly"]
INNER_KINDS = ["full", "full", "floyd", "dijkstra", "dijkstracache", "star", "star"]


def gen_hier(rng, name, levels=None, max_hosts=40, style=None):
    """A nested platform: `levels` levels of zones under the root (<= 3).  style:
       onchain  every gateway is a direct member of the zone it represents (inner zones are Star zones with a router)
       doc      gateways may live anywhere below their zone, as in the documentation's example"""
    p = Plat(name)
    nm = Namer()
    levels = levels or rng.choice([1, 2, 2, 3, 3])
    style = style or rng.choice(["onchain", "onchain", "doc"])
    p.meta = {"levels": levels, "style": style}
    budget = [max_hosts]

    def build(parent, level):
        """returns (zone name, direct gateway candidates, all hosts/routers below)"""
        if level == levels:
            kind = rng.choice(LEAF_KINDS)
            nh = rng.randint(2 if kind in SPK else 1, 4)
            if budget[0] < 4 and kind not in ("full", "star", "empty"):
                kind, nh = rng.choice(["full", "star", "empty"]), 1
            z, gws = leaf_zone(p, rng, nm, parent, kind, nh)
            zi = p.zi[z]
            below = [n["name"] for n in p.np if n["k"] != "zone" and zi in _zpath(p, n["z"])]
            budget[0] -= sum(1 for x in below if p.np[p.npi[x] - 1]["k"] == "host")
            return z, gws, below
        kind = rng.choice(INNER_KINDS) if not (style == "onchain" and level > 1) else "star"
        z = nm("z")
        p.zone(z, kind, parent)
        kids = []
        nk = rng.randint(2, 3 if level > 1 else 4)
        for _ in range(nk):
            if budget[0] <= 0 and len(kids) >= 2:
                break
            kids.append(build(z, level + 1))
        direct = []
        pool = []

        def gw_of(kid):
            kz, kgws, kbelow = kid
            if not kgws or (style == "doc" and rng.random() < 0.5):
                return rng.choice(kbelow)
            return rng.choice(kgws)

        if kind in StarLike:
            r = nm("r")
            p.router(r, z)
            direct.append(r)
            if rng.random() < 0.4 and budget[0] > 0:     # a host directly in the star, next to the sub-zones
                h = nm("h")
                p.host(h, z)
                budget[0] -= 1
                p.route(z, h, None, None, None, _mk_links(p, rng, nm, z, rng.choice([1, 2]), 0.4), True)
                direct.append(h)
            bb = None
            if rng.random() < 0.4:
                bb = nm("l")
                p.link(bb, z, rng.randint(0, 9))
            for kid in kids:
                g = gw_of(kid)
                up = _mk_links(p, rng, nm, z, rng.choice([1, 1, 2]), 0.4) + ([bb] if bb else [])
                if rng.random() < 0.7:
                    p.route(z, kid[0], None, g, None, up, True)
                else:
                    p.route(z, kid[0], None, g, None, up, False)
                    p.route(z, None, kid[0], None, g, ([bb] if bb else []) + _mk_links(p, rng, nm, z, 1, 0), False)
        elif kind == "full":
            for i in range(len(kids)):
                for j in range(i + 1, len(kids)):
                    a, b = kids[i], kids[j]
                    if rng.random() < 0.6:
                        p.route(z, a[0], b[0], gw_of(a), gw_of(b), _route_links(p, rng, nm, z, pool), True)
                    else:
                        p.route(z, a[0], b[0], gw_of(a), gw_of(b), _route_links(p, rng, nm, z, pool), False)
                        p.route(z, b[0], a[0], gw_of(b), gw_of(a), _route_links(p, rng, nm, z, pool), False)
        else:
            fixed = {k[0]: gw_of(k) for k in kids}
            kd = {k[0]: k for k in kids}
            # Dijkstra zones: mostly one gateway per member zone (entering and leaving a zone through two different
            # gateways is a recorded defect of DijkstraZone)
            vary = kind == "floyd" or rng.random() < 0.25
            _sp_graph(p, rng, nm, z, [k[0] for k in kids], pool,
                      gw=lambda a, b: gw_of(kd[a]) if vary and rng.random() < 0.5 else fixed[a])
        below = [x for k in kids for x in k[2]] + direct
        # bypass route between two zones of different branches
        if kind in ROUTED + StarLike and len(kids) >= 2 and rng.random() < 0.35:
            a, b = rng.sample(kids, 2)
            za = rng.choice([a[0]] + _subzones(p, a[0]))
            zb = rng.choice([b[0]] + _subzones(p, b[0]))
            ga = _direct_members(p, za)
            gb = _direct_members(p, zb)
            if ga and gb:
                p.bypass(z, za, zb, rng.choice(ga), rng.choice(gb), _mk_links(p, rng, nm, z, rng.randint(1, 2), 0))
        return z, direct, below

    if levels == 1:
        kind = rng.choice(LEAF_KINDS)
        leaf_zone(p, rng, nm, "_world_", kind, rng.randint(2, 6))
    else:
        build("_world_", 1)
    p.pairs = p.all_pairs()
    p.pass2 = any(z["kind"] == "dijkstracache" for z in p.nz)
    return p


def _bd_leaf(p, rng, nm, parent, nh):
    """a small leaf zone (Full, Floyd or Star) with nh hosts and a router that is its gateway (never an end point);
    returns (zone name, router, hosts)"""
    kind = rng.choice(["full", "full", "floyd", "star"])
    z = nm("z")
    p.zone(z, kind, parent)
    hs = []
    for _ in range(nh):
        h = nm("h")
        p.host(h, z)
        hs.append(h)
    r = nm("r")
    p.router(r, z)
    pool = []
    if kind == "full":
        members = hs + [r]
        for i in range(len(members)):
            for j in range(i + 1, len(members)):
                a, b = members[i], members[j]
                if rng.random() < 0.6:
                    p.route(z, a, b, None, None, _route_links(p, rng, nm, z, pool, 2), True)
                else:
                    p.route(z, a, b, None, None, _route_links(p, rng, nm, z, pool, 2), False)
                    p.route(z, b, a, None, None, _route_links(p, rng, nm, z, pool, 2), False)
        if len(hs) >= 2 and rng.random() < 0.4:     # a bypass route between two hosts of the zone
            a, b = rng.sample(hs, 2)
            p.bypass(z, a, b, None, None, _mk_links(p, rng, nm, z, rng.randint(1, 2), 0))
    elif kind == "floyd":
        _sp_graph(p, rng, nm, z, hs + [r], pool)
    else:
        for h in hs:
            up = _mk_links(p, rng, nm, z, rng.choice([1, 1, 2]), 0.5)
            if rng.random() < 0.7:
                p.route(z, h, None, None, None, up, True)
            else:
                p.route(z, h, None, None, None, up, False)
                p.route(z, None, h, None, None, _mk_links(p, rng, nm, z, rng.choice([1, 2]), 0.0), False)
    return z, r, hs


def gen_bypass_depths(rng, name, cross_host=True):
    """Platforms dedicated to the lookup of bypass routes (NetZoneImpl::get_bypass_route): three levels; the zone Z of
    level 1 (Full, Floyd or Star) declares the routes between its children and several bypass routes between zones
    taken at any depth below two different children (child <-> child, child <-> grand-child, grand-child <->
    grand-child, in both directions, several of them applying to the same pair of hosts), used by hosts that sit at
    the same or at different depths (directly in a child of Z / in a grand-child).  cross_host: Z also declares bypass
    routes between two hosts of different zones (documentation: "between any hosts, even if they are not in the same
    zone").  Built so that no recorded defect is on the way of the routes that use a bypass: every gateway is a router
    that is a direct member of its zone (never an end point), no Dijkstra or Dragonfly zone, and with three levels no
    zone route is taken on the way up to the gateway of a bypass."""
    p = Plat(name)
    nm = Namer()
    zk = rng.choice(["full", "full", "floyd", "star"])
    Z = nm("z")
    p.zone(Z, zk)
    kids = []      # dicts z, gw, subs [(zone, router, hosts)], hosts (direct), deep

    def deep_kid():
        a = nm("z")
        p.zone(a, "star", Z)
        gw = nm("r")
        p.router(gw, a)
        bb = None
        if rng.random() < 0.3:
            bb = nm("l")
            p.link(bb, a, rng.randint(0, 9))
        direct = []
        for _ in range(rng.choice([1, 1, 2])):
            h = nm("h")
            p.host(h, a)
            up = _mk_links(p, rng, nm, a, rng.choice([1, 1, 2]), 0.4) + ([bb] if bb else [])
            p.route(a, h, None, None, None, up, True)
            direct.append(h)
        if len(direct) == 2 and rng.random() < 0.5:      # a bypass route between two hosts of the zone
            p.bypass(a, direct[0], direct[1], None, None, _mk_links(p, rng, nm, a, 1, 0))
        subs = []
        for _ in range(rng.choice([1, 2, 2])):
            sz, sr, shs = _bd_leaf(p, rng, nm, a, rng.choice([1, 1, 2]))
            # mostly one-link routes between a sub-zone and the star (a multi-link route taken on the way up is returned
            # reversed: recorded defect; it is not on the way of the routes using a bypass of Z)
            up = _mk_links(p, rng, nm, a, 1, 0.4) + ([bb] if bb and rng.random() < 0.3 else [])
            if rng.random() < 0.7:
                p.route(a, sz, None, sr, None, up, True)
            else:
                p.route(a, sz, None, sr, None, up, False)
                p.route(a, None, sz, None, sr, _mk_links(p, rng, nm, a, 1, 0), False)
            subs.append((sz, sr, shs))
        if len(subs) == 2 and rng.random() < 0.4:        # a bypass route between the two sub-zones (same depth)
            (s1, r1, _), (s2, r2, _) = subs
            p.bypass(a, s1, s2, r1, r2, _mk_links(p, rng, nm, a, rng.randint(1, 2), 0))
        return {"z": a, "gw": gw, "subs": subs, "hosts": direct, "deep": True}

    def flat_kid():
        z, r, hs = _bd_leaf(p, rng, nm, Z, rng.choice([1, 2]))
        return {"z": z, "gw": r, "subs": [], "hosts": hs, "deep": False}

    kids.append(deep_kid())
    kids.append(deep_kid() if rng.random() < 0.5 else flat_kid())
    if rng.random() < 0.5:
        kids.append(flat_kid() if rng.random() < 0.6 else deep_kid())
    rng.shuffle(kids)
    gwof = {k["z"]: k["gw"] for k in kids}
    pool = []
    if zk == "full":
        for i in range(len(kids)):
            for j in range(i + 1, len(kids)):
                a, b = kids[i]["z"], kids[j]["z"]
                if rng.random() < 0.6:
                    p.route(Z, a, b, gwof[a], gwof[b], _route_links(p, rng, nm, Z, pool), True)
                else:
                    p.route(Z, a, b, gwof[a], gwof[b], _route_links(p, rng, nm, Z, pool), False)
                    p.route(Z, b, a, gwof[b], gwof[a], _route_links(p, rng, nm, Z, pool), False)
    elif zk == "floyd":
        _sp_graph(p, rng, nm, Z, [k["z"] for k in kids], pool, gw=lambda a, b: gwof[a])
    else:
        r = nm("r")
        p.router(r, Z)
        if rng.random() < 0.5:                           # a host directly in Z: no bypass applies to it
            h = nm("h")
            p.host(h, Z)
            p.route(Z, h, None, None, None, _mk_links(p, rng, nm, Z, rng.choice([1, 2]), 0.4), True)
        for k in kids:
            up = _mk_links(p, rng, nm, Z, rng.choice([1, 2]), 0.4)
            if rng.random() < 0.7:
                p.route(Z, k["z"], None, k["gw"], None, up, True)
            else:
                p.route(Z, k["z"], None, k["gw"], None, up, False)
                p.route(Z, None, k["z"], None, k["gw"], _mk_links(p, rng, nm, Z, rng.choice([1, 2]), 0), False)
    # ---- bypass routes of Z between zones below two different children
    keys = {k["z"]: [(k["z"], k["gw"], 0)] + [(sz, sr, 1) for sz, sr, _ in k["subs"]] for k in kids}
    declared = set()

    def byp(ka, kb):
        if (ka[0], kb[0]) in declared:
            return
        declared.add((ka[0], kb[0]))
        p.bypass(Z, ka[0], kb[0], ka[1], kb[1], _mk_links(p, rng, nm, Z, rng.randint(1, 2), 0))

    deep = [k for k in kids if k["deep"]]
    A = rng.choice(deep)
    B = rng.choice([k for k in kids if k is not A])
    # the child A (it has grand-children) <-> the child B, both directions: found at the indices (1, 0) / (0, 1) by a
    # host of a grand-child of A talking to a host that is directly in B
    byp(keys[A["z"]][0], keys[B["z"]][0])
    byp(keys[B["z"]][0], keys[A["z"]][0])
    if B["deep"] and rng.random() < 0.6:
        # two bypasses that apply to the same hosts (grand-child of A -> grand-child of B), found at the indices (0, 1)
        # and (1, 0): the order of the lookup decides
        ka, kb = rng.choice(keys[A["z"]][1:]), rng.choice(keys[B["z"]][1:])
        byp(ka, keys[B["z"]][0])
        byp(keys[A["z"]][0], kb)
    cands = [(ka, kb) for x in kids for y in kids if x is not y for ka in keys[x["z"]] for kb in keys[y["z"]]]
    skew = [c for c in cands if c[0][2] != c[1][2]]
    rng.shuffle(cands)
    rng.shuffle(skew)
    # a grand-child <-> a child (zones of different depths), then any pairs
    for c in skew[:rng.choice([1, 2])] + cands[:rng.choice([1, 2, 3])]:
        byp(*c)
    # ---- bypass routes of Z between two hosts of different children
    nhx = 0
    if cross_host:
        def hosts_of(k):
            return [(h, 0) for h in k["hosts"]] + [(h, 1) for _, _, hs in k["subs"] for h in hs]
        hp = [(a, b) for x in kids for y in kids if x is not y for a in hosts_of(x) for b in hosts_of(y)]
        rng.shuffle(hp)
        hp.sort(key=lambda ab: ab[0][1] == ab[1][1])       # hosts at different depths first
        for (a, _), (b, _) in hp[:rng.choice([1, 2])]:
            p.bypass(Z, a, b, None, None, _mk_links(p, rng, nm, Z, rng.randint(1, 2), 0))
            nhx += 1
    p.pairs = p.all_pairs()
    p.meta = {"levels": 3, "style": "bypass-depths", "top": zk, "zone_bypasses": len(declared), "cross_zone_host_bypasses": nhx}
    return p


def _zpath(p, zi):
    out = []
    while zi:
        out.append(zi)
        zi = p.nz[zi - 1]["par"]
    return out


def _subzones(p, zname):
    zi = p.zi[zname]
    return [z["name"] for i, z in enumerate(p.nz) if i + 1 != zi and zi in _zpath(p, i + 1)
            and not re.search(r"_z\d+$", z["name"])]


def _direct_members(p, zname):
    z = p.nz[p.zi[zname] - 1]
    return [p.np[m - 1]["name"] for m in z["mem"] if p.np[m - 1]["k"] != "zone"]


def gen_cluster_parent(rng, name):
    """a cluster zone whose leaves are zones (single-host Full zones created by the callback)"""
    p = Plat(name)
    kind = rng.choice(CLUSTERS)
    if kind == "torus":
        p.cluster("K", "torus", lat=rng.randint(1, 5), split=rng.random() < 0.5, loop=rng.choice([-1, 2]),
                  lim=rng.choice([0, 1]), leafzone=True, dims=rng.choice([[2, 2], [3], [2, 3], [4]]))
    elif kind == "fattree":
        p.cluster("K", "fattree", lat=rng.randint(1, 5), split=rng.random() < 0.5, loop=rng.choice([-1, 2]),
                  lim=rng.choice([0, 1, 2]), leafzone=True, lv=2, down=[2, 2], up=[1, 2], cnt=[1, 1])
    else:
        p.cluster("K", "dragonfly", lat=rng.randint(1, 5), split=rng.random() < 0.5, loop=rng.choice([-1, 2]),
                  lim=rng.choice([0, 1, 2]), leafzone=True, g=2, c=1, b=2, n=2)
    p.meta = {"levels": 2, "style": "cluster-of-zones"}
    hs = p.hosts()
    p.pairs = [(s, d) for s in hs for d in hs if s != d]
    return p


def doc_example():
    """the example of the documentation (Platform_routing.rst, "Calculating network paths"): Host1@AS2 -> Host2@AS5-4
    goes through {Link1, Link3, Link2}"""
    p = Plat("doc-example")
    p.zone("AS1", "full")
    p.zone("AS2", "full", "AS1")
    p.host("Host1", "AS2")
    p.zone("AS5", "full", "AS1")
    p.zone("AS5-3", "full", "AS5")
    p.router("gw1", "AS5-3")
    p.zone("AS5-4", "full", "AS5")
    p.host("Host2", "AS5-4")
    p.router("gw2", "AS5-4")
    p.link("Link2", "AS5-4", 1)
    p.route("AS5-4", "Host2", "gw2", None, None, ["Link2"], True)
    p.link("Link3", "AS5", 2)
    p.route("AS5", "AS5-4", "AS5-3", "gw2", "gw1", ["Link3"], True)
    p.link("Link1", "AS1", 4)
    p.route("AS1", "AS2", "AS5", "Host1", "gw1", ["Link1"], True)
    p.pairs = [("Host1", "Host2"), ("Host2", "Host1")]
    p.meta = {"levels": 3, "style": "doc"}
    return p


def nested_star_example():
    """three levels of Star zones (examples/platforms/supernode.cpp) with two-link routes (private link + backbone, as in
    examples/platforms/routing_cluster.cpp)"""
    p = Plat("nested-stars")
    p.zone("top", "star")
    p.zone("A", "star", "top")
    p.zone("B", "star", "A")
    for h, lat in (("b1", 1), ("b2", 2)):
        p.host(h, "B")
        p.link("l" + h, "B", lat)
        p.link("x" + h, "B", lat + 2)
        p.route("B", h, None, None, None, ["l" + h, "x" + h], True)
    p.router("rB", "B")
    p.link("lBa", "A", 8)
    p.link("bbA", "A", 16)
    p.route("A", "B", None, "rB", None, ["lBa", "bbA"], True)
    p.router("rA", "A")
    p.host("t1", "top")
    p.link("lt1", "top", 32)
    p.route("top", "t1", None, None, None, ["lt1"], True)
    p.link("lA1", "top", 64)
    p.link("bbT", "top", 128)
    p.route("top", "A", None, "rA", None, ["lA1", "bbT"], True)
    p.pairs = p.all_pairs()
    p.meta = {"levels": 3, "style": "onchain"}
    return p


# ------------------------------------------------------------------------------------------- C25: random graphs

def gen_graph(rng, nmax=30, nmin=3, maxlinks=3, dense=False):
    """random connected graph description: nodes (hosts and routers), one-hop routes with 1..3 links, symmetrical or
    declared in both directions with different links (then possibly of different lengths)"""
    n = rng.randint(nmin, nmax)
    nodes = [("h%d" % (i + 1), "host") if (i < 2 or rng.random() < 0.7) else ("r%d" % (i + 1), "router") for i in range(n)]
    names = [x[0] for x in nodes]
    order = list(names)
    rng.shuffle(order)
    und = set()
    for i in range(1, n):
        und.add((order[rng.randrange(i)], order[i]))
    extra = rng.randint(n, 2 * n) if dense else rng.randint(0, n)      # dense: many alternative chains
    tries = 0
    while extra > 0 and tries < 200 and n > 2:
        tries += 1
        a, b = rng.sample(names, 2)
        if (a, b) in und or (b, a) in und:
            continue
        und.add((a, b))
        extra -= 1
    links = []   # (name, lat, split)
    pool = []

    def mk():
        name = "l%d" % (len(links) + 1)
        split = rng.random() < 0.25
        links.append((name, rng.randint(0, 9), split))
        tok = name + ((":U" if rng.random() < 0.7 else ":D") if split else "")
        pool.append(tok)
        return tok

    def rl():
        k = rng.choice([1, 1, 1, 2, 2, 3]) if maxlinks <= 3 else rng.randint(1, maxlinks)
        out = []
        for _ in range(k):
            t = rng.choice(pool) if pool and rng.random() < 0.25 else mk()
            if t.split(":")[0] in [x.split(":")[0] for x in out]:
                t = mk()
            out.append(t)
        return out

    routes = []  # (s, d, links, sym)
    for a, b in sorted(und):
        if rng.random() < 0.55:
            routes.append((a, b, rl(), True))
        else:
            routes.append((a, b, rl(), False))
            routes.append((b, a, rl(), False))
    loops = []
    for nme, k in nodes:
        if k == "host" and rng.random() < 0.1:
            loops.append((nme, [mk()]))
    return {"nodes": nodes, "links": links, "routes": routes, "loops": loops}


def plat_from_graph(kind, g, name):
    p = Plat(name)
    p.zone("Z", kind)
    for nme, k in g["nodes"]:
        (p.host if k == "host" else p.router)(nme, "Z")
    for nme, lat, split in g["links"]:
        p.link(nme, "Z", lat, split=split)
    for s, d, l, sym in g["routes"]:
        p.route("Z", s, d, None, None, l, sym)
    for h, l in g["loops"]:
        p.route("Z", h, h, None, None, l, False)
    hs = p.hosts()
    if kind == "full":
        declared = set()
        for s, d, l, sym in g["routes"]:
            declared.add((s, d))
            if sym:
                declared.add((d, s))
        p.pairs = [(s, d) for s in hs for d in hs if s == d or (s, d) in declared]
    else:
        p.pairs = [(s, d) for s in hs for d in hs]
    p.pass2 = kind == "dijkstracache"
    p.meta = {"kind": kind, "nodes": len(g["nodes"]), "routes": len(g["routes"])}
    return p


# ------------------------------------------------------------------------------------------- C26: shapes

def torus_shapes(maxdims=5, maxnodes=64, minsize=2):
    out = []

    def rec(prefix, prod):
        if prefix:
            out.append(list(prefix))
        if len(prefix) == maxdims:
            return
        for d in range(minsize, maxnodes + 1):
            if prod * d > maxnodes:
                break
            rec(prefix + [d], prod * d)
    rec([], 1)
    return out


def fattree_shapes(maxleaves=64, maxswitches=80):
    out = []
    import itertools
    for lv in (1, 2, 3):
        for down in itertools.product((1, 2, 3, 4), repeat=lv):
            n = 1
            for d in down:
                n *= d
            if n > maxleaves or n < 2:
                continue
            for up in itertools.product((1, 2, 3), repeat=lv):
                sw = 0
                for l in range(1, lv + 1):
                    c = 1
                    for i in range(lv):
                        c *= up[i] if i < l else down[i]
                    sw += c
                if sw > maxswitches:
                    continue
                for cnt in itertools.product((1, 2), repeat=lv):
                    out.append(dict(lv=lv, down=list(down), up=list(up), cnt=list(cnt)))
    return out


def dragonfly_shapes(maxv=3):
    out = []
    for g in range(1, maxv + 1):
        for c in range(1, maxv + 1):
            for b in range(1, maxv + 1):
                for n in range(1, maxv + 1):
                    if g <= c * b and g * c * b * n >= 2:     # "the n-th router of the group" must exist
                        out.append(dict(g=g, c=c, b=b, n=n))
    return out


def xml_cluster(name, n, ticks, bb, loop, lim, policy):
    """a flat <cluster> (XML_reference.rst) and its description: a Star zone where host i has the up links
    [limiter, private link (UP half), backbone], the same links backwards as down links, and an optional loopback"""
    t = lambda k: repr(k * TICK) + "s"
    attrs = ['id="%s"' % name, 'prefix="%s-"' % name, 'suffix=".x"', 'radical="0-%d"' % (n - 1), 'speed="1Gf"',
             'bw="125MBps"', 'lat="%s"' % t(ticks), 'sharing_policy="%s"' % policy]
    if bb is not None:
        attrs += ['bb_bw="1GBps"', 'bb_lat="%s"' % t(bb)]
    if loop is not None:
        attrs += ['loopback_bw="1GBps"', 'loopback_lat="%s"' % t(loop)]
    if lim:
        attrs += ['limiter_link="2GBps"']
    xml = ("<?xml version='1.0'?>\n<!DOCTYPE platform SYSTEM \"https://simgrid.org/simgrid.dtd\">\n"
           "<platform version=\"4.1\">\n  <cluster %s/>\n</platform>\n" % " ".join(attrs))
    p = Plat("xmlcluster-%s" % name)
    p.xml = xml
    p.zone(name, "star", emit=False)
    if bb is not None:
        p.link("%s_backbone" % name, name, bb, emit=False)
    for i in range(n):
        h = "%s-%d.x" % (name, i)
        p.host(h, name, emit=False)
        ln = "%s_link_%d" % (name, i)
        if loop is not None:
            p.link(ln + "_loopback", name, loop, emit=False)
            p.route(name, h, h, None, None, [ln + "_loopback"], False, emit=False)
        up = []
        if lim:
            p.link(ln + "_limiter", name, 0, emit=False)
            up.append(ln + "_limiter")
        if policy == "SPLITDUPLEX":
            p.link(ln, name, ticks, split=True, emit=False)
            up.append(ln + ":U")
        else:
            p.link(ln, name, ticks, emit=False)
            up.append(ln)
        if bb is not None:
            up.append("%s_backbone" % name)
        p.route(name, h, None, None, None, up, True, emit=False)
    p.router("%s-%s_router.x" % (name, name), name, emit=False)
    p.pairs = p.all_pairs()
    p.meta = {"kind": "xml-cluster", "n": n, "backbone": bb is not None, "loopback": loop is not None, "limiter": bool(lim),
              "policy": policy}
    return p


# ------------------------------------------------------------------------------------------- the common body of C24-C26

def run_check(ctx, plats, chunk, nontrivial, rule, mc_pairs=None):
    """chunks of platforms are processed in parallel (driver runs, one M and one T TLC run per chunk), rejections are
    classified and confirmed by running the implementation a second time, then reported from the main thread."""
    ctx.cov["rule"] = rule
    # chunk: a size, or the explicit list of the chunks (lists of platform indices)
    chunks = [list(c) for c in chunk] if isinstance(chunk, (list, tuple)) \
        else [list(range(i, min(len(plats), i + chunk))) for i in range(0, len(plats), chunk)]
    # one TLC worker per run: the inputs and tables live in TLC registers (TLCSet) and are shared, not deep-normalised
    # values; parallelism comes from running the chunks in separate TLC processes
    npar = max(1, min(max(2, (3 * vlib.NCPU) // 4), len(chunks)))
    try:
        npar = max(1, min(npar, int(os.environ.get("VERIF_TLC_WORKERS", npar))))   # cap on the concurrent TLC processes
    except ValueError:
        pass
    workers = 1

    def do(ci_idx):
        ci, idx = ci_idx
        sub = [plats[i] for i in idx]
        out = check_platforms(ctx, sub, "c%d" % ci, mc_pairs=mc_pairs, workers=workers)
        cls = classify(ctx, sub, out, "c%d" % ci, workers=workers)
        # confirmation: the implementation must return the same thing when asked again
        confirmed = []
        again = {}
        for pi, rec, sig, why, e in cls:
            if pi not in again:
                again[pi] = {(r["p"], r["s"], r["d"]): r for r in run_driver(ctx, sub[pi], "c%d_again%d" % (ci, pi))["routes"]}
            r2 = again[pi].get((rec["p"], rec["s"], rec["d"]))
            same = r2 is not None and r2.get("links") == rec.get("links") and ("err" in r2) == ("err" in rec) \
                and ("abort" in r2) == ("abort" in rec)
            if same:
                confirmed.append((pi, rec, sig, why, e))
            else:
                with _LOCK:
                    ctx.cov["unconfirmed_rejections"] = ctx.cov.get("unconfirmed_rejections", 0) + 1
        return out, confirmed

    results = vlib.parallel_map(do, list(enumerate(chunks)), nproc=npar)
    allout = [None] * len(plats)
    nacc = nrej = nknown = 0
    kinds = {}
    for (ci, idx), (out, cls) in zip(enumerate(chunks), results):
        sub = [plats[i] for i in idx]
        for j, i in enumerate(idx):
            allout[i] = out[j]
        report(ctx, sub, cls)
        check_latencies(ctx, sub, out)
        nrej += len(cls)
        nknown += sum(1 for c in cls if c[2])
        for pi, o in enumerate(out):
            plat = sub[pi]
            h = vlib.canon_hash(plat.xml or plat.token_text().split("\npair ")[0])
            for z in plat.nz[1:]:
                kinds[z["kind"]] = kinds.get(z["kind"], 0) + 1
            for rec in o["res"]["routes"]:
                if rec.get("p", 1) == 1 and rec["s"] != "?":
                    ctx.count([h, rec["s"], rec["d"]], nontrivial=nontrivial(plat, rec["s"], rec["d"]))
                if rec.get("acc"):
                    nacc += 1
            rs = [r for r in o["res"]["routes"] if r.get("acc") and len(r.get("links", [])) >= 3]
            if rs:
                r = rs[len(rs) // 2]
                ctx.sample({"platform": plat.brief(), "pair": [r["s"], r["d"]], "route": r["links"], "latency": r["lat"],
                            "accepted_with": r["acc"][0]}, limit=6)
    ctx.cov["platforms"] = len(plats)
    ctx.cov["zone_kinds"] = kinds
    ctx.cov["routes_accepted"] = nacc
    ctx.cov["routes_rejected"] = nrej
    ctx.cov["routes_rejected_explained_by_known_findings"] = nknown
    ctx.cov["exhaustive"] = False
    return allout
