"""Shared code of the SMPI run-time checks C34 (RMA), C35 (partially shared buffers), C36 (privatization), C37 (replay):
smpirun wrapper, host files, parsing of TLC's CASE/OUT prints, batching helpers."""
import json, os, re
import vlib, drivers

MSPEC = os.path.join(vlib.SPEC, "mpi")
PLATFORM = os.path.join(vlib.REPO, "examples/platforms/small_platform.xml")
HOSTS = ["Tremblay", "Jupiter", "Fafard", "Ginette", "Bourassa", "Jacquelin", "Boivin"]
BASE_CFG = ["--cfg=smpi/host-speed:1f", "--log=root.thres:critical", "--cfg=debug/stacktrace:none"]


def write_hostfile(path, hosts):
    with open(path, "w") as f:
        f.write("\n".join(hosts) + "\n")
    return path


def smpirun(drv, np, hostfile, args=(), cfg=(), timeout=120, pre=(), env=None, cwd=None, base_cfg=BASE_CFG,
            platform=None):
    """Run an SMPI binary (or a replay, with pre=['-replay', trace]); returns (rc, stdout, stderr)."""
    cmd = [vlib.SMPIRUN, "-np", str(np), "-platform", platform or PLATFORM, "-hostfile", hostfile] + list(pre) + \
        list(base_cfg) + list(cfg)
    if drv:
        cmd += [drv] + [str(a) for a in args]
    return vlib.sh(cmd, timeout=timeout, env=vlib.sg_env(env), cwd=cwd)


def tlc_or_die(r, what):
    if not r.ok:
        raise vlib.InfraError("%s: TLC did not complete (%s %s)\n%s" % (what, r.status, str(r.what)[:300], r.out[-3000:]))
    return r


def parse_prints(r, tag):
    """Tuples printed by PrintT(<<tag, ...>>) as Python lists (strings holding JSON are decoded)."""
    res = []
    prefix = '<<"%s"' % tag
    for line in r.prints:
        if not line.startswith(prefix):
            continue
        try:
            v = vlib.parse_tla_value(line)
        except Exception:
            raise vlib.InfraError("cannot parse TLC print: " + line[:300])
        out = []
        for x in v[1:]:
            if isinstance(x, str) and x[:1] in "{[":
                try:
                    x = json.loads(x)
                except ValueError:
                    pass
            out.append(x)
        res.append(out)
    return res


def chunks(seq, n):
    return [seq[i:i + n] for i in range(0, len(seq), n)]


def validate_traces(ctx, spec, progs, traces, tag="tv", timeout=1200, chunk=150, max_rej=8, progs_env="PROGS", nproc=6):
    """Generic batch trace validation (same protocol as spec/kernel/SgKernelTrace.tla): `spec` = path of X_trace.tla whose
    post-condition prints <<"PROGRESS", highest line reached, number of lines>>; traces = list of (prog index, records).
    Each execution is preceded by a reset line.  A rejected execution is removed and the rest of its batch validated
    again, so every execution is examined.  Returns a list of {prog, run, line, record, reason}."""
    pf = os.path.join(ctx.scratch, tag + "_progs.json")
    json.dump(progs, open(pf, "w"))
    jobs = chunks(list(enumerate(traces)), chunk)

    def do_chunk(ci_ch):
        ci, ch = ci_ch
        rej, acc, stats = [], 0, [0, 0]
        todo = list(ch)
        rnd = 0
        while todo and len(rej) < max_rej:
            rnd += 1
            tf = os.path.join(ctx.scratch, "%s_%d_%d.ndjson" % (tag, ci, rnd))
            ranges = []
            n = 0
            with open(tf, "w") as f:
                for run, (pi, recs) in todo:
                    start = n + 1
                    f.write(json.dumps({"e": "reset", "pid": pi + 1}) + "\n")
                    n += 1
                    for r in recs:
                        f.write(json.dumps(r) + "\n")
                        n += 1
                    ranges.append((start, n))
            r = vlib.tlc(spec, env={progs_env: pf, "TRACE": tf}, timeout=timeout, workers=1, xmx="3g")
            stats[0] += r.distinct
            stats[1] += r.generated
            if r.status not in ("ok", "invariant"):
                raise vlib.InfraError("trace validation failed to run (%s): %s\n%s" % (r.status, str(r.what)[-1500:], r.out[-1500:]))
            prog_line = total = None
            for line in r.prints:
                if line.startswith('<<"PROGRESS"'):
                    v = vlib.parse_tla_value(line)
                    prog_line, total = v[1], v[2]
            if r.status == "ok" and prog_line is None:
                raise vlib.InfraError("trace validation: no PROGRESS line\n" + r.out[-2000:])
            if r.status == "ok" and prog_line == total + 1:
                acc += len(todo)
                break
            reason = "no behaviour of the specification consumes this line"
            if r.status == "invariant":
                reason = "invariant %s violated in the state reached by the recorded execution" % r.what
                ls = [int(x) for x in re.findall(r"/\\ l = (\d+)", r.out)]
                prog_line = max(ls) if ls else 1
            bad = len(ranges) - 1
            for j, (s, e) in enumerate(ranges):
                if s <= prog_line <= e:
                    bad = j
            run, (pi, recs) = todo[bad]
            off = prog_line - ranges[bad][0]
            rej.append({"prog": pi, "run": run, "line": off, "record": recs[off - 1] if 0 < off <= len(recs) else None,
                        "reason": reason})
            acc += bad
            todo = todo[bad + 1:]
        return rej, acc, stats
    rejections = []
    accepted = 0
    for rej, acc, stats in vlib.parallel_map(do_chunk, list(enumerate(jobs)), nproc=min(nproc, vlib.NCPU)):
        rejections += rej
        accepted += acc
        ctx.cov["states"] += stats[0]
        ctx.cov["transitions"] += stats[1]
    ctx.cov["traces_validated_against_impl"] += accepted + len(rejections)
    return rejections
