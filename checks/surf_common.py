"""Shared code of the resource-model checks C19-C23 (area spec/surf, driver harness/surf_driver.cpp).

Pattern G: TLC evaluates the specification (Models / Profile / Timeline / Energy over exact rationals) on generated
cases and prints each case with its exact expected values; the driver runs the same case on the real models; Python
renders numbers (dyadic literals -> C99 hex floats), launches processes and *compares* doubles with the rationals."""
import json, math, os, re
from fractions import Fraction
import vlib, drivers

SSPEC = os.path.join(vlib.SPEC, "surf")
DRIVERS = {"surf_driver": (["surf_driver.cpp"], "s4u", ["-std=c++20"])}
BASE_CFG = ["--log=root.thres:critical", "--cfg=debug/stacktrace:none"]
REL_TOL = Fraction(1, 10 ** 9)          # relative tolerance of every comparison double <-> rational
PREC_TIMING = Fraction(1, 10 ** 9)      # SimGrid's precision/timing (default): dates closer than that are merged


def driver():
    drivers.register(DRIVERS)
    return drivers.get("surf_driver")


# ------------------------------------------------------------------------------------------------ numbers

def frac(r):
    """rational printed by TLC as [n, d]"""
    return Fraction(r[0], r[1])


def dy(m, e):
    """dyadic literal m * 2^e as an exact Fraction"""
    return Fraction(m) * (Fraction(2) ** e)


def tok(x):
    """exact rendering of a dyadic rational as a C99 hex float (the driver reads it with strtod)"""
    x = Fraction(x)
    f = float(x)
    if Fraction(f) != x:
        raise vlib.InfraError("value %s is not exactly representable as a double" % x)
    return f.hex()


def dec(x):
    """exact decimal rendering of an integer-valued rational (for --cfg values)"""
    x = Fraction(x)
    if x.denominator != 1:
        # dyadic fraction: finite decimal expansion
        s = "%.60f" % float(x)
        if Fraction(s) != x:
            raise vlib.InfraError("value %s has no exact decimal rendering" % x)
        return s.rstrip("0")
    return str(x.numerator)


def close(measured, expected, rel=REL_TOL, absolute=Fraction(0)):
    """|measured - expected| <= rel * |expected| + absolute, evaluated exactly"""
    try:
        m = Fraction(measured)
    except (ValueError, OverflowError, TypeError):
        return False
    e = Fraction(expected)
    return abs(m - e) <= rel * abs(e) + absolute


def relerr(measured, expected):
    e = Fraction(expected)
    m = Fraction(measured)
    if e == 0:
        return float(abs(m))
    return float(abs(m - e) / abs(e))


# ------------------------------------------------------------------------------------------------ running the models

def run_scenario(ctx, idx, text, cfg=(), timeout=60, keep=None):
    """Run one scenario file on the real models. Returns the list of ndjson records; a missing `end` line is turned
    into end(hang|crash)."""
    drv = driver()
    d = os.path.join(ctx.scratch, "s%d" % (idx % 64))
    os.makedirs(d, exist_ok=True)
    p = os.path.join(d, "sc%d.txt" % idx)
    with open(p, "w") as f:
        f.write(text)
    rc, out, err = vlib.sh([drv, p] + BASE_CFG + list(cfg), timeout=timeout, env=vlib.sg_env())
    recs = _parse(out)
    if not any(r.get("e") == "end" for r in recs):
        recs.append({"e": "end", "how": "hang" if rc == 124 else "crash", "rc": rc, "stderr": err[-400:]})
    if keep is None:
        try:
            os.unlink(p)
        except OSError:
            pass
    return recs


def _parse(out):
    recs = []
    for line in out.splitlines():
        line = line.strip()
        if line.startswith("{"):
            try:
                recs.append(json.loads(line))
            except ValueError:
                recs.append({"e": "garbled", "raw": line[:200]})
    return recs


_batch_no = [0]


def run_many(ctx, jobs, timeout=60, chunk=None):
    """jobs: list of (text, cfg). Runs them through the driver's batch mode (one forked child per scenario, several
    batch processes in parallel). Returns the list of record lists, in order."""
    drv = driver()
    if not jobs:
        return []
    nproc = max(2, vlib.NCPU // 2)
    chunk = chunk or max(1, min(400, (len(jobs) + nproc - 1) // nproc))
    _batch_no[0] += 1
    d = os.path.join(ctx.scratch, "b%d" % _batch_no[0])
    os.makedirs(d, exist_ok=True)
    chunks = [list(range(i, min(i + chunk, len(jobs)))) for i in range(0, len(jobs), chunk)]

    def do_chunk(ci):
        ids = chunks[ci]
        lst = os.path.join(d, "list%d.txt" % ci)
        with open(lst, "w") as f:
            for i in ids:
                p = os.path.join(d, "sc%d.txt" % i)
                with open(p, "w") as g:
                    g.write(jobs[i][0])
                f.write(" ".join([p] + BASE_CFG + list(jobs[i][1])) + "\n")
        rc, out, err = vlib.sh([drv, "--batch", lst, str(timeout)], timeout=timeout * len(ids) + 60, env=vlib.sg_env())
        res = {}
        cur = None
        for r in _parse(out):
            if r.get("e") == "begin":
                cur = ids[r["idx"]]
                res[cur] = []
            elif cur is not None:
                res[cur].append(r)
        for i in ids:
            recs = res.setdefault(i, [])
            if not any(r.get("e") == "end" for r in recs):
                recs.append({"e": "end", "how": "crash", "rc": rc, "stderr": err[-300:]})
            try:
                os.unlink(os.path.join(d, "sc%d.txt" % i))
            except OSError:
                pass
        return res

    merged = {}
    for res in vlib.parallel_map(do_chunk, list(range(len(chunks))), nproc=nproc):
        merged.update(res)
    return [merged[i] for i in range(len(jobs))]


def acts_of(recs):
    return {r["id"]: r for r in recs if r.get("e") == "act"}


def end_of(recs):
    for r in recs:
        if r.get("e") == "end":
            return r
    return {"how": "none"}


# ------------------------------------------------------------------------------------------------ TLC as oracle

def tlc_lines(ctx, module, env, tags=("CASE",), timeout=900, cfg=None):
    """Run spec/surf/<module>.tla (-workers 1: the specs use TLC registers) and return {tag: [parsed tuples]} for the
    lines <<"TAG", ...>> it prints (duplicates removed: TLC may evaluate a PrintT twice). Any TLC failure is an
    infrastructure error."""
    r = vlib.tlc(os.path.join(SSPEC, module + ".tla"), cfg=cfg, env=env, workers=1, timeout=timeout)
    ctx.add_tlc(r)
    if not r.ok:
        raise vlib.InfraError("TLC failed on %s (%s): %s\n%s" % (module, r.status, r.what[-1500:], r.out[-2500:]))
    res = {t: [] for t in tags}
    seen = set()
    for line in r.prints:
        m = re.match(r'<<"(\w+)"', line)
        if not m or m.group(1) not in res or line in seen:
            continue
        seen.add(line)
        res[m.group(1)].append(vlib.parse_tla_value(line))
    return r, res


def write_json(ctx, name, obj):
    p = os.path.join(ctx.scratch, name)
    with open(p, "w") as f:
        json.dump(obj, f)
    return p


# ------------------------------------------------------------------------------------------------ timeline scenarios
# A scenario (Python side) is a dict with Fractions; scen_json renders it for TimelineRun.tla (rationals as [n, d]),
# scen_text renders it for the driver. Spec host h (1-based) is driver host h (driver host 0 is the control host on
# which every actor lives); spec link l is driver link l-1; spec disk d is driver disk d-1; activity ids are 1-based.

def rj(x):
    x = Fraction(x)
    return [x.numerator, x.denominator]


def profile(pts, period=0, init=0):
    return {"pts": [(Fraction(t), Fraction(v)) for t, v in pts], "period": Fraction(period), "init": Fraction(init)}


TPS = 32        # ticks per second of the profile dates


def _ticks(t):
    k = Fraction(t) * TPS
    if k.denominator != 1:
        raise vlib.InfraError("profile date %s is not a whole number of ticks" % t)
    return k.numerator


def _pj(p):
    if not p:
        return {"pts": [], "period": 0, "init": [0, 1]}
    return {"pts": [{"k": _ticks(t), "v": rj(v)} for t, v in p["pts"]], "period": _ticks(p["period"]), "init": rj(p["init"])}


def new_host(speeds, cores=1, sprof=None, stprof=None, watts=(), woff=0):
    return {"speeds": [Fraction(s) for s in speeds], "cores": cores, "sprof": sprof, "stprof": stprof,
            "watts": [tuple(Fraction(x) for x in w) for w in watts], "woff": Fraction(woff)}


def new_link(bw, lat=0, bwprof=None, latprof=None, stprof=None, widle=0, wbusy=0):
    return {"bw": Fraction(bw), "lat": Fraction(lat), "bwprof": bwprof, "latprof": latprof, "stprof": stprof,
            "widle": Fraction(widle), "wbusy": Fraction(wbusy)}


def new_act(kind, start, amount, host=0, links=(), disk=0, op="read", bound=0, prio=1, threads=1):
    return {"kind": kind, "start": Fraction(start), "amount": Fraction(amount), "host": host, "links": list(links),
            "disk": disk, "op": op, "bound": Fraction(bound), "prio": prio, "threads": threads}


def new_event(t, op, a, v=0, r=0):
    return {"t": Fraction(t), "op": op, "a": a, "v": v, "r": Fraction(r)}


def new_scen(hosts=(), links=(), disks=(), acts=(), events=(), samples=()):
    return {"capcomm": False, "latwake": False, "zerolate": False, "hosts": list(hosts), "links": list(links), "disks": list(disks), "acts": list(acts),
            "events": sorted(events, key=lambda e: e["t"]), "samples": sorted(set(Fraction(s) for s in samples))}


def scen_json(sc):
    return {"capcomm": bool(sc.get("capcomm", False)), "latwake": bool(sc.get("latwake", False)),
            "zerolate": bool(sc.get("zerolate", False)), "tps": TPS,
            "hosts": [{"speeds": [rj(s) for s in h["speeds"]], "cores": h["cores"], "sprof": _pj(h["sprof"]),
                       "stprof": _pj(h["stprof"]),
                       "watts": [{"idle": rj(w[0]), "eps": rj(w[1]), "max": rj(w[2])} for w in h["watts"]],
                       "woff": rj(h["woff"])} for h in sc["hosts"]],
            "links": [{"bw": rj(l["bw"]), "lat": rj(l["lat"]), "bwprof": _pj(l["bwprof"]), "latprof": _pj(l["latprof"]),
                       "stprof": _pj(l["stprof"]), "widle": rj(l["widle"]), "wbusy": rj(l["wbusy"])} for l in sc["links"]],
            "disks": [{"rbw": rj(d["rbw"]), "wbw": rj(d["wbw"])} for d in sc["disks"]],
            "acts": [{"kind": a["kind"], "start": rj(a["start"]), "amount": rj(a["amount"]), "host": a["host"],
                      "links": a["links"], "disk": a["disk"], "op": a["op"], "bound": rj(a["bound"]), "prio": a["prio"],
                      "threads": a["threads"]} for a in sc["acts"]],
            "events": [{"t": rj(e["t"]), "op": e["op"], "a": e["a"], "v": e["v"], "r": rj(e["r"])} for e in sc["events"]],
            "samples": [rj(s) for s in sc["samples"]]}


def _ptext(kind, idx, what, p):
    return "%s %d %s %s %d %s" % (kind, idx, what, tok(p["period"]) if p["period"] > 0 else "-1", len(p["pts"]),
                                  " ".join("%s %s" % (tok(t), tok(v)) for t, v in p["pts"]))


def _num(x):
    x = Fraction(x)
    return str(x.numerator) if x.denominator == 1 else repr(float(x))


def scen_text(sc, observe=False, host_energy=False, link_energy=False):
    out = []
    if host_energy:
        out.append("plugin host_energy")
    if link_energy:
        out.append("plugin link_energy")
    out.append("host ctl 1 1 0x1p0")
    for i, h in enumerate(sc["hosts"]):
        out.append("host h%d %d %d %s" % (i + 1, h["cores"], len(h["speeds"]), " ".join(tok(s) for s in h["speeds"])))
        if h["watts"]:
            out.append("hprop %d wattage_per_state %s" % (i + 1, ",".join("%s:%s:%s" % tuple(_num(x) for x in w) for w in h["watts"])))
            out.append("hprop %d wattage_off %s" % (i + 1, _num(h["woff"])))
        if h["sprof"]:
            out.append(_ptext("hprofile", i + 1, "speed", h["sprof"]))
        if h["stprof"]:
            out.append(_ptext("hprofile", i + 1, "state", h["stprof"]))
    for i, l in enumerate(sc["links"]):
        out.append("link l%d %s %s SHARED" % (i + 1, tok(l["bw"]), tok(l["lat"])))
        if l["widle"] or l["wbusy"]:
            out.append("lprop %d wattage_range %s:%s" % (i, _num(l["widle"]), _num(l["wbusy"])))
        for what, key in (("bw", "bwprof"), ("lat", "latprof"), ("state", "stprof")):
            if l[key]:
                out.append(_ptext("lprofile", i, what, l[key]))
    for i, d in enumerate(sc["disks"]):
        out.append("disk 0 d%d %s %s" % (i + 1, tok(d["rbw"]), tok(d["wbw"])))
    nh = len(sc["hosts"]) + 1
    ends = {}
    for ai, a in enumerate(sc["acts"]):
        if a["kind"] == "comm":
            out.append("host ea%d 1 1 0x1p0" % (ai + 1))
            out.append("host eb%d 1 1 0x1p0" % (ai + 1))
            ends[ai] = (nh, nh + 1)
            out.append("route %d %d %d %s" % (nh, nh + 1, len(a["links"]), " ".join(str(l - 1) for l in a["links"])))
            nh += 2
    if observe:
        out.append("observe %d" % int(observe))
    for ai, a in enumerate(sc["acts"]):
        out.append("actor 0")
        if a["start"] > 0:
            out.append("until %s" % tok(a["start"]))
        if a["kind"] == "exec":
            out.append("exec %d %s %s %d %d %d" % (ai + 1, tok(a["amount"] / a["threads"]),
                                                 tok(a["bound"]) if a["bound"] > 0 else "0", a["prio"], a["threads"], a["host"]))
        elif a["kind"] == "comm":
            out.append("comm %d %d %d %s" % (ai + 1, ends[ai][0], ends[ai][1], tok(a["amount"])))
        else:
            out.append("io %d %d %s %s" % (ai + 1, a["disk"] - 1, a["op"], tok(a["amount"])))
    dates = sorted(set([e["t"] for e in sc["events"]] + list(sc["samples"])))
    out.append("actor 0")
    for t in dates:
        if t > 0:
            out.append("until %s" % tok(t))
        for e in sc["events"]:
            if e["t"] != t:
                continue
            if e["op"] == "pstate":
                out.append("pstate %d %d" % (e["a"], e["v"] - 1))
            elif e["op"] in ("off", "on"):
                out.append("%s %d" % (e["op"], e["a"]))
            elif e["op"] in ("loff", "lon"):
                out.append("%s %d" % (e["op"], e["a"] - 1))
            elif e["op"] in ("suspend", "resume"):
                out.append("%s %d" % (e["op"], e["a"]))
            elif e["op"] == "setprio":
                out.append("setprio %d %d" % (e["a"], e["v"]))
            elif e["op"] == "setbound":
                out.append("setbound %d %s" % (e["a"], tok(e["r"])))
        if t in sc["samples"]:
            out.append("sample s")
    return "\n".join(out) + "\n"


def _run_timelines_seq(ctx, scens, ids, timeout, tag):
    """sequential core of run_timelines over the scenarios `ids`; returns (obs, fin, skipped, states, transitions)"""
    obs, fin, skipped = {}, {}, []
    states = trans = 0
    pos = 0
    rounds = 0
    while pos < len(ids):
        rounds += 1
        cur = ids[pos:]
        f = write_json(ctx, "%s_scen_%d.json" % (tag, rounds), [scen_json(scens[i]) for i in cur])
        r = vlib.tlc(os.path.join(SSPEC, "TimelineRun.tla"), env={"SCEN": f}, workers=1, timeout=timeout)
        states += r.distinct
        trans += r.generated
        got_obs, got_fin, seen = {}, {}, set()
        for line in r.prints:
            if line in seen:
                continue
            seen.add(line)
            m = re.match(r'<<"(OBS0|OBS|FIN)", (\d+), ', line)
            if not m:
                continue
            v = vlib.parse_tla_value(line)
            rec = json.loads(v[2])
            rec["_kind"] = v[0]
            if v[0] == "FIN":
                got_fin[v[1] - 1] = rec
            else:
                got_obs.setdefault(v[1] - 1, []).append(rec)
        for k, rec in got_fin.items():
            fin[cur[k]] = rec
            obs[cur[k]] = got_obs.get(k, [])
        if r.ok:
            break
        if r.status == "eval" and "Overflow when computing" in r.out:
            done = len(got_fin)
            skipped.append(cur[done])
            pos += done + 1
            continue
        raise vlib.InfraError("the timeline specification failed on its own (%s %s)\n%s" % (r.status, r.what[-800:], r.out[-3000:]))
    return obs, fin, skipped, states, trans


def run_timelines(ctx, scens, timeout=900, tag="tl"):
    """TLC runs the reference timeline (TimelineRun.tla) over the scenarios, in a few parallel TLC processes; inside one
    process the scenarios form a single behaviour. A 32-bit overflow inside a scenario stops that TLC run: the
    scenarios before it are complete, the offending one is skipped (reported in the evidence) and the run resumes
    after it. Returns (obs, fin, skipped): obs[i] = OBS0/OBS records of scenario i, fin[i] = FIN record or None."""
    n = len(scens)
    nchunks = max(1, min(4, n // 20))
    size = (n + nchunks - 1) // nchunks if n else 1
    chunks = [list(range(i, min(i + size, n))) for i in range(0, n, size)]
    results = vlib.parallel_map(lambda ci: _run_timelines_seq(ctx, scens, chunks[ci], timeout, "%s%d" % (tag, ci)),
                                list(range(len(chunks))), nproc=max(1, len(chunks)))
    obs = [None] * n
    fin = [None] * n
    skipped = []
    for o, f, sk, st, tr in results:
        for i, v in o.items():
            obs[i] = v
        for i, v in f.items():
            fin[i] = v
        skipped += sk
        ctx.cov["states"] += st
        ctx.cov["transitions"] += tr
    return obs, fin, sorted(skipped)


def near(t, T):
    """double date t matches exact date T"""
    return close(t, T, rel=REL_TOL, absolute=PREC_TIMING / 1000)


def find_obs(obs_list, t):
    for o in obs_list:
        if near(t, frac(o["t"])):
            return o
    return None


# ------------------------------------------------------------------------------------------------ comparison
FAILED_STATES = ("host_failure", "network_failure", "storage_failure", "canceled")


def compare_acts(sc, fin, recs, date_tol=None):
    """status and finish date of every activity: implementation (act records) vs reference timeline (FIN record);
    date_tol(i) = extra absolute tolerance on the finish date of activity i (0-based), default none"""
    bad = []
    acts = acts_of(recs)
    end = end_of(recs)
    if end.get("how") != "normal":
        return ["run ended with %s" % json.dumps(end)]
    for i, a in enumerate(sc["acts"]):
        want, wfin = fin["ast"][i], frac(fin["fin"][i])
        got = acts.get(i + 1)
        if got is None:
            bad.append("activity %d (%s): no completion record, reference says %s at %s" % (i + 1, a["kind"], want, wfin))
            continue
        if want == "done" and fin.get("tie", [False] * len(sc["acts"]))[i] and got["state"] in FAILED_STATES and near(got["clock"], wfin):
            continue        # completion and failure of a resource at the same date: the outcome of the tie is left open
        if want == "done":
            extra = date_tol(i) if date_tol else 0
            if got["state"] != "done" or not (near(got["finish"], wfin) or (extra and abs(Fraction(got["finish"]) - wfin) <= extra)):
                bad.append("activity %d (%s): %s at %.17g, reference: done at %s = %.17g" %
                           (i + 1, a["kind"], got["state"], got["finish"], wfin, float(wfin)))
        elif want == "failed":
            if got["state"] not in FAILED_STATES or not near(got["clock"], wfin):
                bad.append("activity %d (%s): %s at %.17g, reference: failed at %s" % (i + 1, a["kind"], got["state"], got["clock"], wfin))
        else:
            bad.append("activity %d: reference status %s at the end of the scenario" % (i + 1, want))
    return bad


def compare_samples(sc, obs, recs, energy=False, values=True):
    """sampled resource values / energies of the implementation vs the reference state of the same date"""
    bad = []
    n = 0
    nh, nl = len(sc["hosts"]), len(sc["links"])
    for r in recs:
        if r.get("e") != "sample":
            continue
        o = find_obs(obs, r["t"])
        if o is None:
            bad.append("sample at %.17g: no reference state at that date" % r["t"])
            continue
        n += 1
        v = o["val"]
        if values:
            for h in range(nh):
                if bool(r["hon"][h + 1]) != bool(v["hon"][h]):
                    bad.append("t=%s host %d is_on=%s, reference %s" % (r["t"], h + 1, r["hon"][h + 1], v["hon"][h]))
                if not close(r["speed"][h + 1], frac(v["peak"][h])) or not close(r["avail"][h + 1], frac(v["scale"][h])):
                    bad.append("t=%s host %d speed=%.17g avail=%.17g, reference %s x %s" %
                               (r["t"], h + 1, r["speed"][h + 1], r["avail"][h + 1], frac(v["peak"][h]), frac(v["scale"][h])))
                if r["pstate"][h + 1] != v["pst"][h] - 1:
                    bad.append("t=%s host %d pstate=%d, reference %d" % (r["t"], h + 1, r["pstate"][h + 1], v["pst"][h] - 1))
            for l in range(nl):
                if bool(r["lon"][l]) != bool(v["lon"][l]):
                    bad.append("t=%s link %d is_on=%s, reference %s" % (r["t"], l + 1, r["lon"][l], v["lon"][l]))
                if not close(r["bw"][l], frac(v["bw"][l])) or not close(r["lat"][l], frac(v["lat"][l])):
                    bad.append("t=%s link %d bandwidth=%.17g latency=%.17g, reference %s / %s" %
                               (r["t"], l + 1, r["bw"][l], r["lat"][l], frac(v["bw"][l]), frac(v["lat"][l])))
        if energy and "he" in o:
            if "henergy" in r:
                for h in range(nh):
                    if sc["hosts"][h]["watts"] and not close(r["henergy"][h + 1], frac(o["he"][h]), absolute=Fraction(1, 10 ** 9)):
                        bad.append("t=%s host %d consumed energy %.17g J, reference %s = %.17g J" %
                                   (r["t"], h + 1, r["henergy"][h + 1], frac(o["he"][h]), float(frac(o["he"][h]))))
            if "lenergy" in r:
                for l in range(nl):
                    if not close(r["lenergy"][l], frac(o["le"][l]), absolute=Fraction(1, 10 ** 9)):
                        bad.append("t=%s link %d consumed energy %.17g J, reference %s = %.17g J" %
                                   (r["t"], l + 1, r["lenergy"][l], frac(o["le"][l]), float(frac(o["le"][l]))))
    return bad, n
