"""Shared code of the resource-model checks C19-C23 (area spec/surf, driver harness/surf_driver.cpp).

Pattern G: TLC evaluates the specification (Models / Profile / Timeline / Energy over exact rationals) on generated
cases and prints each case with its exact expected values; the driver runs the same case on the real models; Python
renders numbers (dyadic literals -> C99 hex floats), launches processes and *compares* doubles with the rationals."""
import json, math, os, re
from fractions import Fraction
import vlib, drivers

SSPEC = os.path.join(vlib.SPEC, "surf")
DRIVERS = {"surf_driver": (["surf_driver.cpp"], "s4u", ["-std=c++20"])}
BASE_CFG = ["--log=root.thres:critical", "--cfg=debug/stacktrace:none"]
REL_TOL = Fraction(1, 10 ** 9)          # relative tolerance of every comparison double <-> rational
PREC_TIMING = Fraction(1, 10 ** 9)      # SimGrid's precision/timing (default): dates closer than that are merged


def driver():
    drivers.register(DRIVERS)
    return drivers.get("surf_driver")


# ------------------------------------------------------------------------------------------------ numbers

def frac(r):
    """rational printed by TLC as [n, d]"""
    return Fraction(r[0], r[1])


def dy(m, e):
    """dyadic literal m * 2^e as an exact Fraction"""
    return Fraction(m) * (Fraction(2) ** e)


def tok(x):
    """exact rendering of a dyadic rational as a C99 hex float (the driver reads it with strtod)"""
    x = Fraction(x)
    f = float(x)
    if Fraction(f) != x:
        raise vlib.InfraError("value %s is not exactly representable as a double" % x)
    return f.hex()


def dec(x):
    """exact decimal rendering of an integer-valued rational (for --cfg values)"""
    x = Fraction(x)
    if x.denominator != 1:
        # dyadic fraction: finite decimal expansion
        s = "%.60f" % float(x)
        if Fraction(s) != x:
            raise vlib.InfraError("value %s has no exact decimal rendering" % x)
        return s.rstrip("0")
    return str(x.numerator)


def close(measured, expected, rel=REL_TOL, absolute=Fraction(0)):
    """|measured - expected| <= rel * |expected| + absolute, evaluated exactly"""
    try:
        m = Fraction(measured)
    except (ValueError, OverflowError, TypeError):
        return False
    e = Fraction(expected)
    return abs(m - e) <= rel * abs(e) + absolute


def relerr(measured, expected):
    e = Fraction(expected)
    m = Fraction(measured)
    if e == 0:
        return float(abs(m))
    return float(abs(m - e) / abs(e))


# ------------------------------------------------------------------------------------------------ running the models

def run_scenario(ctx, idx, text, cfg=(), timeout=60, keep=None):
    """Run one scenario file on the real models. Returns the list of ndjson records; a missing `end` line is turned
    into end(hang|crash)."""
    drv = driver()
    d = os.path.join(ctx.scratch, "s%d" % (idx % 64))
    os.makedirs(d, exist_ok=True)
    p = os.path.join(d, "sc%d.txt" % idx)
    with open(p, "w") as f:
        f.write(text)
    rc, out, err = vlib.sh([drv, p] + BASE_CFG + list(cfg), timeout=timeout, env=vlib.sg_env())
    recs = []
    for line in out.splitlines():
        line = line.strip()
        if line.startswith("{"):
            try:
                recs.append(json.loads(line))
            except ValueError:
                recs.append({"e": "garbled", "raw": line[:200]})
    if not any(r.get("e") == "end" for r in recs):
        recs.append({"e": "end", "how": "hang" if rc == 124 else "crash", "rc": rc, "stderr": err[-400:]})
    if keep is None:
        try:
            os.unlink(p)
        except OSError:
            pass
    return recs


def run_many(ctx, jobs, timeout=60):
    """jobs: list of (text, cfg). Returns the list of record lists."""
    driver()
    return vlib.parallel_map(lambda ij: run_scenario(ctx, ij[0], ij[1][0], ij[1][1], timeout), list(enumerate(jobs)))


def acts_of(recs):
    return {r["id"]: r for r in recs if r.get("e") == "act"}


def end_of(recs):
    for r in recs:
        if r.get("e") == "end":
            return r
    return {"how": "none"}


# ------------------------------------------------------------------------------------------------ TLC as oracle

def tlc_lines(ctx, module, env, tags=("CASE",), timeout=900, cfg=None):
    """Run spec/surf/<module>.tla (-workers 1: the specs use TLC registers) and return {tag: [parsed tuples]} for the
    lines <<"TAG", ...>> it prints (duplicates removed: TLC may evaluate a PrintT twice). Any TLC failure is an
    infrastructure error."""
    r = vlib.tlc(os.path.join(SSPEC, module + ".tla"), cfg=cfg, env=env, workers=1, timeout=timeout)
    ctx.add_tlc(r)
    if not r.ok:
        raise vlib.InfraError("TLC failed on %s (%s): %s\n%s" % (module, r.status, r.what[-1500:], r.out[-2500:]))
    res = {t: [] for t in tags}
    seen = set()
    for line in r.prints:
        m = re.match(r'<<"(\w+)"', line)
        if not m or m.group(1) not in res or line in seen:
            continue
        seen.add(line)
        res[m.group(1)].append(vlib.parse_tla_value(line))
    return r, res


def write_json(ctx, name, obj):
    p = os.path.join(ctx.scratch, name)
    with open(p, "w") as f:
        json.dump(obj, f)
    return p
