/* c27drv: calls xbt_parse_get_{time,size,bandwidth,speed} on literals rendered by the harness from the cases that TLC
 * enumerates from spec/lib/Units.tla.
 * input (argv[1]): one case per line "<kind>\t<literal>" (the literal may be empty or contain spaces)
 * output: one line per case: "OK <value %a> <value %.17g>"  |  "ERR parse <message>"  |  "ERR other <what>"
 */
#include <simgrid/Exception.hpp>
#include <xbt/parse_units.hpp>

#include <cstdio>
#include <fstream>
#include <string>

int main(int argc, char** argv)
{
  if (argc < 2) {
    fprintf(stderr, "usage: c27drv cases.tsv\n");
    return 4;
  }
  std::ifstream in(argv[1]);
  std::string line;
  while (std::getline(in, line)) {
    auto tab = line.find('\t');
    if (tab == std::string::npos)
      continue;
    std::string kind = line.substr(0, tab);
    std::string lit  = line.substr(tab + 1);
    try {
      double v;
      if (kind == "time")
        v = xbt_parse_get_time("c27", 1, lit, "");
      else if (kind == "size")
        v = xbt_parse_get_size("c27", 1, lit, "");
      else if (kind == "bandwidth")
        v = xbt_parse_get_bandwidth("c27", 1, lit, "");
      else if (kind == "speed")
        v = xbt_parse_get_speed("c27", 1, lit, "");
      else {
        fprintf(stderr, "c27drv: unknown kind %s\n", kind.c_str());
        return 4;
      }
      printf("OK %a %.17g\n", v, v);
    } catch (const simgrid::ParseError& e) {
      std::string w = e.what();
      for (char& c : w)
        if (c == '\n')
          c = ' ';
      printf("ERR parse %s\n", w.c_str());
    } catch (const std::exception& e) {
      printf("ERR other %s\n", e.what());
    }
  }
  return 0;
}
