/* c45drv: logs draws of simgrid::xbt::random::XbtRandom together with the raw std::mt19937 words they consumed.
 * The raw stream is reproduced with the driver's own std::mt19937 put in the same state as the generator's engine
 * before each draw (the engine, unlike the distributions, is fixed by the C++ standard) and advanced until both
 * engines are in the same state again: the words it yielded meanwhile are the words the draw consumed.
 *
 * input (argv[1]), one directive per line:
 *   seed <s>                   a fresh XbtRandom(s)                    (every 2nd time: the global generator,
 *                                                                       set_implem_xbt + set_mersenne_seed(s))
 *   raws <k> <w1> ... <wk>     put the engine in a state whose next k outputs are w1..wk (untempered state words)
 *   int <min> <max>            uniform_int(min, max)
 *   real <min> <max>           uniform_real(min, max)   (integer bounds)
 * output: ndjson: {"e":"int","seed":s,"min":..,"max":..,"raws":[[hi,lo]..],"value":v,"off":[hi,lo]}
 *                 {"e":"real","min":..,"max":..,"raws":[..],"v8":floor(8*value),"value":"%a"}
 */
#include <xbt/random.hpp>

#include <cmath>
#include <cstdint>
#include <cstdio>
#include <fstream>
#include <memory>
#include <random>
#include <sstream>
#include <string>
#include <vector>

namespace rnd = simgrid::xbt::random;

static uint32_t untemper(uint32_t y)
{
  y ^= y >> 18;
  y ^= (y << 15) & 0xefc60000U;
  uint32_t t = y; // undo y ^= (y << 7) & 0x9d2c5680
  for (int i = 0; i < 5; i++)
    t = y ^ ((t << 7) & 0x9d2c5680U);
  y = t;
  t = y; // undo y ^= y >> 11
  for (int i = 0; i < 3; i++)
    t = y ^ (t >> 11);
  return t;
}

static std::unique_ptr<rnd::XbtRandom> own;
static bool use_global = false;
static std::mt19937 shadow; // the state of the global generator's engine, tracked by the driver

static std::mt19937& engine()
{
  return own->mt19937_gen;
}

static std::string raws_json(const std::vector<uint32_t>& raws)
{
  std::string o = "[";
  for (size_t i = 0; i < raws.size(); i++)
    o += std::string(i ? "," : "") + "[" + std::to_string(raws[i] >> 16) + "," + std::to_string(raws[i] & 0xffff) + "]";
  return o + "]";
}

int main(int argc, char** argv)
{
  if (argc < 2) {
    fprintf(stderr, "usage: c45drv ops.txt\n");
    return 4;
  }
  std::ifstream in(argv[1]);
  std::string line;
  long seed   = 0;
  int nseeded = 0;
  own         = std::make_unique<rnd::XbtRandom>(0);
  while (std::getline(in, line)) {
    std::istringstream ls(line);
    std::string w;
    if (!(ls >> w))
      continue;
    if (w == "seed") {
      ls >> seed;
      use_global = (nseeded++ % 2) == 1;
      if (use_global) {
        rnd::set_implem_xbt();
        rnd::set_mersenne_seed(static_cast<int>(seed));
        shadow.seed(static_cast<int>(seed));
      } else
        own = std::make_unique<rnd::XbtRandom>(static_cast<int>(seed));
    } else if (w == "raws") {
      int k;
      ls >> k;
      std::ostringstream st;
      for (int i = 0; i < 624; i++) {
        unsigned long v = 12345 + i;
        if (i < k)
          ls >> v;
        st << untemper(static_cast<uint32_t>(v)) << ' ';
      }
      st << 0; // position: the next output is the first state word
      use_global = false;
      own        = std::make_unique<rnd::XbtRandom>(0);
      std::istringstream is(st.str());
      is >> own->mt19937_gen;
      seed = -1;
    } else if (w == "int" || w == "real") {
      long mn, mx;
      ls >> mn >> mx;
      std::mt19937 ref = use_global ? shadow : engine();
      long ivalue      = 0;
      double dvalue    = 0;
      if (w == "int")
        ivalue = use_global ? rnd::uniform_int(static_cast<int>(mn), static_cast<int>(mx))
                            : own->uniform_int(static_cast<int>(mn), static_cast<int>(mx));
      else
        dvalue = use_global ? rnd::uniform_real(static_cast<double>(mn), static_cast<double>(mx))
                            : own->uniform_real(static_cast<double>(mn), static_cast<double>(mx));
      std::vector<uint32_t> raws;
      bool synced = false;
      if (use_global) {
        // the global engine is not reachable: replay the draw on a copy with a second XbtRandom to count the words
        rnd::XbtRandom twin(0);
        twin.mt19937_gen = ref;
        if (w == "int")
          twin.uniform_int(static_cast<int>(mn), static_cast<int>(mx));
        else
          twin.uniform_real(static_cast<double>(mn), static_cast<double>(mx));
        for (int i = 0; i < 100000 && not synced; i++) {
          raws.push_back(static_cast<uint32_t>(ref()));
          synced = ref == twin.mt19937_gen;
        }
        shadow = ref;
      } else {
        for (int i = 0; i < 100000 && not synced; i++) {
          raws.push_back(static_cast<uint32_t>(ref()));
          synced = ref == engine();
        }
      }
      if (not synced) {
        printf("{\"e\":\"lost\",\"op\":\"%s\",\"min\":%ld,\"max\":%ld}\n", w.c_str(), mn, mx);
        continue;
      }
      if (w == "int") {
        uint32_t off = static_cast<uint32_t>(static_cast<int>(ivalue)) - static_cast<uint32_t>(static_cast<int>(mn));
        printf("{\"e\":\"int\",\"seed\":%ld,\"global\":%s,\"min\":%ld,\"max\":%ld,\"raws\":%s,\"value\":%ld,\"off\":[%u,%u]}\n", seed,
               use_global ? "true" : "false", mn, mx, raws_json(raws).c_str(), ivalue, off >> 16, off & 0xffff);
      } else {
        printf("{\"e\":\"real\",\"seed\":%ld,\"global\":%s,\"min\":%ld,\"max\":%ld,\"raws\":%s,\"v8\":%ld,\"value\":\"%a\"}\n", seed,
               use_global ? "true" : "false", mn, mx, raws_json(raws).c_str(), static_cast<long>(std::floor(dvalue * 8.0)),
               dvalue);
      }
    }
  }
  return 0;
}
