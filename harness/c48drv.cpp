/* c48drv: configuration-flag driver. Declares its own flags of every type (with logging / validating callbacks and
 * aliases) before the Engine is created, then
 *   c48drv list                   prints one JSON line per registered item (name, type, value), obtained from the
 *                                 message of the std::out_of_range thrown for an unknown key (the public listing);
 *   c48drv run <ops.txt> [--cfg=..]   performs the operations of ops.txt and logs one ndjson line per operation with
 *                                 its outcome, the callbacks that fired, the value and is_default afterwards.
 * ops.txt, one per line, fields separated by TABs:
 *   session <sid>                           (in-process sequence on the driver's flags)
 *   argv <n> then n lines "item <key> <type> <literal>"   (what was given on the real command line as --cfg=key:literal)
 *   child <sid>  ... endchild               (the enclosed operations run in a forked child: SimGrid's own items, whose
 *                                            callbacks may kill the process)
 *   set_string|set_parse|set_typed|set_default|c_api <key> <type> <literal>
 *   get <key> <type> | isdef <key>
 * Values are rendered canonically: int %d, boolean 1/0, double %.17g, string as is.
 */
#include <simgrid/s4u.hpp>
#include <xbt/config.h>
#include <xbt/config.hpp>

#include <cstdio>
#include <cstdlib>
#include <cstring>
#include <fstream>
#include <sstream>
#include <stdexcept>
#include <string>
#include <sys/wait.h>
#include <unistd.h>
#include <vector>

namespace cfg = simgrid::config;

static std::vector<std::pair<std::string, std::string>> cb_events;

static std::string jesc(const std::string& s)
{
  std::string o;
  for (unsigned char c : s) {
    if (c == '"' || c == '\\') {
      o += '\\';
      o += static_cast<char>(c);
    } else if (c < 0x20) {
      char b[8];
      snprintf(b, sizeof b, "\\u%04x", c);
      o += b;
    } else
      o += static_cast<char>(c);
  }
  return o;
}
static std::string canon(int v)
{
  return std::to_string(v);
}
static std::string canon(bool v)
{
  return v ? "1" : "0";
}
static std::string canon(double v)
{
  char b[64];
  snprintf(b, sizeof b, "%.17g", v);
  return b;
}
static std::string canon(const std::string& v)
{
  return v;
}

template <class T> static void declare(const char* name, std::initializer_list<const char*> aliases, T dflt, bool validate)
{
  std::string n = name;
  cfg::declare_flag<T>(name, aliases, "flag declared by the verification driver", dflt, [n, validate](const T& v) {
    cb_events.emplace_back(n, canon(v));
    if constexpr (std::is_same_v<T, int>) {
      if (validate && v < 0)
        throw std::range_error("invalid value.");
    }
  });
}

static std::string drain_cbs()
{
  std::string o = "[";
  for (size_t i = 0; i < cb_events.size(); i++)
    o += std::string(i ? "," : "") + "[\"" + jesc(cb_events[i].first) + "\",\"" + jesc(cb_events[i].second) + "\"]";
  cb_events.clear();
  return o + "]";
}

static std::string typed_get(const std::string& key, const std::string& type)
{
  if (type == "int")
    return canon(cfg::get_value<int>(key));
  if (type == "double")
    return canon(cfg::get_value<double>(key));
  if (type == "boolean")
    return canon(cfg::get_value<bool>(key));
  return cfg::get_value<std::string>(key);
}

static std::vector<std::string> split_tabs(const std::string& line)
{
  std::vector<std::string> t;
  size_t p = 0;
  while (true) {
    size_t q = line.find('\t', p);
    t.push_back(line.substr(p, q == std::string::npos ? q : q - p));
    if (q == std::string::npos)
      break;
    p = q + 1;
  }
  return t;
}

static void observe(std::ostringstream& o, const std::string& key, const std::string& type)
{
  try {
    std::string v = typed_get(key, type);
    bool d        = cfg::is_default(key.c_str());
    o << ",\"val\":\"" << jesc(v) << "\",\"isdef\":" << (d ? "true" : "false");
  } catch (const std::out_of_range&) {
    o << ",\"val\":\"\",\"isdef\":false,\"nokey\":true";
  }
}

static void do_op(const std::vector<std::string>& t, long idx)
{
  const std::string& k = t[0];
  std::string key      = t.size() > 1 ? t[1] : "";
  std::string type     = t.size() > 2 ? t[2] : "";
  std::string lit      = t.size() > 3 ? t[3] : "";
  printf("{\"e\":\"try\",\"i\":%ld}\n", idx);
  fflush(stdout);
  std::string res = "ok";
  std::string got;
  cb_events.clear();
  try {
    if (k == "set_string")
      cfg::set_as_string(key.c_str(), lit);
    else if (k == "set_parse")
      cfg::set_parse(key + ":" + lit);
    else if (k == "set_typed" || k == "set_default" || k == "c_api") {
      // the typed entry points take a value of the item's type: the literal is converted here with the C library
      bool dflt = k == "set_default";
      if (type == "int") {
        int v = static_cast<int>(strtol(lit.c_str(), nullptr, 10));
        if (k == "c_api")
          sg_cfg_set_int(key.c_str(), v);
        else if (dflt)
          cfg::set_default<int>(key.c_str(), v);
        else
          cfg::set_value<int>(key.c_str(), v);
      } else if (type == "double") {
        double v = strtod(lit.c_str(), nullptr);
        if (k == "c_api")
          sg_cfg_set_double(key.c_str(), v);
        else if (dflt)
          cfg::set_default<double>(key.c_str(), v);
        else
          cfg::set_value<double>(key.c_str(), v);
      } else if (type == "boolean") {
        if (k == "c_api")
          sg_cfg_set_boolean(key.c_str(), lit.c_str()); // takes the literal: yes/no/on/off/...
        else if (dflt)
          cfg::set_default<bool>(key.c_str(), lit == "1");
        else
          cfg::set_value<bool>(key.c_str(), lit == "1");
      } else {
        if (k == "c_api")
          sg_cfg_set_string(key.c_str(), lit.c_str());
        else if (dflt)
          cfg::set_default<std::string>(key.c_str(), lit);
        else
          cfg::set_value<std::string>(key.c_str(), lit);
      }
    } else if (k == "get") {
      if (type == "int" && idx % 2)
        got = canon(sg_cfg_get_int(key.c_str()));
      else if (type == "double" && idx % 2)
        got = canon(sg_cfg_get_double(key.c_str()));
      else if (type == "boolean" && idx % 2)
        got = canon(sg_cfg_get_boolean(key.c_str()) != 0);
      else
        got = typed_get(key, type);
    } else if (k == "isdef")
      got = cfg::is_default(key.c_str()) ? "1" : "0";
    else {
      fprintf(stderr, "c48drv: unknown op %s\n", k.c_str());
      _exit(4);
    }
  } catch (const std::out_of_range&) {
    res = "unknown_key";
  } catch (const std::range_error&) {
    res = "range_error";
  } catch (const std::exception& e) {
    res = "other_exception";
  }
  std::ostringstream o;
  o << "{\"e\":\"op\",\"i\":" << idx << ",\"k\":\"" << k << "\",\"key\":\"" << jesc(key) << "\",\"type\":\"" << type
    << "\",\"lit\":\"" << jesc(lit) << "\",\"res\":\"" << res << "\",\"got\":\"" << jesc(got) << "\",\"cbs\":" << drain_cbs();
  if (type.empty())
    o << ",\"val\":\"\",\"isdef\":false";
  else
    observe(o, key, type);
  o << "}";
  printf("%s\n", o.str().c_str());
  fflush(stdout);
}

static void list_items()
{
  try {
    cfg::get_value<int>("verif/__no_such_key__");
  } catch (const std::out_of_range& e) {
    std::istringstream in(e.what());
    std::string line;
    bool started = false;
    while (std::getline(in, line)) {
      if (line == "Existing config keys:") {
        started = true;
        continue;
      }
      if (not started || line.size() < 3)
        continue;
      // "  name: (type)value"
      size_t c = line.find(": (");
      size_t p = line.find(')', c);
      if (c == std::string::npos || p == std::string::npos)
        continue;
      std::string name = line.substr(2, c - 2);
      std::string type = line.substr(c + 3, p - c - 3);
      std::string val;
      bool dflt = false;
      try {
        val  = typed_get(name, type);
        dflt = cfg::is_default(name.c_str());
      } catch (const std::exception&) {
        val = "?";
      }
      printf("{\"name\":\"%s\",\"type\":\"%s\",\"listed\":\"%s\",\"val\":\"%s\",\"isdef\":%s}\n", jesc(name).c_str(),
             type.c_str(), jesc(line.substr(p + 1)).c_str(), jesc(val).c_str(), dflt ? "true" : "false");
    }
  }
}

int main(int argc, char** argv)
{
  // the driver's own flags: every type, with and without callback, aliases, one validating callback
  declare<int>("verif/int", {"verif/int-old", "verif_int_legacy"}, 5, false);
  declare<double>("verif/double", {"verif/double-old"}, 1.5, false);
  declare<bool>("verif/bool", {"verif/bool-old"}, false, false);
  declare<std::string>("verif/string", {"verif/string-old"}, "abc", false);
  declare<int>("verif/int-pos", {}, 1, true);
  cfg::declare_flag<int>("verif/nocb-int", "flag without callback", 7);
  cfg::declare_flag<std::string>("verif/nocb-string", {"verif/nocb-string-old"}, "flag without callback", "x");
  std::string declared = drain_cbs();

  simgrid::s4u::Engine e(&argc, argv);
  std::string at_init = drain_cbs();
  if (argc >= 2 && std::string(argv[1]) == "list") {
    list_items();
    return 0;
  }
  if (argc < 3 || std::string(argv[1]) != "run") {
    fprintf(stderr, "usage: c48drv list | run ops.txt [--cfg=...]\n");
    return 4;
  }
  std::vector<std::string> lines; // read everything first: a forked child must not share a file offset with its parent
  {
    std::ifstream in(argv[2]);
    std::string l;
    while (std::getline(in, l))
      lines.push_back(l);
  }
  long idx     = 0;
  bool inchild = false;
  for (size_t li = 0; li < lines.size(); li++) {
    const std::string& line = lines[li];
    if (line.empty())
      continue;
    auto t = split_tabs(line);
    if (t[0] == "session") {
      printf("{\"e\":\"reset\",\"sid\":\"%s\",\"declared\":%s,\"at_init\":%s}\n", t[1].c_str(), declared.c_str(),
             at_init.c_str());
      fflush(stdout);
    } else if (t[0] == "child") {
      fflush(stdout);
      pid_t child = fork();
      if (child == 0) {
        inchild = true;
        printf("{\"e\":\"reset\",\"sid\":\"%s\",\"declared\":[],\"at_init\":[]}\n", t[1].c_str());
        fflush(stdout);
      } else {
        int st = 0;
        waitpid(child, &st, 0);
        printf("{\"e\":\"childend\",\"sid\":\"%s\",\"status\":%d,\"signaled\":%s}\n", t[1].c_str(),
               WIFEXITED(st) ? WEXITSTATUS(st) : WTERMSIG(st), WIFSIGNALED(st) ? "true" : "false");
        fflush(stdout);
        while (li + 1 < lines.size() && lines[li] != "endchild") // skip the child's operations
          li++;
      }
    } else if (t[0] == "endchild") {
      if (inchild) {
        fflush(stdout);
        _exit(0);
      }
    } else if (t[0] == "quiet") { // not an operation of the trace: no stack trace if a callback ends this child
      cfg::set_as_string("debug/stacktrace", "none");
    } else if (t[0] == "item" || t[0] == "argv") {
      continue; // informational: applied by the Engine constructor
    } else
      do_op(t, ++idx);
  }
  fflush(stdout);
  _exit(0); // no Engine teardown needed
}
