/* dag_driver: builds a workflow of S4U activities (through the API, or with create_DAG_from_json / create_DAG_from_DAX),
 * performs a script of add_successor / assignment / start() calls at given simulated dates (from maestro between
 * run_until() calls, or from a controller actor that then waits for the activities), and logs, as ndjson:
 *   create a kind name | succ a b | assign a | req a      -- API calls, logged BEFORE the call is made
 *   veto a | start a | done a state                        -- the on_veto / on_start / on_completion signals
 *   end                                                    -- Engine::run() returned for good
 * every line carries the simulated clock ("clk", %.17g; the check turns clocks into ranks).
 * Consumed by spec/lib/Dag_trace.tla.
 *
 * usage: dag_driver <scenario.txt> <out.ndjson> [--cfg=...]
 * scenario:  HOSTS n | ACTOR 0/1 | LOAD json|dax file | A name kind amount | T date | S a b | H a host | CS a host |
 *            CD a host | R a | W a | LAZY
 */
#include <simgrid/s4u.hpp>

#include <cstdio>
#include <cstdlib>
#include <fstream>
#include <map>
#include <set>
#include <sstream>
#include <string>
#include <vector>

namespace sg4 = simgrid::s4u;

struct OpLine {
  double date;
  std::string op, a, b;
};

static FILE* out;
static std::map<const sg4::Activity*, int> ids;
static std::map<std::string, sg4::ActivityPtr> by_name;
static std::vector<sg4::ActivityPtr> all;
static std::vector<sg4::Host*> hosts;
static bool structure_known = true; // false while a loader runs: signals are buffered
struct Pending {
  const sg4::Activity* a;
  std::string what, extra;
  double clk;
};
static std::vector<Pending> pending;

static void emit(const char* what, int a, const std::string& extra, double clk)
{
  fprintf(out, "{\"e\":\"%s\",\"a\":%d%s,\"clk\":\"%.17g\"}\n", what, a, extra.c_str(), clk);
}

static void on_signal(const sg4::Activity& act, const char* what, const std::string& extra = "")
{
  double clk = sg4::Engine::get_clock();
  auto it    = ids.find(&act);
  if (not structure_known || it == ids.end()) {
    pending.push_back({&act, what, extra, clk});
    return;
  }
  emit(what, it->second, extra, clk);
}

static void flush_pending()
{
  for (auto const& p : pending) {
    auto it = ids.find(p.a);
    emit(p.what.c_str(), it == ids.end() ? 0 : it->second, p.extra, p.clk);
  }
  pending.clear();
}

static const char* kind_of(const sg4::Activity* a)
{
  if (dynamic_cast<const sg4::Exec*>(a))
    return "exec";
  if (dynamic_cast<const sg4::Comm*>(a))
    return "comm";
  if (dynamic_cast<const sg4::Io*>(a))
    return "io";
  return "other";
}

static int register_activity(const sg4::ActivityPtr& a)
{
  int id = static_cast<int>(all.size()) + 1;
  all.push_back(a);
  ids[a.get()]          = id;
  by_name[a->get_name()] = a;
  fprintf(out, "{\"e\":\"create\",\"a\":%d,\"kind\":\"%s\",\"name\":\"%s\",\"clk\":\"%.17g\"}\n", id, kind_of(a.get()),
          a->get_cname(), sg4::Engine::get_clock());
  return id;
}

static sg4::ActivityPtr find(const std::string& name)
{
  auto it = by_name.find(name);
  if (it == by_name.end()) {
    fprintf(stderr, "dag_driver: unknown activity %s\n", name.c_str());
    fflush(out);
    _exit(4);
  }
  return it->second;
}

static void do_op(const OpLine& o)
{
  double clk = sg4::Engine::get_clock();
  if (o.op == "S") {
    auto a = find(o.a);
    auto b = find(o.b);
    fprintf(out, "{\"e\":\"succ\",\"a\":%d,\"b\":%d,\"clk\":\"%.17g\"}\n", ids[a.get()], ids[b.get()], clk);
    if (auto* x = dynamic_cast<sg4::Exec*>(a.get()))
      x->add_successor(b);
    else if (auto* c = dynamic_cast<sg4::Comm*>(a.get()))
      c->add_successor(b);
    else if (auto* i = dynamic_cast<sg4::Io*>(a.get()))
      i->add_successor(b);
  } else if (o.op == "H") {
    auto a = find(o.a);
    auto* h = hosts.at(std::stoi(o.b) % hosts.size());
    emit("assign", ids[a.get()], "", clk);
    if (auto* x = dynamic_cast<sg4::Exec*>(a.get()))
      x->set_host(h);
    else if (auto* i = dynamic_cast<sg4::Io*>(a.get()))
      i->set_disk(h->get_disks().front());
  } else if (o.op == "CS" || o.op == "CD") {
    auto a = find(o.a);
    auto* h = hosts.at(std::stoi(o.b) % hosts.size());
    emit("assign", ids[a.get()], "", clk);
    auto* c = dynamic_cast<sg4::Comm*>(a.get());
    if (o.op == "CS")
      c->set_source(h);
    else
      c->set_destination(h);
  } else if (o.op == "R") {
    auto a = find(o.a);
    emit("req", ids[a.get()], "", clk);
    a->start();
  } else if (o.op == "W") {
    find(o.a)->wait();
  }
}

static void introspect(const std::vector<sg4::ActivityPtr>& dag)
{
  for (auto const& a : dag)
    register_activity(a);
  double clk = sg4::Engine::get_clock();
  for (auto const& a : dag)
    for (auto const& b : a->get_successors())
      fprintf(out, "{\"e\":\"succ\",\"a\":%d,\"b\":%d,\"clk\":\"%.17g\"}\n", ids[a.get()], ids[b.get()], clk);
  for (auto const& a : dag) {
    int parts = 0;
    if (const auto* c = dynamic_cast<const sg4::Comm*>(a.get()))
      parts = (c->get_source() != nullptr) + (c->get_destination() != nullptr);
    else
      parts = a->is_assigned() ? 1 : 0;
    for (int i = 0; i < parts; i++)
      emit("assign", ids[a.get()], "", clk);
    if (a->get_state() != sg4::Activity::State::INITED)
      emit("req", ids[a.get()], "", clk);
  }
}

int main(int argc, char** argv)
{
  sg4::Engine e(&argc, argv);
  if (argc < 3) {
    fprintf(stderr, "usage: dag_driver scenario.txt out.ndjson\n");
    return 4;
  }
  out = fopen(argv[2], "w");
  setvbuf(out, nullptr, _IOLBF, 0); // a crash must not lose the lines already logged
  std::ifstream in(argv[1]);
  int nhosts      = 3;
  bool actor_mode = false;
  bool lazy       = false;
  std::string load_kind, load_file;
  struct Decl {
    std::string name, kind;
    double amount;
  };
  std::vector<Decl> decls;
  std::vector<OpLine> ops;
  double cur_date = 0;
  std::string line;
  while (std::getline(in, line)) {
    std::istringstream ls(line);
    std::string w;
    if (not(ls >> w) || w[0] == '#')
      continue;
    if (w == "HOSTS")
      ls >> nhosts;
    else if (w == "ACTOR") {
      int x;
      ls >> x;
      actor_mode = x != 0;
    } else if (w == "LOAD")
      ls >> load_kind >> load_file;
    else if (w == "LAZY")
      lazy = true;
    else if (w == "A") {
      Decl d;
      ls >> d.name >> d.kind >> d.amount;
      decls.push_back(d);
    } else if (w == "T")
      ls >> cur_date;
    else {
      OpLine o;
      o.date = cur_date;
      o.op   = w;
      ls >> o.a >> o.b;
      ops.push_back(o);
    }
  }

  auto* zone = e.get_netzone_root();
  for (int i = 0; i < nhosts; i++) {
    auto* h = zone->add_host("h" + std::to_string(i), 1e9 * (1 + i % 3));
    h->add_disk("d" + std::to_string(i), 1e8, 5e7);
    hosts.push_back(h);
  }
  auto* backbone = zone->add_link("bb", 1e8)->set_latency(1e-3);
  for (int i = 0; i < nhosts; i++)
    for (int j = i + 1; j < nhosts; j++)
      zone->add_route(hosts[i], hosts[j], {backbone});
  zone->seal();

  sg4::Exec::on_start_cb([](sg4::Exec const& x) { on_signal(x, "start"); });
  sg4::Comm::on_start_cb([](sg4::Comm const& x) { on_signal(x, "start"); });
  sg4::Io::on_start_cb([](sg4::Io const& x) { on_signal(x, "start"); });
  sg4::Exec::on_veto_cb([](sg4::Exec& x) { on_signal(x, "veto"); });
  sg4::Comm::on_veto_cb([](sg4::Comm& x) { on_signal(x, "veto"); });
  sg4::Io::on_veto_cb([](sg4::Io& x) { on_signal(x, "veto"); });
  auto done = [](sg4::Activity const& x) { on_signal(x, "done", std::string(",\"state\":\"") + x.get_state_str() + "\""); };
  sg4::Exec::on_completion_cb([done](sg4::Exec const& x) { done(x); });
  sg4::Comm::on_completion_cb([done](sg4::Comm const& x) { done(x); });
  sg4::Io::on_completion_cb([done](sg4::Io const& x) { done(x); });

  std::set<sg4::Activity*> vetoed;
  if (lazy) // Engine::run() returns each time an activity is vetoed when the vetoes are tracked
    e.track_vetoed_activities(&vetoed);

  auto create_all = [&decls]() {
    for (auto const& d : decls) {
      sg4::ActivityPtr a;
      if (d.kind == "exec")
        a = sg4::Exec::init()->set_name(d.name)->set_flops_amount(d.amount);
      else if (d.kind == "comm")
        a = sg4::Comm::sendto_init()->set_name(d.name)->set_payload_size(d.amount);
      else
        a = sg4::Io::init()->set_name(d.name)->set_size(static_cast<sg_size_t>(d.amount))->set_op_type(sg4::Io::OpType::WRITE);
      register_activity(a);
    }
  };

  if (not load_kind.empty()) {
    structure_known = false;
    std::vector<sg4::ActivityPtr> dag =
        load_kind == "json" ? sg4::create_DAG_from_json(load_file) : sg4::create_DAG_from_DAX(load_file);
    if (dag.empty()) {
      fprintf(out, "{\"e\":\"loadfail\"}\n");
      fclose(out);
      return 0;
    }
    introspect(dag);
    structure_known = true;
    flush_pending();
  }

  if (actor_mode) {
    hosts[0]->add_actor("controller", [&]() {
      create_all();
      for (auto const& o : ops) {
        if (o.date > sg4::Engine::get_clock())
          sg4::this_actor::sleep_until(o.date);
        do_op(o);
      }
    });
    e.run();
  } else {
    create_all();
    size_t i = 0;
    while (i < ops.size()) {
      double d = ops[i].date;
      if (d > sg4::Engine::get_clock())
        e.run_until(d);
      while (i < ops.size() && ops[i].date == d)
        do_op(ops[i++]);
    }
    int guard = 0;
    bool again;
    do {
      e.run();
      again = lazy && not vetoed.empty() && guard++ < 10000;
      // dag-simple style scheduling: assign what was vetoed for lack of a resource once its dependencies are solved
      std::vector<sg4::Activity*> todo(vetoed.begin(), vetoed.end());
      vetoed.clear();
      for (auto* a : todo) {
        if (not a->dependencies_solved() || a->is_assigned() || a->get_state() != sg4::Activity::State::STARTING)
          continue;
        if (auto* c = dynamic_cast<sg4::Comm*>(a)) {
          if (c->get_source() == nullptr)
            do_op({0, "CS", a->get_name(), std::to_string(ids[a])});
          if (c->get_destination() == nullptr)
            do_op({0, "CD", a->get_name(), std::to_string(ids[a] + 1)});
        } else
          do_op({0, "H", a->get_name(), std::to_string(ids[a])});
      }
    } while (again);
  }
  fprintf(out, "{\"e\":\"end\",\"a\":0,\"clk\":\"%.17g\"}\n", sg4::Engine::get_clock());
  fclose(out);
  return 0;
}
