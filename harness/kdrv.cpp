/* kdrv: S4U interpreter driver. Runs a *program* (per-actor sequences of S4U operations over declared kernel objects)
 * on the real kernel and logs, through hook H1's channel (simgrid_verif_log, file named by VERIF_KTRACE), one ndjson
 * line per linearization-point-related event:
 *   issue  (actor side, before the S4U call)      ret  (actor side, after the call returned / threw)
 *   handle / answer (maestro side, emitted by the H1 hook inside the kernel)
 *   adv    (on_time_advance)     end (normal | deadlock | abort | signal | exception)
 * The same vocabulary is consumed by spec/kernel/SgKernelTrace.tla.
 *
 * usage: kdrv <program.txt> [--cfg=...]
 */
#include <simgrid/Exception.hpp>
#include <simgrid/modelchecker.h>
#include <simgrid/s4u.hpp>

#include <cmath>
#include <csignal>
#include <cstdio>
#include <cstdlib>
#include <cstring>
#include <fstream>
#include <sstream>
#include <string>
#include <unistd.h>
#include <vector>

namespace sg4 = simgrid::s4u;
extern "C" void simgrid_verif_log(const char* fmt, ...);
extern "C" int simgrid_verif_enabled();

struct Op {
  std::string name;
  long a[4] = {0, 0, 0, 0};
};
struct ActorSpec {
  int host = 0;
  bool daemon = false; // unused (daemonize is an operation)
  bool spawned = false; // created by a "create" operation of another actor
  std::vector<Op> ops;
};

static double TICK = 1.0 / 1024;
static int nhosts  = 1;
static std::vector<bool> mutex_rec;
static std::vector<int> sem_cap;
static int ncv = 0;
static std::vector<int> bar_size;
static std::vector<int> mbox_perm; // permanent receiver (actor number) of each mailbox, 0 = none
static int nmq   = 0;
static long link_lat = 0; // latency of the link, in ticks (timed platform)
static bool timed = false; // timed platform: one host per actor, dedicated FATPIPE link, exact durations
static std::vector<ActorSpec> actors;

static std::vector<sg4::MutexPtr> mutexes;
static std::vector<sg4::SemaphorePtr> sems;
static std::vector<sg4::ConditionVariablePtr> cvs;
static std::vector<sg4::BarrierPtr> bars;
static std::vector<sg4::Mailbox*> mboxes;
static std::vector<sg4::MessageQueue*> mqs;
static std::vector<sg4::Host*> hosts;
static sg4::Link* the_link = nullptr;
static std::vector<sg4::ActorPtr> aptr; // actors by program index (nullptr until created)
static void run_actor(int idx);
// an actor by program index: the creator may have died before recording the handle, so fall back on a lookup by name
static sg4::ActorPtr actor_of(int idx)
{
  // the live actor of that name first (a restarted incarnation replaces the previous one), else the last handle recorded
  std::string name = "a" + std::to_string(idx + 1);
  for (auto const& a : sg4::Engine::get_instance()->get_all_actors())
    if (a->get_name() == name)
      return a;
  return aptr[idx];
}

static long ticks_of(double t)
{
  double q = t / TICK;
  if (std::floor(q) == q && std::fabs(q) < 2e9)
    return static_cast<long>(q);
  return -7; // off-grid marker
}

static std::string projected_state()
{
  std::ostringstream o;
  o << "\"own\":[";
  for (size_t i = 0; i < mutexes.size(); i++) {
    auto* ow = mutexes[i]->get_owner();
    o << (i ? "," : "") << (ow ? ow->get_pid() : 0);
  }
  o << "],\"cap\":[";
  for (size_t i = 0; i < sems.size(); i++)
    o << (i ? "," : "") << sems[i]->get_capacity();
  o << "]";
  return o.str();
}

static void log_end(const char* how)
{
  simgrid_verif_log("{\"e\":\"end\",\"how\":\"%s\"}\n", how);
}

static void on_fatal_signal(int sig)
{
  // async-signal-safe enough: one snprintf+write
  simgrid_verif_log("{\"e\":\"end\",\"how\":\"%s\",\"sig\":%d}\n", sig == SIGABRT ? "abort" : "signal", sig);
  _exit(0);
}

static void on_terminate()
{
  log_end("exception");
  _exit(0);
}

struct Payload {
  long sender;
  long seq;
  long size;
  long check;
};

static void run_actor(int idx)
{
  const ActorSpec& spec = actors[idx];
  long me               = idx + 1; // actors are identified by their program index; "born" gives the pid mapping
  simgrid_verif_log("{\"e\":\"born\",\"a\":%ld,\"pid\":%ld}\n", me, static_cast<long>(sg4::this_actor::get_pid()));
  aptr[idx] = sg4::Actor::self(); // (a restarted incarnation replaces the handle of the previous one)
  std::vector<sg4::ActivityPtr> handles; // asynchronous activities of this actor, by creation order
  std::vector<Payload**> slots;          // reception buffer of each handle (nullptr for sends and execs)
  auto mkpay = [&](size_t k, long size) { return new Payload{me, static_cast<long>(k), size, me * 1000 + static_cast<long>(k)}; };
  auto payval = [](const Payload* p) { return p == nullptr ? -1 : (p->check == p->sender * 1000 + p->seq ? p->check : -2); };
  for (size_t k = 0; k < spec.ops.size(); k++) {
    const Op& op = spec.ops[k];
    simgrid_verif_log("{\"e\":\"issue\",\"a\":%ld,\"k\":%zu,\"op\":\"%s\"}\n", me, k + 1, op.name.c_str());
    std::string res = "ok";
    long val        = 0; // payload identity received (sender * 1000 + operation number)
    long flag       = 0; // other integer result (barrier serial flag, size carried by the payload)
    try {
      const std::string& n = op.name;
      if (n == "lock")
        mutexes[op.a[0] - 1]->lock();
      else if (n == "trylock")
        res = mutexes[op.a[0] - 1]->try_lock() ? "true" : "false";
      else if (n == "unlock")
        mutexes[op.a[0] - 1]->unlock();
      else if (n == "acq")
        sems[op.a[0] - 1]->acquire();
      else if (n == "acqt")
        res = sems[op.a[0] - 1]->acquire_timeout(op.a[2] * TICK) ? "timeout" : "ok";
      else if (n == "rel")
        sems[op.a[0] - 1]->release();
      else if (n == "cvwait")
        cvs[op.a[0] - 1]->wait(mutexes[op.a[1] - 1]);
      else if (n == "cvwaitfor")
        res = cvs[op.a[0] - 1]->wait_for(mutexes[op.a[1] - 1], op.a[2] * TICK) == std::cv_status::timeout ? "timeout"
                                                                                                           : "ok";
      else if (n == "sig")
        cvs[op.a[0] - 1]->notify_one();
      else if (n == "bcast")
        cvs[op.a[0] - 1]->notify_all();
      else if (n == "bar")
        flag = bars[op.a[0] - 1]->wait();
      else if (n == "rand") // MC_random(0, max): a transition with max + 1 outcomes under the model checker
        res = "r" + std::to_string(MC_random(0, static_cast<int>(op.a[0])));
      else if (n == "sleep")
        sg4::this_actor::sleep_for(op.a[2] * TICK);
      else if (n == "yield")
        sg4::this_actor::yield();
      else if (n == "create") {
        int c = op.a[0] - 1;
        aptr[c] = hosts[actors[c].host % nhosts]->add_actor("a" + std::to_string(c + 1), [c]() { run_actor(c); });
      } else if (n == "onexit") {
        long id = op.a[0];
        sg4::this_actor::on_exit([me, id](bool failed) {
          simgrid_verif_log("{\"e\":\"onexit\",\"a\":%ld,\"id\":%ld,\"failed\":%s,\"clk\":%ld}\n", me, id,
                            failed ? "true" : "false", ticks_of(sg4::Engine::get_clock()));
        });
      } else if (n == "daemon")
        sg4::Actor::self()->daemonize();
      else if (n == "killtime")
        sg4::Actor::self()->set_kill_time(op.a[2] * TICK);
      else if (n == "kill") {
        if (auto t = actor_of(op.a[0] - 1); t != nullptr)
          t->kill();
      } else if (n == "killall")
        sg4::Actor::kill_all();
      else if (n == "autorestart")
        sg4::Actor::self()->set_auto_restart(true);
      else if (n == "suspend") {
        if (auto t = actor_of(op.a[0] - 1); t != nullptr)
          t->suspend();
      } else if (n == "resume") {
        if (auto t = actor_of(op.a[0] - 1); t != nullptr)
          t->resume();
      }
      else if (n == "join") {
        auto t = actor_of(op.a[0] - 1);
        if (t == nullptr)
          abort();
        if (op.a[2] >= 0)
          t->join(op.a[2] * TICK);
        else
          t->join();
      } else if (n == "hostoff")
        hosts[(op.a[0] - 1) % nhosts]->turn_off();
      else if (n == "hoston")
        hosts[(op.a[0] - 1) % nhosts]->turn_on();
      else if (n == "linkoff")
        the_link->turn_off();
      else if (n == "linkon")
        the_link->turn_on();
      else if (n == "sendt") { // blocking send carrying a tag (op.a[1]) as match data: one simcall (isend + wait)
        static thread_local long tags[64];
        long* tg = new long(op.a[1]);
        (void)tags;
        sg4::Comm::send(sg4::Actor::self()->get_impl(), mboxes[op.a[0] - 1], static_cast<double>(op.a[2]), -1.0,
                        mkpay(k + 1, op.a[2]), sizeof(void*), nullptr, nullptr, tg, -1.0);
      } else if (n == "recvf") { // blocking receive with a match filter: accepts only sends whose tag equals op.a[1]
        void* buf   = nullptr;
        size_t bsz  = sizeof(void*);
        long* want  = new long(op.a[1]);
        auto filter = [](void* mine, void* theirs, simgrid::kernel::activity::CommImpl*) {
          return theirs != nullptr && *static_cast<long*>(theirs) == *static_cast<long*>(mine);
        };
        sg4::Comm::recv(sg4::Actor::self()->get_impl(), mboxes[op.a[0] - 1], &buf, &bsz, filter, nullptr, want, -1.0, -1.0);
        const Payload* p = static_cast<const Payload*>(buf);
        val              = payval(p);
        flag             = p ? p->size : -1;
      } else if (n == "put")
        mboxes[op.a[0] - 1]->put(mkpay(k + 1, op.a[2]), op.a[2]);
      else if (n == "puta") {
        handles.push_back(mboxes[op.a[0] - 1]->put_async(mkpay(k + 1, op.a[2]), op.a[2]));
        slots.push_back(nullptr);
      } else if (n == "putd")
        mboxes[op.a[0] - 1]->put_init(mkpay(k + 1, op.a[2]), op.a[2])->detach();
      else if (n == "get") {
        const Payload* p = mboxes[op.a[0] - 1]->get<Payload>();
        val              = payval(p);
        flag             = p->size;
      } else if (n == "geta") {
        slots.push_back(new Payload*(nullptr));
        handles.push_back(mboxes[op.a[0] - 1]->get_async<Payload>(slots.back()));
      } else if (n == "mput")
        mqs[op.a[0] - 1]->put(mkpay(k + 1, 0));
      else if (n == "mputa") {
        handles.push_back(mqs[op.a[0] - 1]->put_async(mkpay(k + 1, 0)));
        slots.push_back(nullptr);
      } else if (n == "mget") {
        const Payload* p = mqs[op.a[0] - 1]->get<Payload>();
        val              = payval(p);
      } else if (n == "mgeta") {
        slots.push_back(new Payload*(nullptr));
        handles.push_back(mqs[op.a[0] - 1]->get_async<Payload>(slots.back()));
      } else if (n == "exec")
        sg4::this_actor::execute(op.a[2] * 1024.0);
      else if (n == "execa") {
        handles.push_back(sg4::this_actor::exec_async(op.a[2] * 1024.0));
        slots.push_back(nullptr);
      } else if (n == "wait" || n == "waitfor" || n == "test") {
        size_t h = op.a[0] - 1;
        if (h >= handles.size()) {
          fprintf(stderr, "kdrv: no such handle\n");
          abort();
        }
        bool got = true;
        if (n == "wait")
          handles[h]->wait();
        else if (n == "waitfor")
          handles[h]->wait_for(op.a[2] * TICK);
        else {
          got = handles[h]->test();
          res = got ? "true" : "false";
        }
        if (got && slots[h] != nullptr && *slots[h] != nullptr) { // nothing was received when the activity failed
          val  = payval(*slots[h]);
          flag = (*slots[h])->size;
        }
      }
      else {
        fprintf(stderr, "kdrv: unknown op %s\n", n.c_str());
        _exit(4);
      }
    } catch (const simgrid::ForcefulKillException&) {
      simgrid_verif_log("{\"e\":\"killed\",\"a\":%ld,\"k\":%zu}\n", me, k + 1);
      throw;
    } catch (const simgrid::TimeoutException&) {
      res = "timeout_exc";
    } catch (const simgrid::NetworkFailureException&) {
      res = "network_failure";
    } catch (const simgrid::HostFailureException&) {
      res = "host_failure";
    } catch (const simgrid::CancelException&) {
      res = "cancel";
    } catch (const simgrid::Exception& e) {
      res = "exception";
    }
    simgrid_verif_log("{\"e\":\"ret\",\"a\":%ld,\"k\":%zu,\"res\":\"%s\",\"val\":%ld,\"flag\":%ld,\"clk\":%ld,%s}\n", me, k + 1,
                      res.c_str(), val, flag, ticks_of(sg4::Engine::get_clock()), projected_state().c_str());
    if (op.name == "trylock" && op.a[1] == 1 && res == "false")
      k++; // "trylock?": a failed attempt skips the next operation (its matching unlock)
  }
}

static void parse(const char* path)
{
  std::ifstream in(path);
  if (!in) {
    fprintf(stderr, "kdrv: cannot read %s\n", path);
    exit(4);
  }
  std::string line;
  while (std::getline(in, line)) {
    std::istringstream ls(line);
    std::string w;
    if (!(ls >> w) || w[0] == '#')
      continue;
    if (w == "@tick") {
      int e;
      ls >> e;
      TICK = std::ldexp(1.0, -e);
    } else if (w == "@hosts")
      ls >> nhosts;
    else if (w == "@mutex") {
      int r;
      ls >> r;
      mutex_rec.push_back(r != 0);
    } else if (w == "@sem") {
      int c;
      ls >> c;
      sem_cap.push_back(c);
    } else if (w == "@cv")
      ncv++;
    else if (w == "@bar") {
      int s;
      ls >> s;
      bar_size.push_back(s);
    } else if (w == "@mbox") {
      int r = 0;
      ls >> r;
      mbox_perm.push_back(r);
    } else if (w == "@lat") {
      ls >> link_lat;
    } else if (w == "@timed") {
      int t = 0;
      ls >> t;
      timed = t != 0;
    }
    else if (w == "@mq")
      nmq++;
    else if (w == "@actor") {
      ActorSpec a;
      int d = 0;
      ls >> a.host >> d;
      a.spawned = d != 0;
      actors.push_back(a);
    } else if (w == "@end")
      break;
    else {
      Op op;
      op.name = w;
      for (int i = 0; i < 4 && (ls >> op.a[i]); i++)
        ;
      if (actors.empty()) {
        fprintf(stderr, "kdrv: op before actor\n");
        exit(4);
      }
      actors.back().ops.push_back(op);
    }
  }
}

int main(int argc, char** argv)
{
  sg4::Engine e(&argc, argv);
  if (argc < 2) {
    fprintf(stderr, "usage: kdrv program.txt\n");
    return 4;
  }
  parse(argv[1]);
  signal(SIGABRT, on_fatal_signal);
  signal(SIGSEGV, on_fatal_signal);
  signal(SIGFPE, on_fatal_signal);
  std::set_terminate(on_terminate);

  auto* zone = e.get_netzone_root();
  // timed platform: speeds and bandwidth are powers of two so that every duration is an exact number of ticks
  for (int i = 0; i < nhosts; i++)
    hosts.push_back(zone->add_host("h" + std::to_string(i + 1), timed ? 1024.0 / TICK : 1e9));
  auto* link = timed ? zone->add_link("l", 1.0 / TICK)->set_latency(link_lat * TICK)->set_sharing_policy(sg4::Link::SharingPolicy::FATPIPE)
                     : zone->add_link("l", 1e6)->set_latency(1e-4);
  the_link = link;
  for (int i = 0; i < nhosts; i++)
    for (int j = i; j < nhosts; j++) // j == i: an actor may send to itself, through the same dedicated link
      zone->add_route(hosts[i], hosts[j], std::vector<sg4::LinkInRoute>{sg4::LinkInRoute(link)}, i != j);
  zone->seal();

  for (bool r : mutex_rec)
    mutexes.push_back(sg4::Mutex::create(r));
  for (int c : sem_cap)
    sems.push_back(sg4::Semaphore::create(c));
  for (int i = 0; i < ncv; i++)
    cvs.push_back(sg4::ConditionVariable::create());
  for (int s : bar_size)
    bars.push_back(sg4::Barrier::create(s));
  for (size_t i = 0; i < mbox_perm.size(); i++)
    mboxes.push_back(sg4::Mailbox::by_name("mb" + std::to_string(i + 1)));
  for (int i = 0; i < nmq; i++)
    mqs.push_back(sg4::MessageQueue::by_name("mq" + std::to_string(i + 1)));

  sg4::Engine::on_time_advance_cb([](double) {
    simgrid_verif_log("{\"e\":\"adv\",\"clk\":%ld}\n", ticks_of(sg4::Engine::get_clock()));
  });
  sg4::Engine::on_deadlock_cb([]() { log_end("deadlock"); });
  sg4::Engine::on_simulation_end_cb([]() { log_end("normal"); });

  aptr.assign(actors.size(), nullptr);
  for (size_t i = 0; i < actors.size(); i++)
    if (not actors[i].spawned)
      aptr[i] = hosts[actors[i].host % nhosts]->add_actor("a" + std::to_string(i + 1), [i]() { run_actor(i); });
  for (size_t i = 0; i < mbox_perm.size(); i++)
    if (mbox_perm[i] > 0 && aptr[mbox_perm[i] - 1] != nullptr)
      mboxes[i]->set_receiver(aptr[mbox_perm[i] - 1]);

  e.run();
  return 0;
}
