/* lmm_driver: replays *histories* (sequences of operations of the public API of simgrid::kernel::lmm::System) on real
 * System instances and prints what the implementation computed, as ndjson on stdout.
 *
 * usage: lmm_driver <histories.txt> [kind ...]          kinds (default: all):
 *   mmsel  MaxMin(selective_update = true)        mmfull MaxMin(selective_update = false)
 *   fresh  a MaxMin(false) system rebuilt from scratch, after every solve, from the current activities of the
 *          selective system (read back through the accessors of the real objects)   [emitted by the mmsel run]
 *   bmf    BmfSystem(false)                        fb     FairBottleneck(false)
 *
 * token file (one operation per line; constraints and variables are numbered from 1 in creation order, ids of freed
 * variables are not reused; weights are given in halves: w2 = 2 * consumption_weight):
 *   H <id>                      start of a history
 *   cnew <bound> <shared 1|0> <concurrency limit | -1>
 *   vnew <penalty> <bound | -1> <max number of constraints>
 *   expand <c> <v> <w2>         free <v>          vbound <v> <bound | -1>        vpen <v> <penalty>
 *   cbound <c> <bound>          solve
 *   ff <k>                      fast-forward: as if (UINT_MAX - k - visited_counter_) solves of unrelated modifications had
 *                               happened (sets the private visit-stamp counter; selective systems only; only honoured when
 *                               the driver is built with -DLMM_DRIVER_SEAM -fno-access-control; otherwise reported as
 *                               "seam":0 in the header line and ignored)
 *   E                           end of the history
 *
 * The histories are replayed in a forked worker, so that an abort of the code under test (xbt_assert, the explicit
 * error of the BMF solver) or a solver that does not terminate (LMM_DRIVER_CHILD_TIMEOUT seconds of CPU time per
 * (history, kind), default 2: sig 24 = SIGXCPU) is reported as a line {"e":"abort"} and does not stop the batch (a new
 * worker goes on).
 *
 * output lines:
 *   {"e":"hdr","scale":100000,"prec":<sg_precision_workamount * 1e9>,"seam":0|1}
 *   {"e":"op","h":id,"k":kind,"i":n,"op":name,"pen":[..],"stg":[..],"slack":[..]}          after every operation
 *       pen/stg: sharing penalty / staged penalty of every variable id (scaled by 1000; -1 for a freed variable)
 *       slack:   get_concurrency_slack() of every constraint (-1 when there is no limit)
 *   solve lines also carry "val":[..] (get_value() scaled by `scale`, rounded, clamped to +-CLAMP; -1 for freed
 *   variables... freed variables are recognised by pen = -1) and "f":[..] the raw doubles (%.17g) for the replay files
 *   {"e":"abort","h":id,"k":kind,"i":n,"sig":s,"bmf_error":0|1}     the child died while performing operation n
 */
#include "src/kernel/lmm/bmf.hpp"
#include "src/kernel/lmm/fair_bottleneck.hpp"
#include "src/kernel/lmm/maxmin.hpp"
#include "simgrid/kernel/resource/Action.hpp"
#include "simgrid/kernel/resource/Model.hpp"
#include "xbt/log.h"

#include <climits>
#include <cmath>
#include <cstdio>
#include <cstdlib>
#include <csignal>
#include <cstring>
#include <fstream>
#include <sstream>
#include <string>
#include <sys/prctl.h>
#include <sys/resource.h>
#include <sys/wait.h>
#include <unistd.h>
#include <vector>

namespace lmm = simgrid::kernel::lmm;
namespace res = simgrid::kernel::resource;

static const long SCALE = 100000;
static const long CLAMP = 10000000; /* |scaled value| is clamped: keeps every sum of the TLA+ predicates below 2^31 */

struct Op {
  std::string name;
  long a = 0, b = 0, c = 0;
};
struct History {
  long id = 0;
  std::vector<Op> ops;
};

class VModel : public res::Model {
public:
  VModel() : Model("verif-lmm") {}
};
class VAction : public res::Action {
public:
  explicit VAction(res::Model* m) : Action(m, 1.0, false) {}
  void update_remains_lazy(double) override {}
};

static long scaled(double v, long scale)
{
  if (std::isnan(v))
    return -CLAMP;
  double s = v * static_cast<double>(scale);
  if (s > CLAMP)
    return CLAMP;
  if (s < -CLAMP)
    return -CLAMP;
  return std::lround(s);
}

struct Replayer {
  std::string kind;
  lmm::System* sys = nullptr;
  VModel* model    = nullptr;
  std::vector<lmm::Constraint*> cnsts;
  std::vector<lmm::Variable*> vars; /* nullptr once freed */
  bool selective = false;

  explicit Replayer(const std::string& k) : kind(k)
  {
    model = new VModel();
    if (k == "mmsel") {
      selective = true;
      sys       = new lmm::MaxMin(true);
    } else if (k == "mmfull")
      sys = new lmm::MaxMin(false);
    else if (k == "bmf")
      sys = new lmm::BmfSystem(false);
    else if (k == "fb")
      sys = new lmm::FairBottleneck(false);
    else {
      fprintf(stderr, "unknown kind %s\n", k.c_str());
      _exit(3);
    }
    model->set_maxmin_system(sys);
  }

  /* frees every variable and the system (the model owns it) */
  void cleanup()
  {
    for (auto*& v : vars)
      if (v) {
        sys->variable_free(v);
        v = nullptr;
      }
    if (selective)
      sys->get_modified_action_set()->clear();
    delete model;
    model = nullptr;
    sys   = nullptr;
  }

  void state_json(std::ostringstream& o) const
  {
    o << "\"pen\":[";
    for (size_t i = 0; i < vars.size(); i++)
      o << (i ? "," : "") << (vars[i] ? scaled(vars[i]->get_penalty(), 1000) : -1);
    o << "],\"stg\":[";
    for (size_t i = 0; i < vars.size(); i++)
      o << (i ? "," : "") << (vars[i] ? scaled(vars[i]->staged_sharing_penalty_, 1000) : -1);
    o << "],\"slack\":[";
    for (size_t i = 0; i < cnsts.size(); i++) {
      int s = cnsts[i]->get_concurrency_slack();
      o << (i ? "," : "") << (cnsts[i]->get_concurrency_limit() < 0 ? -1 : (s < -1000 ? -1000 : s));
    }
    o << "]";
  }

  static void values_json(std::ostringstream& o, const std::vector<lmm::Variable*>& vs)
  {
    o << ",\"val\":[";
    for (size_t i = 0; i < vs.size(); i++)
      o << (i ? "," : "") << (vs[i] ? scaled(vs[i]->get_value(), SCALE) : -1);
    o << "],\"f\":[";
    char buf[64];
    for (size_t i = 0; i < vs.size(); i++) {
      double v = vs[i] ? vs[i]->get_value() : -1.0;
      if (std::isfinite(v))
        snprintf(buf, sizeof buf, "%.17g", v);
      else
        snprintf(buf, sizeof buf, "\"%s\"", std::isnan(v) ? "nan" : "inf");
      o << (i ? "," : "") << buf;
    }
    o << "]";
  }

  /* a fresh system holding the current activities, read back from the real objects of this system */
  void emit_fresh(long hid, size_t i) const
  {
    lmm::MaxMin fresh(false);
    std::vector<lmm::Constraint*> fc;
    for (auto* c : cnsts) {
      lmm::Constraint* n = fresh.constraint_new(nullptr, c->bound_);
      if (c->get_sharing_policy() == lmm::Constraint::SharingPolicy::FATPIPE)
        n->unshare();
      n->set_concurrency_limit(c->get_concurrency_limit());
      fc.push_back(n);
    }
    std::vector<lmm::Variable*> fv(vars.size(), nullptr);
    for (size_t v = 0; v < vars.size(); v++) {
      if (not vars[v])
        continue;
      const lmm::Variable* o = vars[v];
      size_t n               = o->get_number_of_constraint();
      fv[v]                  = fresh.variable_new(nullptr, o->get_penalty(), o->get_bound(), n ? n : 1);
      for (unsigned j = 0; j < n; j++) {
        lmm::Constraint* oc = o->get_constraint(j);
        size_t ci           = 0;
        while (ci < cnsts.size() && cnsts[ci] != oc)
          ci++;
        fresh.expand(fc[ci], fv[v], o->get_constraint_weight(j));
      }
    }
    fresh.solve();
    std::ostringstream o;
    o << "{\"e\":\"op\",\"h\":" << hid << ",\"k\":\"fresh\",\"i\":" << i << ",\"op\":\"solve\"";
    values_json(o, fv);
    o << "}\n";
    std::string s = o.str();
    if (write(1, s.data(), s.size()) < 0)
      _exit(4);
    for (auto* v : fv)
      if (v)
        fresh.variable_free(v);
  }

  void apply(long hid, size_t i, const Op& op, bool with_fresh)
  {
    const std::string& n = op.name;
    if (n == "cnew") {
      lmm::Constraint* c = sys->constraint_new(nullptr, static_cast<double>(op.a));
      if (op.b == 0)
        c->unshare();
      c->set_concurrency_limit(static_cast<int>(op.c));
      cnsts.push_back(c);
    } else if (n == "vnew") {
      res::Action* act = selective ? new VAction(model) : nullptr;
      vars.push_back(sys->variable_new(act, static_cast<double>(op.a), static_cast<double>(op.b),
                                       static_cast<size_t>(op.c > 0 ? op.c : 1)));
    } else if (n == "expand") {
      sys->expand(cnsts.at(op.a - 1), vars.at(op.b - 1), static_cast<double>(op.c) / 2.0);
    } else if (n == "free") {
      lmm::Variable* v = vars.at(op.a - 1);
      res::Action* act = v->get_id();
      sys->variable_free(v);
      vars[op.a - 1] = nullptr;
      if (act && act->is_within_modified_set())
        simgrid::xbt::intrusive_erase(*sys->get_modified_action_set(), *act);
    } else if (n == "vbound") {
      sys->update_variable_bound(vars.at(op.a - 1), static_cast<double>(op.b));
    } else if (n == "vpen") {
      sys->update_variable_penalty(vars.at(op.a - 1), static_cast<double>(op.b));
    } else if (n == "cbound") {
      sys->update_constraint_bound(cnsts.at(op.a - 1), static_cast<double>(op.b));
    } else if (n == "solve") {
      sys->solve();
      if (selective)
        sys->get_modified_action_set()->clear(); /* what Model::next_occurring_event_lazy does with it */
    } else if (n == "ff") {
#ifdef LMM_DRIVER_SEAM
      if (selective)
        sys->visited_counter_ = UINT_MAX - static_cast<unsigned>(op.a);
#endif
    } else {
      fprintf(stderr, "unknown op %s\n", n.c_str());
      _exit(3);
    }
    std::ostringstream o;
    o << "{\"e\":\"op\",\"h\":" << hid << ",\"k\":\"" << kind << "\",\"i\":" << i << ",\"op\":\"" << n << "\",";
    state_json(o);
    if (n == "solve")
      values_json(o, vars);
    o << "}\n";
    std::string s = o.str();
    if (write(1, s.data(), s.size()) < 0)
      _exit(4);
    if (n == "solve" && with_fresh)
      emit_fresh(hid, i);
  }
};

static std::vector<History> read_histories(const char* path)
{
  std::vector<History> hs;
  std::ifstream in(path);
  if (not in) {
    fprintf(stderr, "cannot read %s\n", path);
    exit(3);
  }
  std::string line;
  History cur;
  bool open = false;
  while (std::getline(in, line)) {
    std::istringstream ls(line);
    std::string w;
    if (not(ls >> w))
      continue;
    if (w == "H") {
      cur = History();
      ls >> cur.id;
      open = true;
    } else if (w == "E") {
      if (open)
        hs.push_back(cur);
      open = false;
    } else {
      Op op;
      op.name = w;
      ls >> op.a >> op.b >> op.c;
      cur.ops.push_back(op);
    }
  }
  return hs;
}

int main(int argc, char** argv)
{
  xbt_log_init(&argc, argv);
  if (argc < 2) {
    fprintf(stderr, "usage: lmm_driver <histories.txt> [kind ...]\n");
    return 3;
  }
  std::vector<std::string> kinds;
  for (int i = 2; i < argc; i++)
    kinds.emplace_back(argv[i]);
  if (kinds.empty())
    kinds = {"mmsel", "mmfull", "bmf", "fb"};
  auto hs = read_histories(argv[1]);
  unsigned child_timeout = 2;
  if (const char* e = getenv("LMM_DRIVER_CHILD_TIMEOUT"))
    child_timeout = static_cast<unsigned>(atoi(e));
#ifdef LMM_DRIVER_SEAM
  int seam = 1;
#else
  int seam = 0;
#endif
  printf("{\"e\":\"hdr\",\"scale\":%ld,\"prec\":%ld,\"clamp\":%ld,\"seam\":%d}\n", SCALE,
         std::lround(sg_precision_workamount * 1e9), CLAMP, seam);
  fflush(stdout);
  /* One worker child replays (history, kind) pairs in order, from position `pos`; before every operation it tells the
   * parent where it is.  When it dies (abort of the code under test, alarm), the parent reports the pair as aborted and
   * starts a new worker after that pair. */
  size_t npairs = hs.size() * kinds.size();
  size_t pos    = 0;
  while (pos < npairs) {
    int prog[2]; /* progress pipe: (pair index, operation index) */
    int errp[2]; /* stderr of the worker (explicit error message of the BMF solver, xbt_assert messages) */
    if (pipe(prog) || pipe(errp)) {
      perror("pipe");
      return 3;
    }
    pid_t pid = fork();
    if (pid < 0) {
      perror("fork");
      return 3;
    }
    if (pid == 0) {
      prctl(PR_SET_PDEATHSIG, SIGKILL); /* never outlive the driver (a spinning solver would) */
      close(prog[0]);
      close(errp[0]);
      dup2(errp[1], 2);
      for (size_t p = pos; p < npairs; p++) {
        const History& h     = hs[p / kinds.size()];
        const std::string& k = kinds[p % kinds.size()];
        /* a solver that does not terminate: the worker dies with SIGXCPU (24) after child_timeout seconds of CPU time
         * for this pair (CPU time, so that a loaded machine does not look like a hang); wall-clock backstop: SIGALRM */
        struct rusage ru;
        getrusage(RUSAGE_SELF, &ru);
        struct rlimit rl;
        rl.rlim_cur = static_cast<rlim_t>(ru.ru_utime.tv_sec + ru.ru_stime.tv_sec + 1 + child_timeout);
        rl.rlim_max = RLIM_INFINITY;
        setrlimit(RLIMIT_CPU, &rl);
        alarm(60 * child_timeout);
        {
          Replayer r(k);
          for (size_t i = 0; i < h.ops.size(); i++) {
            unsigned msg[2] = {static_cast<unsigned>(p), static_cast<unsigned>(i + 1)};
            if (write(prog[1], msg, sizeof msg) < 0)
              _exit(4);
            r.apply(h.id, i + 1, h.ops[i], k == "mmsel");
          }
          r.cleanup();
        }
      }
      _exit(0);
    }
    close(prog[1]);
    close(errp[1]);
    unsigned last_pair = static_cast<unsigned>(pos);
    unsigned last_op   = 0;
    std::string errtxt;
    fd_set fds;
    bool p_open = true;
    bool e_open = true;
    while (p_open || e_open) {
      FD_ZERO(&fds);
      if (p_open)
        FD_SET(prog[0], &fds);
      if (e_open)
        FD_SET(errp[0], &fds);
      int mx = std::max(prog[0], errp[0]) + 1;
      if (select(mx, &fds, nullptr, nullptr, nullptr) < 0)
        break;
      if (p_open && FD_ISSET(prog[0], &fds)) {
        unsigned msg[2];
        ssize_t n = read(prog[0], msg, sizeof msg);
        if (n == static_cast<ssize_t>(sizeof msg)) {
          last_pair = msg[0];
          last_op   = msg[1];
        } else
          p_open = false;
      }
      if (e_open && FD_ISSET(errp[0], &fds)) {
        char buf[4096];
        ssize_t n = read(errp[0], buf, sizeof buf);
        if (n > 0) {
          errtxt.append(buf, static_cast<size_t>(n)); /* warnings of earlier pairs + the message of the fatal one */
          if (errtxt.size() > 131072)
            errtxt.erase(0, 65536);
        } else
          e_open = false;
      }
    }
    close(prog[0]);
    close(errp[0]);
    int status = 0;
    waitpid(pid, &status, 0);
    if (WIFEXITED(status) && WEXITSTATUS(status) == 0)
      break;
    int sig     = WIFSIGNALED(status) ? WTERMSIG(status) : -WEXITSTATUS(status);
    int bmf_err = errtxt.find("Unable to find a BMF allocation") != std::string::npos ? 1 : 0;
    std::string msg;
    size_t from = errtxt.find("Unable to find a BMF");
    if (from == std::string::npos)
      from = errtxt.size() > 300 ? errtxt.size() - 300 : 0;
    for (char ch : errtxt.substr(from, 300))
      msg += (ch == '"' || ch == '\\' || ch < 32) ? ' ' : ch;
    printf("{\"e\":\"abort\",\"h\":%ld,\"k\":\"%s\",\"i\":%u,\"sig\":%d,\"bmf_error\":%d,\"msg\":\"%s\"}\n",
           hs[last_pair / kinds.size()].id, kinds[last_pair % kinds.size()].c_str(), last_op, sig, bmf_err, msg.c_str());
    fflush(stdout);
    pos = last_pair + 1;
  }
  return 0;
}
