/* mc_trans.hpp: builds REAL simgrid::mc::Transition objects for the unit-level drivers of the model checker's own
 * data structures (C42: odpor::Execution, C44: udpor::*).
 *
 * A transition is described by a token line   <aid> <times_considered> <TYPENAME> <int fields...>   and is built through
 * the checker's real decoding path: the fields are laid out exactly as the application side packs them, re-injected in
 * a mc::Channel (Channel::reinject) and decoded by mc::deserialize_transition(), i.e. by the constructors
 * XxxTransition(Aid, int, mc::Channel&) of src/mc/transition/ *.cpp.
 *
 * Field order per type (bool as 0/1, actor ids as integers, -1 = none):
 *   BARRIER_ASYNC_LOCK|BARRIER_WAIT                      bar
 *   MUTEX_ASYNC_LOCK|TEST|TRYLOCK|UNLOCK|WAIT            mutex owner
 *   SEM_ASYNC_LOCK|SEM_UNLOCK|SEM_WAIT                   sem granted capacity
 *   CONDVAR_ASYNC_LOCK                                   cv mutex
 *   CONDVAR_WAIT                                         cv mutex granted timeout
 *   CONDVAR_SIGNAL|CONDVAR_BROADCAST                     cv
 *   COMM_ASYNC_RECV|COMM_ASYNC_SEND                      comm mbox tag
 *   COMM_IPROBE                                          mbox is_sender tag
 *   COMM_TEST                                            comm sender receiver mbox
 *   COMM_WAIT                                            timeout comm sender receiver mbox
 *   TESTANY                                              k  (comm sender receiver mbox) x k
 *   WAITANY                                              k  (timeout comm sender receiver mbox) x k
 *   RANDOM                                               min max
 *   ACTOR_JOIN                                           target timeout
 *   ACTOR_CREATE                                         child
 *   ACTOR_EXIT|ACTOR_SLEEP                               (none)
 */
#ifndef VERIF_MC_TRANS_HPP
#define VERIF_MC_TRANS_HPP

#include "src/mc/remote/Channel.hpp"
#include "src/mc/transition/Transition.hpp"
#include "src/mc/transition/TransitionActor.hpp"
#include "src/mc/transition/TransitionAny.hpp"
#include "src/mc/transition/TransitionComm.hpp"
#include "src/mc/transition/TransitionRandom.hpp"
#include "src/mc/transition/TransitionSynchro.hpp"

#include <cstring>
#include <memory>
#include <sstream>
#include <stdexcept>
#include <string>
#include <vector>

namespace vmc {
using simgrid::mc::Transition;
using Type = simgrid::mc::Transition::Type;

struct Packer {
  std::string buf;
  template <class T> void put(T v)
  {
    char tmp[sizeof(T)];
    std::memcpy(tmp, &v, sizeof(T));
    buf.append(tmp, sizeof(T));
  }
  void put_string(const std::string& s) // same layout as Channel::pack<std::string>
  {
    put<unsigned short>((unsigned short)s.size());
    buf.append(s.data(), s.size());
    buf.push_back('\0');
  }
};

inline Type type_of_name(const std::string& name)
{
  for (int i = 0; i <= (int)Type::UNKNOWN; i++)
    if (name == Transition::to_c_str((Type)i))
      return (Type)i;
  throw std::runtime_error("unknown transition type name: " + name);
}

struct Desc {
  int aid   = 0;
  int times = 0;
  std::string type;
  std::vector<long> f;
};

inline Desc parse_desc(std::istringstream& in)
{
  Desc d;
  if (!(in >> d.aid >> d.times >> d.type))
    throw std::runtime_error("bad transition line");
  long v;
  while (in >> v)
    d.f.push_back(v);
  return d;
}

inline void pack_body(Packer& p, Type t, const std::vector<long>& f, size_t& i)
{
  auto next = [&]() -> long {
    if (i >= f.size())
      throw std::runtime_error("missing field for transition");
    return f[i++];
  };
  p.put<Type>(t);
  switch (t) {
    case Type::BARRIER_ASYNC_LOCK:
    case Type::BARRIER_WAIT:
      p.put<unsigned>((unsigned)next());
      break;
    case Type::MUTEX_ASYNC_LOCK:
    case Type::MUTEX_TEST:
    case Type::MUTEX_TRYLOCK:
    case Type::MUTEX_UNLOCK:
    case Type::MUTEX_WAIT:
      p.put<unsigned>((unsigned)next());
      p.put<aid_t>((aid_t)next());
      break;
    case Type::SEM_ASYNC_LOCK:
    case Type::SEM_UNLOCK:
    case Type::SEM_WAIT:
      p.put<unsigned>((unsigned)next());
      p.put<bool>(next() != 0);
      p.put<int>((int)next());
      break;
    case Type::CONDVAR_ASYNC_LOCK:
      p.put<unsigned>((unsigned)next());
      p.put<unsigned>((unsigned)next());
      break;
    case Type::CONDVAR_WAIT:
      p.put<unsigned>((unsigned)next());
      p.put<unsigned>((unsigned)next());
      p.put<bool>(next() != 0);
      p.put<bool>(next() != 0);
      break;
    case Type::CONDVAR_SIGNAL:
    case Type::CONDVAR_BROADCAST:
      p.put<unsigned>((unsigned)next());
      break;
    case Type::COMM_ASYNC_RECV:
    case Type::COMM_ASYNC_SEND:
      p.put<unsigned>((unsigned)next());
      p.put<unsigned>((unsigned)next());
      p.put<int>((int)next());
      p.put_string("verif:0:drv()");
      break;
    case Type::COMM_IPROBE:
      p.put<unsigned>((unsigned)next());
      p.put<bool>(next() != 0);
      p.put<int>((int)next());
      break;
    case Type::COMM_TEST:
      p.put<unsigned>((unsigned)next());
      p.put<aid_t>((aid_t)next());
      p.put<aid_t>((aid_t)next());
      p.put<unsigned>((unsigned)next());
      p.put_string("verif:0:drv()");
      break;
    case Type::COMM_WAIT:
      p.put<bool>(next() != 0);
      p.put<unsigned>((unsigned)next());
      p.put<aid_t>((aid_t)next());
      p.put<aid_t>((aid_t)next());
      p.put<unsigned>((unsigned)next());
      p.put_string("verif:0:drv()");
      break;
    case Type::TESTANY:
    case Type::WAITANY: {
      unsigned k = (unsigned)next();
      p.put<unsigned>(k);
      for (unsigned j = 0; j < k; j++)
        pack_body(p, t == Type::TESTANY ? Type::COMM_TEST : Type::COMM_WAIT, f, i);
      p.put_string("verif:0:drv()");
      break;
    }
    case Type::RANDOM:
      p.put<int>((int)next());
      p.put<int>((int)next());
      break;
    case Type::ACTOR_JOIN:
      p.put<aid_t>((aid_t)next());
      p.put<bool>(next() != 0);
      break;
    case Type::ACTOR_CREATE:
      p.put<aid_t>((aid_t)next());
      break;
    case Type::ACTOR_EXIT:
    case Type::ACTOR_SLEEP:
      break;
    default:
      throw std::runtime_error(std::string("transition type not buildable: ") + Transition::to_c_str(t));
  }
}

/* The channel is 2 MiB: one instance for the whole process. */
inline simgrid::mc::Channel& channel()
{
  static auto* ch = new simgrid::mc::Channel();
  return *ch;
}

inline simgrid::mc::TransitionPtr build(const Desc& d)
{
  Packer p;
  size_t i = 0;
  pack_body(p, type_of_name(d.type), d.f, i);
  if (i != d.f.size())
    throw std::runtime_error("too many fields for " + d.type);
  auto& ch = channel();
  if (ch.has_pending_data())
    throw std::runtime_error("channel not drained by the previous deserialization");
  ch.reinject(p.buf.data(), p.buf.size());
  simgrid::mc::Transition* t =
      simgrid::mc::deserialize_transition(simgrid::mc::Aid{d.aid}, d.times, ch); // the real decoding path
  if (ch.has_pending_data())
    throw std::runtime_error("deserialize_transition left bytes in the channel for " + d.type);
  return simgrid::mc::TransitionPtr(t);
}

inline std::string json_escape(const std::string& s)
{
  std::string o;
  for (char c : s) {
    if (c == '"' || c == '\\') {
      o.push_back('\\');
      o.push_back(c);
    } else if ((unsigned char)c < 0x20) {
      o.push_back(' ');
    } else
      o.push_back(c);
  }
  return o;
}
} // namespace vmc
#endif
