/* mc_unit_driver (C42): builds executions of REAL transitions in the checker's own odpor::Execution and logs what the
 * implementation answers, one JSON line per execution (consumed by spec/mc/HbTrace.tla):
 *   actor[], type[], str[]             the transitions as decoded by the checker (Transition::to_string)
 *   dep[i][j]                          Transition::dispatch_depends(t_i, t_j) for every ordered pair (the REAL relation)
 *   hb[i][j]                           Execution::happens_before(i, j) for every ordered pair, on the complete execution
 *   racing[e]                          Execution::get_racing_events_of(e) on the complete execution (list, as returned)
 *   hb_push[k], racing_push[k]         { i : happens_before(i,k) } and get_racing_events_of(k) right after push k
 *   removed                            number of push/remove_last_event detours performed while building
 *
 * usage: mc_unit_driver <script>      script lines:  X <id> | T <aid> <times> <TYPE> <fields..> | R | E
 * (T = push_transition of a transition built by the real decoding path, R = remove_last_event, E = end + dump)
 *   Y <id>  followed by two T lines: no execution; prints {"pair":id,"d12":..,"d21":..,"s1":..,"s2":..} = the real
 *   Transition::dispatch_depends between the two transitions, in both directions (C39)
 */
#include "mc_trans.hpp"
#include "src/mc/explo/odpor/Execution.hpp"

#include <cstdio>
#include <fstream>
#include <iostream>

using simgrid::mc::TransitionPtr;
using simgrid::mc::odpor::Execution;

static void dump_list(std::ostream& o, const std::list<Execution::EventHandle>& l)
{
  o << "[";
  bool first = true;
  for (auto h : l) {
    o << (first ? "" : ",") << h;
    first = false;
  }
  o << "]";
}

int main(int argc, char** argv)
{
  if (argc < 2) {
    fprintf(stderr, "usage: %s script\n", argv[0]);
    return 2;
  }
  std::ifstream in(argv[1]);
  if (!in) {
    fprintf(stderr, "cannot open %s\n", argv[1]);
    return 2;
  }
  std::string line;
  long id = -1;
  std::unique_ptr<Execution> exec;
  std::vector<TransitionPtr> seq;
  std::vector<std::string> hb_push, racing_push;
  int removed = 0;
  long lineno = 0;
  long pair_id = -1;
  std::vector<TransitionPtr> pair;
  try {
    while (std::getline(in, line)) {
      lineno++;
      if (line.empty())
        continue;
      std::istringstream ls(line);
      std::string cmd;
      ls >> cmd;
      if (cmd == "X") {
        pair_id = -1;
        ls >> id;
        exec = std::make_unique<Execution>();
        seq.clear();
        hb_push.clear();
        racing_push.clear();
        removed = 0;
      } else if (cmd == "Y") {
        ls >> pair_id;
        pair.clear();
      } else if (cmd == "T" && pair_id >= 0) {
        auto d = vmc::parse_desc(ls);
        pair.push_back(vmc::build(d));
        if (pair.size() == 2) {
          std::cout << "{\"pair\":" << pair_id << ",\"d12\":" << (pair[0]->dispatch_depends(pair[1].get()) ? 1 : 0)
                    << ",\"d21\":" << (pair[1]->dispatch_depends(pair[0].get()) ? 1 : 0) << ",\"s1\":\""
                    << vmc::json_escape(pair[0]->to_string(true)) << "\",\"s2\":\""
                    << vmc::json_escape(pair[1]->to_string(true)) << "\"}\n";
          pair_id = -1;
        }
      } else if (cmd == "T") {
        auto d = vmc::parse_desc(ls);
        TransitionPtr t = vmc::build(d);
        exec->push_transition(t);
        seq.push_back(t);
        auto k = (Execution::EventHandle)(exec->size() - 1);
        std::ostringstream h;
        h << "[";
        bool first = true;
        for (Execution::EventHandle i = 0; i <= k; i++)
          if (exec->happens_before(i, k)) {
            h << (first ? "" : ",") << i;
            first = false;
          }
        h << "]";
        hb_push.push_back(h.str());
        std::ostringstream r;
        dump_list(r, exec->get_racing_events_of(k));
        racing_push.push_back(r.str());
      } else if (cmd == "R") {
        exec->remove_last_event();
        seq.pop_back();
        hb_push.pop_back();
        racing_push.pop_back();
        removed++;
      } else if (cmd == "E") {
        size_t n = seq.size();
        if (n != exec->size())
          throw std::runtime_error("size mismatch between the script and the Execution");
        std::ostringstream o;
        o << "{\"id\":" << id << ",\"n\":" << n << ",\"removed\":" << removed << ",\"actor\":[";
        for (size_t i = 0; i < n; i++)
          o << (i ? "," : "") << exec->get_actor_with_handle(i).c_val();
        o << "],\"type\":[";
        for (size_t i = 0; i < n; i++)
          o << (i ? "," : "") << "\"" << simgrid::mc::Transition::to_c_str(exec->get_transition_for_handle(i)->type_)
            << "\"";
        o << "],\"str\":[";
        for (size_t i = 0; i < n; i++)
          o << (i ? "," : "") << "\"" << vmc::json_escape(exec->get_transition_for_handle(i)->to_string(false)) << "\"";
        o << "],\"dep\":[";
        for (size_t i = 0; i < n; i++) {
          o << (i ? "," : "") << "[";
          for (size_t j = 0; j < n; j++)
            o << (j ? "," : "") << (seq[i]->dispatch_depends(seq[j].get()) ? 1 : 0);
          o << "]";
        }
        o << "],\"hb\":[";
        for (size_t i = 0; i < n; i++) {
          o << (i ? "," : "") << "[";
          for (size_t j = 0; j < n; j++)
            o << (j ? "," : "") << (exec->happens_before(i, j) ? 1 : 0);
          o << "]";
        }
        o << "],\"racing\":[";
        for (size_t e = 0; e < n; e++) {
          o << (e ? "," : "");
          dump_list(o, exec->get_racing_events_of(e));
        }
        o << "],\"hb_push\":[";
        for (size_t e = 0; e < n; e++)
          o << (e ? "," : "") << hb_push[e];
        o << "],\"racing_push\":[";
        for (size_t e = 0; e < n; e++)
          o << (e ? "," : "") << racing_push[e];
        o << "]}";
        std::cout << o.str() << "\n";
      } else {
        throw std::runtime_error("unknown script command " + cmd);
      }
    }
  } catch (const std::exception& e) {
    std::cout.flush();
    fprintf(stderr, "mc_unit_driver: line %ld (execution %ld): %s\n", lineno, id, e.what());
    return 4;
  }
  std::cout.flush();
  return 0;
}
